//@unit storekeys
//@properties C17
//@source storage src/persistence/storage.rs
//@source tenant src/persistence/tenant.rs
//@rules D2 R1
#![feature(allocator_api)]
#![allow(unused_imports, unused_variables, unused_mut, dead_code)]
use vstd::prelude::*;
use std::collections::HashMap;
verus!{
//@include common/std_extra.rs
// =====================================================================
// key layout, as mathematics over byte sequences (all lengths)
// =====================================================================
pub open spec fn colon() -> u8 { 58u8 }
pub open spec fn starts_with<T>(s: Seq<T>, p: Seq<T>) -> bool { p.len() <= s.len() && s.subrange(0, p.len() as int) == p }
pub open spec fn no_colon(t: Seq<u8>) -> bool { forall|i: int| 0 <= i < t.len() ==> t[i] != colon() }
/// the scan prefix of a tenant: its id followed by ':'
pub open spec fn prefix_of(t: Seq<u8>) -> Seq<u8> { t.push(colon()) }
/// any key of a tenant: the prefix followed by anything (":n:<hex>" / ":e:<hex>" in the code)
pub open spec fn key_of(t: Seq<u8>, rest: Seq<u8>) -> Seq<u8> { prefix_of(t) + rest }

/// a tenant's keys carry its prefix
pub proof fn lemma_key_has_own_prefix(t: Seq<u8>, rest: Seq<u8>)
    ensures starts_with(key_of(t, rest), prefix_of(t))
{
    assert(key_of(t, rest).subrange(0, prefix_of(t).len() as int) =~= prefix_of(t));
}
/// ... and never the prefix of another accepted tenant: names without ':' that differ cannot be told apart
/// wrongly, whatever their lengths (prefixes of one another, adjacent in sort order, ...)
pub proof fn lemma_key_has_no_other_prefix(t1: Seq<u8>, t2: Seq<u8>, rest: Seq<u8>)
    requires no_colon(t1), no_colon(t2), t1 != t2
    ensures !starts_with(key_of(t1, rest), prefix_of(t2))
{
    let k = key_of(t1, rest);
    let p = prefix_of(t2);
    if starts_with(k, p) {
        let sub = k.subrange(0, p.len() as int);
        assert(sub == p);
        // position t2.len() of the key is ':'  (it is p's last byte)
        assert(sub[t2.len() as int] == p[t2.len() as int]);
        assert(k[t2.len() as int] == colon());
        if t2.len() < t1.len() {
            assert(k[t2.len() as int] == t1[t2.len() as int]);      // inside t1: cannot be ':'
        } else if t2.len() == t1.len() {
            assert forall|i: int| 0 <= i < t1.len() implies t1[i] == t2[i] by {
                assert(sub[i] == p[i]);
                assert(k[i] == t1[i]);
            }
            assert(t1 =~= t2);
        } else {
            // t1 is shorter: position t1.len() of the key is ':' but of the prefix it is a byte of t2
            assert(sub[t1.len() as int] == p[t1.len() as int]);
            assert(k[t1.len() as int] == colon());
            assert(p[t1.len() as int] == t2[t1.len() as int]);
        }
    }
}
/// the tenant listed for a key is the text before the first ':' -- recovers exactly the owner
pub proof fn lemma_first_segment_is_tenant(t: Seq<u8>, rest: Seq<u8>, i: int)
    requires no_colon(t), 0 <= i <= t.len()
    ensures
        key_of(t, rest)[t.len() as int] == colon(),
        i < t.len() ==> key_of(t, rest)[i] == t[i] && key_of(t, rest)[i] != colon(),
{
}

// =====================================================================
// prelude: RocksDB, bincode and the graph types are external (A-EXT); assumed contracts
// =====================================================================
pub struct DbError;
pub struct BincodeError;
pub struct Cf;
/// the database: per column family, the entries in key order (ghost view)
pub struct DB;
pub struct DBIter { pub ghost_pos: Ghost<nat> }
pub uninterp spec fn db_entries(db: &DB, cf_name: &str, from: Seq<u8>) -> Seq<(Seq<u8>, Seq<u8>)>;
impl Cf { pub uninterp spec fn name(&self) -> &'static str; }
impl DBIter {
    /// the entries this iterator will yield, fixed when it was created
    pub uninterp spec fn entries(&self) -> Seq<(Seq<u8>, Seq<u8>)>;
    pub open spec fn pos(&self) -> nat { self.ghost_pos@ }
    // ASSUMED: RocksDB's iterator yields its entries one by one, then None.  (An I/O error may be yielded in
    // place of an entry; the scan aborts on it.)
    #[verifier::external_body]
    pub fn next(&mut self) -> (r: Option<Result<(Box<[u8]>, Box<[u8]>), DbError>>)
        ensures
            final(self).entries() == old(self).entries(),
            r.is_none() ==> old(self).pos() >= old(self).entries().len() && final(self).pos() == old(self).pos(),
            r.is_some() ==> old(self).pos() < old(self).entries().len() && final(self).pos() == old(self).pos() + 1,
            r matches Some(Ok(kv)) ==> kv.0@ == old(self).entries()[old(self).pos() as int].0
                && kv.1@ == old(self).entries()[old(self).pos() as int].1,
    { unimplemented!() }
}
impl DB {
    #[verifier::external_body]
    pub fn cf_handle(&self, name: &str) -> (r: Option<Cf>)
        ensures r matches Some(cf) ==> cf.name() == name
    { unimplemented!() }
    // ASSUMED (the point of C17): with no prefix extractor configured -- `open()` configures none --
    // prefix_iterator_cf is a plain seek: it yields, in key order, EVERY entry with key >= prefix,
    // including other tenants' keys that sort after this tenant's.
    #[verifier::external_body]
    pub fn prefix_iterator_cf(&self, cf: &Cf, prefix: &[u8]) -> (r: DBIter)
        ensures r.pos() == 0, r.entries() == db_entries(self, cf.name(), prefix@)
    { unimplemented!() }
}
pub uninterp spec fn decode_bytes<T>(b: Seq<u8>) -> T;
pub mod bincode {
    use super::*;
    // ASSUMED: deserialisation is a function of the bytes
    #[verifier::external_body]
    pub fn deserialize<T>(b: &[u8]) -> (r: Result<T, BincodeError>)
        ensures r matches Ok(v) ==> v == decode_bytes::<T>(b@)
    { unimplemented!() }
}
pub type PropertyMap = Vec<u8>;   // opaque stand-in: only moved around here
pub struct Label(pub String);
impl Label { #[verifier::external_body] pub fn new(s: String) -> (r: Label) ensures r.0 == s { unimplemented!() } }
pub struct EdgeType(pub String);
impl EdgeType { #[verifier::external_body] pub fn new(s: String) -> (r: EdgeType) ensures r.0 == s { unimplemented!() } }
pub mod graph { pub use super::Label; pub use super::EdgeType; }
#[derive(Clone, Copy)]
pub struct NodeId(pub u64);
impl NodeId { pub fn new(id: u64) -> (r: NodeId) ensures r.0 == id { NodeId(id) } }
#[derive(Clone, Copy)]
pub struct EdgeId(pub u64);
impl EdgeId { pub fn new(id: u64) -> (r: EdgeId) ensures r.0 == id { EdgeId(id) } }
pub struct Node { pub id: NodeId, pub version: u64, pub labels: Vec<Label>, pub properties: PropertyMap, pub created_at: i64, pub updated_at: i64 }
pub struct Edge { pub id: EdgeId, pub version: u64, pub source: NodeId, pub target: NodeId, pub edge_type: EdgeType, pub properties: PropertyMap, pub created_at: i64 }
pub enum StorageError { RocksDb(DbError), Serialization(BincodeError), NotFound(String), ColumnFamily(String) }
impl From<DbError> for StorageError { #[verifier::external_body] fn from(e: DbError) -> Self { StorageError::RocksDb(e) } }
impl From<BincodeError> for StorageError { #[verifier::external_body] fn from(e: BincodeError) -> Self { StorageError::Serialization(e) } }
pub type StorageResult<T> = Result<T, StorageError>;
/// the scan prefix as the code builds it: format!("{}:", tenant) -- its bytes are the tenant's bytes and ':'
/// (ASSUMED here; checked by Kani on the real expression for short tenants, unit storekeys_kani)
pub uninterp spec fn tenant_bytes(t: &str) -> Seq<u8>;
#[verifier::external_body]
pub fn scan_prefix(tenant: &str) -> (r: String)
    ensures r.as_bytes_spec() == prefix_of(tenant_bytes(tenant))
{ format!("{}:", tenant) }
pub trait AsBytesSpec { spec fn as_bytes_spec(&self) -> Seq<u8>; }
impl AsBytesSpec for String { uninterp spec fn as_bytes_spec(&self) -> Seq<u8>; }
pub assume_specification[ String::as_bytes ](s: &String) -> (r: &[u8])
    ensures r@ == s.as_bytes_spec(),
;

//@struct StoredNode
//@struct StoredEdge
//@struct PersistentStorage keep=db erase

impl PersistentStorage {
    /// what a scan may return: decodings of entries of the column family whose key carries the tenant's prefix
    pub open spec fn owned_by(entries: Seq<(Seq<u8>, Seq<u8>)>, j: int, tenant: &str) -> bool {
        0 <= j < entries.len() && starts_with(entries[j].0, prefix_of(tenant_bytes(tenant)))
    }
    /// the returned node with id `got` was decoded from some entry of the scan that carries the tenant's prefix
    pub open spec fn node_has_source(entries: Seq<(Seq<u8>, Seq<u8>)>, tenant: &str, got: u64) -> bool {
        exists|j: int| #[trigger] Self::owned_by(entries, j, tenant) && got == decode_bytes::<StoredNode>(entries[j].1).id
    }
    pub open spec fn edge_has_source(entries: Seq<(Seq<u8>, Seq<u8>)>, tenant: &str, got: u64) -> bool {
        exists|j: int| #[trigger] Self::owned_by(entries, j, tenant) && got == decode_bytes::<StoredEdge>(entries[j].1).id
    }

//@fn PersistentStorage::scan_nodes ret=r
//@ensures
        r matches Ok(nodes) ==> forall|i: int| 0 <= i < nodes@.len() ==>
            Self::node_has_source(db_entries(&self.db, "nodes", prefix_of(tenant_bytes(tenant))), tenant, (#[trigger] nodes@[i]).id.0),    //#only_entries_with_the_tenant_prefix
//@replace "format!(\"{}:\", tenant)" => "scan_prefix(tenant)" :: format! has no byte-level meaning in Verus; the wrapper's body is the same expression, its result (tenant bytes then ':') is assumed (A-STR)
//@replace "let mut nodes = Vec::new();" => "let mut nodes: Vec<Node> = Vec::new();" :: type annotation only (the invariant mentions the element type before the first push fixes it)
//@closure ok_or_else#1 () -> (e: StorageError)
//@before "let iter = self.db.prefix_iterator_cf"
        let ghost mut idx: Seq<int> = Seq::empty();   // ghost: which entry each returned element was decoded from
//@loop 1 desugar=iter2
            invariant
                iter2.entries() == db_entries(&self.db, "nodes", prefix_of(tenant_bytes(tenant))),                  //#iter_fixed
                prefix.as_bytes_spec() == prefix_of(tenant_bytes(tenant)),                                           //#prefix_fixed
                iter2.pos() <= iter2.entries().len(),                                                                 //#pos_in_range
                idx.len() == nodes@.len(),                                                                         //#one_witness_per_element
                forall|i: int| 0 <= i < idx.len() ==> 0 <= #[trigger] idx[i] < iter2.pos(),                           //#witness_consumed
                forall|i: int| 0 <= i < idx.len() ==> Self::owned_by(iter2.entries(), #[trigger] idx[i], tenant),   //#all_owned
                forall|i: int| 0 <= i < idx.len() ==> (#[trigger] nodes@[i]).id.0 == decode_bytes::<StoredNode>(iter2.entries()[idx[i]].1).id,   //#all_decoded
            decreases iter2.entries().len() - iter2.pos(),
//@before "nodes.push("
            proof {
                let p = prefix.as_bytes_spec();
                assert(key@.subrange(0, p.len() as int) =~= p);
                assert(starts_with(key@, p));
            }
//@after "nodes.push("
            proof { idx = idx.push(iter2.pos() - 1); }
//@atend
        proof {
            let es = db_entries(&self.db, "nodes", prefix_of(tenant_bytes(tenant)));
            assert forall|i: int| 0 <= i < nodes@.len() implies Self::node_has_source(es, tenant, (#[trigger] nodes@[i]).id.0) by {
                let j = idx[i];
                assert(Self::owned_by(es, j, tenant) && nodes@[i].id.0 == decode_bytes::<StoredNode>(es[j].1).id);
            }
        }
//@end

//@fn PersistentStorage::scan_edges ret=r
//@ensures
        r matches Ok(edges) ==> forall|i: int| 0 <= i < edges@.len() ==>
            Self::edge_has_source(db_entries(&self.db, "edges", prefix_of(tenant_bytes(tenant))), tenant, (#[trigger] edges@[i]).id.0),    //#only_entries_with_the_tenant_prefix
//@replace "format!(\"{}:\", tenant)" => "scan_prefix(tenant)" :: format! has no byte-level meaning in Verus; the wrapper's body is the same expression, its result (tenant bytes then ':') is assumed (A-STR)
//@replace "let mut edges = Vec::new();" => "let mut edges: Vec<Edge> = Vec::new();" :: type annotation only (the invariant mentions the element type before the first push fixes it)
//@closure ok_or_else#1 () -> (e: StorageError)
//@before "let iter = self.db.prefix_iterator_cf"
        let ghost mut idx: Seq<int> = Seq::empty();   // ghost: which entry each returned element was decoded from
//@loop 1 desugar=iter2
            invariant
                iter2.entries() == db_entries(&self.db, "edges", prefix_of(tenant_bytes(tenant))),                  //#iter_fixed
                prefix.as_bytes_spec() == prefix_of(tenant_bytes(tenant)),                                           //#prefix_fixed
                iter2.pos() <= iter2.entries().len(),                                                                 //#pos_in_range
                idx.len() == edges@.len(),                                                                         //#one_witness_per_element
                forall|i: int| 0 <= i < idx.len() ==> 0 <= #[trigger] idx[i] < iter2.pos(),                           //#witness_consumed
                forall|i: int| 0 <= i < idx.len() ==> Self::owned_by(iter2.entries(), #[trigger] idx[i], tenant),   //#all_owned
                forall|i: int| 0 <= i < idx.len() ==> (#[trigger] edges@[i]).id.0 == decode_bytes::<StoredEdge>(iter2.entries()[idx[i]].1).id,   //#all_decoded
            decreases iter2.entries().len() - iter2.pos(),
//@before "edges.push("
            proof {
                let p = prefix.as_bytes_spec();
                assert(key@.subrange(0, p.len() as int) =~= p);
                assert(starts_with(key@, p));
            }
//@after "edges.push("
            proof { idx = idx.push(iter2.pos() - 1); }
//@atend
        proof {
            let es = db_entries(&self.db, "edges", prefix_of(tenant_bytes(tenant)));
            assert forall|i: int| 0 <= i < edges@.len() implies Self::edge_has_source(es, tenant, (#[trigger] edges@[i]).id.0) by {
                let j = idx[i];
                assert(Self::owned_by(es, j, tenant) && edges@[i].id.0 == decode_bytes::<StoredEdge>(es[j].1).id);
            }
        }
//@end
}


// =====================================================================
// which tenant names the system accepts: TenantManager::create_tenant
// =====================================================================
pub struct ResourceQuotas;
pub struct ResourceUsage;
impl ResourceUsage { #[verifier::external_body] pub fn default() -> ResourceUsage { unimplemented!() } }
pub struct Tenant { pub id: String }
impl Tenant {
    #[verifier::external_body] pub fn new(id: String, name: String) -> (r: Tenant) ensures r.id == id { unimplemented!() }
    #[verifier::external_body] pub fn with_quotas(id: String, name: String, quotas: ResourceQuotas) -> (r: Tenant) ensures r.id == id { unimplemented!() }
}
pub enum TenantError { AlreadyExists(String), NotFound(String), InvalidEmbedConfig(String), QuotaExceeded { tenant: String, resource: String }, PermissionDenied(String), InvalidId(String) }
pub type TenantResult<T> = Result<T, TenantError>;
/// the bytes of an owned id are the bytes of the &str used as `tenant` in the storage API
pub uninterp spec fn string_bytes(s: String) -> Seq<u8>;
// `String::contains(':')` has no Verus meaning (generic Pattern); the call is routed through this wrapper whose
// body is the same expression; its result -- "some byte is ':'" -- is ASSUMED here and checked by Kani (storekeys_kani)
#[verifier::external_body]
pub fn id_has_colon(id: &String) -> (r: bool)
    ensures r == !no_colon(string_bytes(*id))
{ id.contains(':') }
// A-HASH for String keys (assumed)
#[verifier::external_body]
pub proof fn axiom_string_key_model()
    ensures vstd::std_specs::hash::obeys_key_model::<String>()
{}
//@struct TenantManager from=tenant erase

impl TenantManager {
    /// every registered tenant id is free of the key separator
    pub open spec fn ids_ok(&self) -> bool {
        forall|id: String| self.tenants@.contains_key(id) ==> no_colon(string_bytes(id))
    }
//@fn TenantManager::create_tenant from=tenant selfmut ret=r
//@requires
        old(self).ids_ok(),
//@ensures
        final(self).ids_ok(),                                                               //#accepted_ids_have_no_separator
        r.is_ok() ==> no_colon(string_bytes(id)) && final(self).tenants@.contains_key(id),  //#ok_registers_a_separator_free_id
        !no_colon(string_bytes(id)) ==> r.is_err() && final(self).tenants@ == old(self).tenants@,   //#separator_is_rejected
        forall|k: String| old(self).tenants@.contains_key(k) ==> final(self).tenants@.contains_key(k),   //#keeps_existing
//@replace "id.contains(':')" => "id_has_colon(&id)" :: String::contains(char) is generic over Pattern and has no Verus specification; wrapper body is the same expression (assumed contract, Kani-checked)
//@before "let mut tenants = (&mut self.tenants);"
        proof { axiom_string_key_model(); }
//@end
}

/// C17 in one statement: an entry written under tenant t2 is never returned by a scan for a different accepted tenant t1
pub proof fn lemma_scan_never_returns_other_tenants_entries(entries: Seq<(Seq<u8>, Seq<u8>)>, j: int, t1: Seq<u8>, t2: Seq<u8>, rest: Seq<u8>)
    requires
        no_colon(t1), no_colon(t2), t1 != t2,
        0 <= j < entries.len(),
        entries[j].0 == key_of(t2, rest),                 // written by node_key/edge_key for t2
    ensures !starts_with(entries[j].0, prefix_of(t1))     // hence not `owned_by` t1: the scan loop stops before returning it
{
    lemma_key_has_no_other_prefix(t2, t1, rest);
}
} // verus!
fn main() {}
