//@unit store_mvcc
//@properties C07 C08
//@source store src/graph/store.rs
//@source types src/graph/types.rs
//@rules D2 R2 R15
#![feature(allocator_api)]
#![allow(unused_imports, unused_variables, unused_mut, dead_code)]
use vstd::prelude::*;
use std::collections::{HashMap, HashSet};
verus!{
global size_of usize == 8;
//@include common/std_extra.rs
//@include common/iter_wrappers.rs
//@include common/hashmap_get_mut.rs
// =====================================================================
// prelude (assumed / stand-ins for what is not extracted)
// =====================================================================
/// a node version: its MVCC stamp and an opaque payload (labels, properties, timestamps)
#[verifier::external_body]
pub struct NodeData { d: u8 }
pub struct Node { pub version: u64, pub data: NodeData }
impl Clone for Node {
    #[verifier::external_body]
    fn clone(&self) -> (r: Self) ensures r == *self { unimplemented!() }
}
impl Node {
    /// Node::remove_property: changes the payload, never the stamp
    #[verifier::external_body]
    pub fn remove_property(&mut self, key: &str) -> (r: bool)
        ensures final(self).version == old(self).version
    { unimplemented!() }
}
/// the columnar property store (unit columnar, C30): opaque here
#[verifier::external_body]
pub struct ColumnStore { c: u8 }
/// PropertyValue: opaque
#[verifier::external_body]
pub struct PropertyValue { v: u8 }
impl Clone for PropertyValue {
    #[verifier::external_body]
    fn clone(&self) -> (r: Self) ensures r == *self { unimplemented!() }
}
pub uninterp spec fn props_insert(m: PropertyMap, k: Seq<char>, v: PropertyValue) -> PropertyMap;
impl PropertyMap {
    #[verifier::external_body] pub fn is_empty(&self) -> bool { unimplemented!() }
    #[verifier::external_body] pub fn len(&self) -> usize { unimplemented!() }
    #[verifier::external_body] pub fn contains_key(&self, k: &str) -> bool { unimplemented!() }
    #[verifier::external_body]
    pub fn new() -> (r: Self) ensures r == default_props() { unimplemented!() }
    #[verifier::external_body]
    pub fn insert(&mut self, k: String, v: PropertyValue) -> (r: Option<PropertyValue>)
        ensures *final(self) == props_insert(*old(self), k@, v)
    { unimplemented!() }
}
impl ColumnStore {
    #[verifier::external_body]
    pub fn set_property(&mut self, idx: usize, key: &str, value: PropertyValue) { unimplemented!() }
    #[verifier::external_body]
    pub fn remove_property(&mut self, idx: usize, key: &str) { unimplemented!() }
}
/// HashMap<String, PropertyValue>
#[verifier::external_body]
pub struct PropertyMap { m: u8 }
pub uninterp spec fn default_props() -> PropertyMap;
impl Clone for PropertyMap {
    #[verifier::external_body]
    fn clone(&self) -> (r: Self) ensures r == *self { unimplemented!() }
}
impl Default for PropertyMap {
    #[verifier::external_body]
    fn default() -> (r: Self) ensures r == default_props() { unimplemented!() }
}
#[verifier::external_body]
pub struct EdgeType { t: u8 }
impl Clone for EdgeType {
    #[verifier::external_body]
    fn clone(&self) -> (r: Self) ensures r == *self { unimplemented!() }
}
pub struct Edge { pub id: EdgeId, pub version: u64, pub source: NodeId, pub target: NodeId, pub edge_type: EdgeType, pub properties: PropertyMap, pub created_at: i64 }
#[verifier::external_body]
pub proof fn axiom_edgeid_key_model()
    ensures vstd::std_specs::hash::obeys_key_model::<EdgeId>()
{}
/// `v.iter().rev().find(p)`: the LAST element satisfying p (A-STD; Verus cannot specify the provided method
/// Iterator::find on Rev; the wrapper's body is the original expression)
pub open spec fn sat<'a, T, P: FnMut(&&'a T) -> bool>(p: P, x: T, b: bool) -> bool { exists|r: &&'a T| **r == x && p.ensures((r,), b) }
#[verifier::external_body]
pub fn slice_rfind<'a, T, P: FnMut(&&'a T) -> bool>(v: &'a Vec<T>, p: P) -> (r: Option<&'a T>)
    requires forall|x: &&T| p.requires((x,))
    ensures match r {
        Some(x) => exists|i: int| 0 <= i < v@.len() && *x == v@[i] && #[trigger] sat(p, v@[i], true)
            && forall|j: int| i < j < v@.len() ==> sat(p, #[trigger] v@[j], false),
        None => forall|j: int| 0 <= j < v@.len() ==> sat(p, #[trigger] v@[j], false),
    }
{ v.iter().rev().find(p) }
/// `v.iter().find(p)`: the FIRST element satisfying p
#[verifier::external_body]
pub fn slice_find<'a, T, P: FnMut(&&'a T) -> bool>(v: &'a Vec<T>, p: P) -> (r: Option<&'a T>)
    requires forall|x: &&T| p.requires((x,))
    ensures match r {
        Some(x) => exists|i: int| 0 <= i < v@.len() && *x == v@[i] && #[trigger] sat(p, v@[i], true),
        None => forall|j: int| 0 <= j < v@.len() ==> sat(p, #[trigger] v@[j], false),
    }
{ v.iter().find(p) }
/// `v.iter().filter(p).count()` (A-STD; wrapper body is the original chain): the number of elements satisfying p
pub open spec fn count_true(hit: Seq<bool>, k: int) -> int
    decreases k
{
    if k <= 0 { 0 } else { count_true(hit, k - 1) + (if hit[k - 1] { 1int } else { 0int }) }
}
pub open spec fn hits<'a, T: 'a, P: FnMut(&&'a T) -> bool>(p: P, v: Seq<T>, hit: Seq<bool>) -> bool {
    hit.len() == v.len() && forall|i: int| #![trigger v[i]] #![trigger hit[i]] 0 <= i < v.len() ==> sat(p, v[i], hit[i])
}
#[verifier::external_body]
pub fn vec_count_where<'a, T, P: FnMut(&&'a T) -> bool>(v: &'a Vec<T>, p: P) -> (r: usize)
    requires forall|x: &&T| p.requires((x,))
    ensures exists|hit: Seq<bool>| #[trigger] hits(p, v@, hit) && r == count_true(hit, hit.len() as int)
{ v.iter().filter(p).count() }
/// `v.iter().filter_map(f).collect::<Vec<_>>()` (A-STD; wrapper body is the original chain): the Some results, in order
pub open spec fn picked<'a, T: 'a, U, F: FnMut(&'a T) -> Option<U>>(f: F, x: T, o: Option<U>) -> bool { exists|r: &'a T| *r == x && f.ensures((r,), o) }
pub open spec fn picks<'a, T: 'a, U, F: FnMut(&'a T) -> Option<U>>(f: F, v: Seq<T>, sel: Seq<Option<U>>) -> bool {
    sel.len() == v.len() && forall|i: int| #![trigger v[i]] #![trigger sel[i]] 0 <= i < v.len() ==> picked(f, v[i], sel[i])
}
pub open spec fn somes<U>(sel: Seq<Option<U>>, k: int) -> Seq<U>
    decreases k
{
    if k <= 0 { Seq::empty() } else { match sel[k - 1] { Some(u) => somes(sel, k - 1).push(u), None => somes(sel, k - 1) } }
}
#[verifier::external_body]
pub fn vec_filter_map_collect<'a, T, U, F: FnMut(&'a T) -> Option<U>>(v: &'a Vec<T>, f: F) -> (r: Vec<U>)
    requires forall|x: &T| f.requires((x,))
    ensures exists|sel: Seq<Option<U>>| #[trigger] picks(f, v@, sel) && r@ == somes(sel, sel.len() as int)
{ v.iter().filter_map(f).collect() }
/// `v.iter().flatten().count()` / `.collect()` over a Vec of Vecs (A-STD): every element of every inner vector, in order
pub open spec fn flat<T>(n: Seq<Vec<T>>, k: int) -> Seq<T>
    decreases k
{
    if k <= 0 { Seq::empty() } else { flat(n, k - 1) + n[k - 1]@ }
}
#[verifier::external_body]
pub fn vec_flatten_count<T>(v: &Vec<Vec<T>>) -> (r: usize)
    ensures r == flat(v@, v@.len() as int).len()
{ v.iter().flatten().count() }
#[verifier::external_body]
pub fn vec_flatten_collect<'a, T>(v: &'a Vec<Vec<T>>) -> (r: Vec<&'a T>)
    ensures r@.len() == flat(v@, v@.len() as int).len(), forall|j: int| 0 <= j < r@.len() ==> *#[trigger] r@[j] == flat(v@, v@.len() as int)[j]
{ v.iter().flatten().collect() }
/// `v.iter().rposition(p)`: the index of the last element satisfying p
pub open spec fn sat1<T, P: FnMut(&T) -> bool>(p: P, x: T, b: bool) -> bool { exists|r: &T| *r == x && p.ensures((r,), b) }
#[verifier::external_body]
pub fn slice_rposition<T, P: FnMut(&T) -> bool>(v: &Vec<T>, p: P) -> (r: Option<usize>)
    requires forall|x: &T| p.requires((x,))
    ensures match r {
        Some(i) => i < v@.len() && sat1(p, v@[i as int], true) && forall|j: int| i < j < v@.len() ==> sat1(p, #[trigger] v@[j], false),
        None => forall|j: int| 0 <= j < v@.len() ==> sat1(p, #[trigger] v@[j], false),
    }
{ v.iter().rposition(p) }
/// `v.drain(..k);` as a statement: the first k elements are removed (A-STD; vec::Drain is outside Verus)
#[verifier::external_body]
pub fn vec_drain_front<T>(v: &mut Vec<T>, k: usize)
    requires k <= old(v)@.len()
    ensures final(v)@ == old(v)@.skip(k as int)
{ v.drain(..k); }

/// `m.retain(|k, v| p(k, v))` for a predicate that only reads the value (A-STD).  std hands the closure `&mut V`; the
/// closure text is type-checked here against `&V`, so it cannot write through it, and the wrapper adapts it
pub open spec fn keeps<K, V, P: FnMut(&K, &V) -> bool>(p: P, k: K, v: V, b: bool) -> bool {
    exists|rk: &K, rv: &V| *rk == k && *rv == v && p.ensures((rk, rv), b)
}
#[verifier::external_body]
pub fn hashmap_retain_ro<K, V, P: FnMut(&K, &V) -> bool>(m: &mut HashMap<K, V>, p: P)
    requires forall|rk: &K, rv: &V| p.requires((rk, rv))
    ensures
        forall|k: K| #[trigger] final(m)@.contains_key(k) ==> old(m)@.contains_key(k) && final(m)@[k] == old(m)@[k] && keeps(p, k, old(m)@[k], true),
        forall|k: K| #[trigger] old(m)@.contains_key(k) && !final(m)@.contains_key(k) ==> keeps(p, k, old(m)@[k], false),
{ let mut p = p; m.retain(|k, v| p(k, &*v)) }
/// `m.values().filter(f).map(g).min()` (A-STD: iterator adapters over hash_map::Values and the provided method
/// Iterator::min have no usable Verus specification; the wrapper's body is the original chain).  Existential form
/// because an exec closure's ensures is one-directional.
pub open spec fn fpass<'a, V: 'a, F: FnMut(&&'a V) -> bool>(f: F, v: V, b: bool) -> bool { exists|r: &&'a V| **r == v && f.ensures((r,), b) }
pub open spec fn gmap<'a, V: 'a, G: FnMut(&'a V) -> u64>(g: G, v: V, y: u64) -> bool { exists|r: &'a V| *r == v && g.ensures((r,), y) }
pub open spec fn min_cand<'a, V: 'a, F: FnMut(&&'a V) -> bool, G: FnMut(&'a V) -> u64>(f: F, g: G, v: V, x: u64) -> bool {
    exists|b: bool| fpass(f, v, b) && (b ==> exists|y: u64| gmap(g, v, y) && x <= y)
}
#[verifier::external_body]
pub fn values_filter_map_min<'a, K, V: 'a, F: FnMut(&&'a V) -> bool, G: FnMut(&'a V) -> u64>(m: &'a HashMap<K, V>, f: F, g: G) -> (r: Option<u64>)
    requires forall|x: &&V| f.requires((x,)), forall|x: &V| g.requires((x,))
    ensures match r {
        Some(x) => (exists|k: K| m@.contains_key(k) && fpass(f, m@[k], true) && gmap(g, m@[k], x))
            && forall|k: K| #[trigger] m@.contains_key(k) ==> min_cand(f, g, m@[k], x),
        None => forall|k: K| #[trigger] m@.contains_key(k) ==> fpass(f, m@[k], false),
    }
{ m.values().filter(f).map(g).min() }
/// `m.entry(k).or_insert_with(f)` (A-STD; wrapper body is the original expression): a mutable reference to the value
/// under k, inserted first (as f()) when k was absent; nothing else changes
#[verifier::external_body]
pub fn map_entry_or_insert_with<'a, K: Eq + std::hash::Hash, V, F: FnOnce() -> V>(m: &'a mut HashMap<K, V>, k: K, f: F) -> (r: &'a mut V)
    requires f.requires(())
    ensures
        old(m)@.contains_key(k) ==> *r == old(m)@[k],
        !old(m)@.contains_key(k) ==> f.ensures((), *r),
        final(m)@ == old(m)@.insert(k, *final(r)),
{ m.entry(k).or_insert_with(f) }
/// R13 helpers (A-STD): a snapshot of a map's keys, each key once; get_mut of a key known to be present
#[verifier::external_body]
pub fn map_keys_snapshot<K: Copy + Eq + std::hash::Hash, V>(m: &HashMap<K, V>) -> (r: Vec<K>)
    ensures
        forall|i: int| 0 <= i < r@.len() ==> m@.contains_key(#[trigger] r@[i]),
        forall|i: int, j: int| 0 <= i < j < r@.len() ==> r@[i] != r@[j],
        forall|k: K| m@.contains_key(k) ==> r@.contains(k),
{ m.keys().copied().collect() }
#[verifier::external_body]
pub fn map_get_mut_present<'a, K: Eq + std::hash::Hash, V>(m: &'a mut HashMap<K, V>, k: &K) -> (r: &'a mut V)
    requires old(m)@.contains_key(*k)
    ensures
        *r == old(m)@[*k],
        final(m)@ == old(m)@.insert(*k, *final(r)),
{ m.get_mut(k).unwrap() }

// =====================================================================
// extracted types
// =====================================================================
//@struct NodeId from=types derive=Clone,Copy,PartialEq,Eq,Hash,Structural
//@struct EdgeId from=types derive=Clone,Copy,PartialEq,Eq,Hash,Structural
impl NodeId {
//@fn NodeId::as_u64 from=types ret=r
//@ensures
        r == self.0,   //#projection
//@end
}
impl EdgeId {
//@fn EdgeId::as_u64 from=types ret=r
//@ensures
        r == self.0,   //#projection
//@end
}
//@enum IsolationLevel derive=Clone,Copy,PartialEq,Eq,Structural
//@item type TxnId
//@enum TxnStatus derive=Clone,Copy,PartialEq,Eq,Structural
//@struct Transaction
//@enum GraphError
//@item type GraphResult
//@struct EdgeVersionEntry
//@struct GraphStore keep=nodes,current_version,active_transactions,edge_version_log,edge_properties,edge_endpoints,edge_type_ids,edge_type_table,node_columns,edge_columns

// =====================================================================
// spec vocabulary: version chains and versioned reads
// =====================================================================
/// versions along a chain never decrease (oldest first)
pub open spec fn chain_sorted(c: Seq<Node>) -> bool { forall|i: int, j: int| 0 <= i <= j < c.len() ==> c[i].version <= c[j].version }
/// the versioned read: the last element of the chain stamped at or below v
pub open spec fn read_idx(c: Seq<Node>, v: u64) -> int
    decreases c.len()
{
    if c.len() == 0 { -1 } else if c.last().version <= v { c.len() - 1 } else { read_idx(c.drop_last(), v) }
}
pub open spec fn read(c: Seq<Node>, v: u64) -> Option<Node> { if read_idx(c, v) >= 0 { Some(c[read_idx(c, v)]) } else { None } }
pub proof fn lemma_read_idx(c: Seq<Node>, v: u64)
    ensures
        -1 <= read_idx(c, v) < c.len(),
        read_idx(c, v) >= 0 ==> c[read_idx(c, v)].version <= v,
        forall|j: int| read_idx(c, v) < j < c.len() ==> c[j].version > v,
    decreases c.len()
{
    if c.len() > 0 && c.last().version > v {
        lemma_read_idx(c.drop_last(), v);
        assert forall|j: int| read_idx(c, v) < j < c.len() implies c[j].version > v by {
            if j < c.len() - 1 { assert(c.drop_last()[j] == c[j]); }
        }
    }
}
/// the index characterisation is unique
pub proof fn lemma_read_idx_unique(c: Seq<Node>, v: u64, i: int)
    requires -1 <= i < c.len(), i >= 0 ==> c[i].version <= v, forall|j: int| i < j < c.len() ==> c[j].version > v
    ensures read_idx(c, v) == i
{
    lemma_read_idx(c, v);
    let r = read_idx(c, v);
    if r < i { assert(c[i].version > v); }
    if i < r { assert(c[r].version > v); }
}

/// r is what a read of chain c at version v returns: the last element stamped at or below v, or nothing
pub open spec fn is_read(c: Seq<Node>, v: u64, r: Option<Node>) -> bool {
    match r {
        Some(n) => exists|i: int| 0 <= i < c.len() && #[trigger] c[i] == n && c[i].version <= v && forall|j: int| i < j < c.len() ==> (#[trigger] c[j]).version > v,
        None => forall|j: int| 0 <= j < c.len() ==> (#[trigger] c[j]).version > v,
    }
}
pub proof fn lemma_is_read(c: Seq<Node>, v: u64, r: Option<Node>)
    requires is_read(c, v, r)
    ensures read(c, v) == r
{
    match r {
        Some(n) => {
            let i = choose|i: int| 0 <= i < c.len() && #[trigger] c[i] == n && c[i].version <= v && forall|j: int| i < j < c.len() ==> (#[trigger] c[j]).version > v;
            lemma_read_idx_unique(c, v, i);
        }
        None => { lemma_read_idx_unique(c, v, -1); }
    }
}
pub proof fn lemma_read_is_read(c: Seq<Node>, v: u64)
    ensures is_read(c, v, read(c, v))
{
    lemma_read_idx(c, v);
    if read_idx(c, v) >= 0 { assert(c[read_idx(c, v)] == read(c, v)->Some_0); }
}

/// dropping everything before the last element stamped at or below m changes no read at or above m
pub proof fn lemma_drop_prefix(c: Seq<Node>, idx: int, m: u64)
    requires chain_sorted(c), 0 <= idx < c.len(), c[idx].version <= m
    ensures
        chain_sorted(c.skip(idx)),
        forall|v: u64| v >= m ==> #[trigger] read(c.skip(idx), v) == read(c, v),
{
    let d = c.skip(idx);
    assert forall|v: u64| v >= m implies #[trigger] read(d, v) == read(c, v) by {
        lemma_read_idx(c, v);
        let r = read_idx(c, v);
        // c[idx] is stamped at or below m <= v, so the read lands at idx or later: inside the kept suffix
        if r < idx { assert(c[idx].version > v); }
        assert(d[r - idx] == c[r]);
        assert forall|j: int| r - idx < j < d.len() implies d[j].version > v by { assert(d[j] == c[j + idx]); }
        lemma_read_idx_unique(d, v, r - idx);
    }
}
/// an element stamped above v at the end of a chain is invisible to a read at v
pub proof fn lemma_read_ignores_newer_last(c: Seq<Node>, n: Node, v: u64)
    requires n.version > v
    ensures read(c.push(n), v) == read(c, v)
{
    assert(c.push(n).drop_last() =~= c);
    lemma_read_idx(c, v);
    if read_idx(c, v) >= 0 { assert(c.push(n)[read_idx(c, v)] == c[read_idx(c, v)]); }
}
/// the number of versions in the first k chains; all of them live in memory at once (A-MEM, assumed): the total fits usize
pub open spec fn total_len<T>(n: Seq<Vec<T>>, k: int) -> int
    decreases k
{
    if k <= 0 { 0 } else { total_len(n, k - 1) + n[k - 1]@.len() }
}
#[verifier::external_body]
pub proof fn axiom_total_fits<T>(n: Seq<Vec<T>>)
    ensures total_len(n, n.len() as int) <= usize::MAX
{}
pub proof fn lemma_total_mono<T>(n: Seq<Vec<T>>, a: int, b: int)
    requires 0 <= a <= b <= n.len()
    ensures total_len(n, a) <= total_len(n, b)
    decreases b - a
{
    if a < b { lemma_total_mono(n, a, b - 1); }
}

// ---- edge version logs ----
pub open spec fn log_sorted(l: Seq<EdgeVersionEntry>) -> bool { forall|i: int, j: int| 0 <= i <= j < l.len() ==> l[i].version <= l[j].version }
/// index of the last log entry stamped at or below v (-1: none)
pub open spec fn elast(l: Seq<EdgeVersionEntry>, v: u64) -> int
    decreases l.len()
{
    if l.len() == 0 { -1 } else if l.last().version <= v { l.len() - 1 } else { elast(l.drop_last(), v) }
}
pub open spec fn has_later(l: Seq<EdgeVersionEntry>, v: u64) -> bool { exists|j: int| 0 <= j < l.len() && (#[trigger] l[j]).version > v }
pub proof fn lemma_elast(l: Seq<EdgeVersionEntry>, v: u64)
    ensures
        -1 <= elast(l, v) < l.len(),
        elast(l, v) >= 0 ==> l[elast(l, v)].version <= v,
        forall|j: int| elast(l, v) < j < l.len() ==> l[j].version > v,
    decreases l.len()
{
    if l.len() > 0 && l.last().version > v {
        lemma_elast(l.drop_last(), v);
        assert forall|j: int| elast(l, v) < j < l.len() implies l[j].version > v by {
            if j < l.len() - 1 { assert(l.drop_last()[j] == l[j]); }
        }
    }
}
pub proof fn lemma_elast_unique(l: Seq<EdgeVersionEntry>, v: u64, i: int)
    requires -1 <= i < l.len(), i >= 0 ==> l[i].version <= v, forall|j: int| i < j < l.len() ==> l[j].version > v
    ensures elast(l, v) == i
{
    lemma_elast(l, v);
    let r = elast(l, v);
    if r < i { assert(l[i].version > v); }
    if i < r { assert(l[r].version > v); }
}
/// (stamp, properties) a read of an edge at version v resolves to: `log` is the edge's version log if it has one, `cur`
/// its current property map, `cv` the store's current version  (this is what get_edge_at_version computes)
pub open spec fn eprops(log: Option<Seq<EdgeVersionEntry>>, cur: PropertyMap, cv: u64, v: u64) -> (u64, PropertyMap) {
    match log {
        None => (1u64, cur),
        Some(l) => if elast(l, v) >= 0 {
            if v < cv { (l[elast(l, v)].version, l[elast(l, v)].properties) } else { (l[elast(l, v)].version, cur) }
        } else { (1u64, cur) },
    }
}
/// two logs that no read at or above m can tell apart
pub open spec fn esame(a: Seq<EdgeVersionEntry>, b: Seq<EdgeVersionEntry>, m: u64) -> bool {
    forall|v: u64| v >= m ==> (#[trigger] elast(a, v) >= 0) == (elast(b, v) >= 0)
        && (elast(a, v) >= 0 ==> a[elast(a, v)] == b[elast(b, v)]) && has_later(a, v) == has_later(b, v)
}
pub proof fn lemma_edrop_prefix(l: Seq<EdgeVersionEntry>, idx: int, m: u64)
    requires log_sorted(l), 0 <= idx < l.len(), l[idx].version <= m
    ensures log_sorted(l.skip(idx)), esame(l.skip(idx), l, m)
{
    let d = l.skip(idx);
    assert forall|v: u64| v >= m implies (#[trigger] elast(d, v) >= 0) == (elast(l, v) >= 0)
        && (elast(d, v) >= 0 ==> d[elast(d, v)] == l[elast(l, v)]) && has_later(d, v) == has_later(l, v) by {
        lemma_elast(l, v);
        let r = elast(l, v);
        if r < idx { assert(l[idx].version > v); }
        assert(d[r - idx] == l[r]);
        assert forall|j: int| r - idx < j < d.len() implies d[j].version > v by { assert(d[j] == l[j + idx]); }
        lemma_elast_unique(d, v, r - idx);
        if has_later(l, v) {
            let j = choose|j: int| 0 <= j < l.len() && (#[trigger] l[j]).version > v;
            if j < idx { assert(l[j].version <= l[idx].version); }
            assert(d[j - idx] == l[j]);
        }
        if has_later(d, v) {
            let j = choose|j: int| 0 <= j < d.len() && (#[trigger] d[j]).version > v;
            assert(d[j] == l[j + idx]);
        }
    }
}
/// an entry stamped above v at the end of a log is invisible to a read at v
pub proof fn lemma_elast_ignores_newer_last(l: Seq<EdgeVersionEntry>, x: EdgeVersionEntry, v: u64)
    requires x.version > v
    ensures elast(l.push(x), v) == elast(l, v), elast(l, v) >= 0 ==> l.push(x)[elast(l, v)] == l[elast(l, v)]
{
    assert(l.push(x).drop_last() =~= l);
    lemma_elast(l, v);
}
pub proof fn lemma_esame_refl(a: Seq<EdgeVersionEntry>, m: u64) ensures esame(a, a, m) {}

/// the same for the version logs of a map, summed along a duplicate-free listing of its keys (A-MEM)
pub open spec fn log_total(m: Map<EdgeId, Vec<EdgeVersionEntry>>, ks: Seq<EdgeId>, k: int) -> int
    decreases k
{
    if k <= 0 { 0 } else { log_total(m, ks, k - 1) + m[ks[k - 1]]@.len() }
}
#[verifier::external_body]
pub proof fn axiom_log_total_fits(m: Map<EdgeId, Vec<EdgeVersionEntry>>, ks: Seq<EdgeId>)
    requires forall|i: int| 0 <= i < ks.len() ==> m.contains_key(#[trigger] ks[i]), forall|i: int, j: int| 0 <= i < j < ks.len() ==> ks[i] != ks[j]
    ensures log_total(m, ks, ks.len() as int) <= usize::MAX
{}
pub proof fn lemma_log_total_mono(m: Map<EdgeId, Vec<EdgeVersionEntry>>, ks: Seq<EdgeId>, a: int, b: int)
    requires 0 <= a <= b <= ks.len()
    ensures log_total(m, ks, a) <= log_total(m, ks, b)
    decreases b - a
{
    if a < b { lemma_log_total_mono(m, ks, a, b - 1); }
}

/// the number of nodes among the first k ids: one per non-empty version chain
pub open spec fn live(n: Seq<Vec<Node>>, k: int) -> int
    decreases k
{
    if k <= 0 { 0 } else { live(n, k - 1) + (if n[k - 1]@.len() > 0 { 1int } else { 0int }) }
}
/// the newest version of each node among the first k ids, in id order
pub open spec fn latest(n: Seq<Vec<Node>>, k: int) -> Seq<Node>
    decreases k
{
    if k <= 0 { Seq::empty() } else if n[k - 1]@.len() > 0 { latest(n, k - 1).push(n[k - 1]@.last()) } else { latest(n, k - 1) }
}
pub broadcast proof fn lemma_count_is_live(n: Seq<Vec<Node>>, hit: Seq<bool>, k: int)
    requires 0 <= k <= n.len(), hit.len() == n.len(), forall|i: int| 0 <= i < n.len() ==> hit[i] == (n[i]@.len() > 0)
    ensures #[trigger] count_true(hit, k) == #[trigger] live(n, k)
    decreases k
{
    if k > 0 { lemma_count_is_live(n, hit, k - 1); }
}
pub broadcast proof fn lemma_somes_is_latest(n: Seq<Vec<Node>>, sel: Seq<Option<&Node>>, k: int)
    requires
        0 <= k <= n.len(), sel.len() == n.len(),
        forall|i: int| 0 <= i < n.len() ==> (match #[trigger] sel[i] { Some(x) => n[i]@.len() > 0 && *x == n[i]@.last(), None => n[i]@.len() == 0 }),
    ensures (#[trigger] somes(sel, k)).len() == (#[trigger] latest(n, k)).len(), forall|j: int| 0 <= j < somes(sel, k).len() ==> *somes(sel, k)[j] == latest(n, k)[j]
    decreases k
{
    if k > 0 {
        lemma_somes_is_latest(n, sel, k - 1);
        let _ = sel[k - 1];
    }
}

impl GraphStore {
    pub open spec fn chain(&self, id: int) -> Seq<Node> { if 0 <= id < self.nodes@.len() { self.nodes@[id]@ } else { Seq::empty() } }
    pub open spec fn chains_sorted(&self) -> bool { forall|id: int| 0 <= id < self.nodes@.len() ==> chain_sorted(#[trigger] self.nodes@[id]@) }

//@fn GraphStore::get_node_at_version ret=r
//@ensures
        is_read(self.chain(id.0 as int), version, match r { Some(n) => Some(*n), None => None }),   //#reads_latest_at_or_below
//@replace "versions.iter()<NL>            .rev()<NL>            .find(" => "slice_rfind(versions, " :: Iterator::find on Rev<slice::Iter> is a provided trait method without a Verus specification; the wrapper's body is the original expression
//@closure slice_rfind#1 (n: &&Node) -> (b: bool) ensures b == (@BODY)
//@end

//@fn GraphStore::get_node ret=r props=C07
//@ensures
        is_read(self.chain(id.0 as int), self.current_version, match r { Some(n) => Some(*n), None => None }),   //#reads_at_current_version
//@end

//@fn GraphStore::gc_watermark ret=r props=C08
//@requires
        forall|t: TxnId| #[trigger] self.active_transactions@.contains_key(t) ==> self.active_transactions@[t].start_version <= self.current_version,
//@ensures
        r <= self.current_version,                                                                    //#at_most_current
        forall|t: TxnId| #[trigger] self.active_transactions@.contains_key(t) && self.active_transactions@[t].status == TxnStatus::Active
            ==> r <= self.active_transactions@[t].start_version,                                      //#at_most_every_active_start
//@replace "self.active_transactions.values()<NL>            .filter(" => "values_filter_map_min(&self.active_transactions, " :: iterator chain without Verus specification: routed through a wrapper whose body is the same chain
//@replace ")<NL>            .map(" => ", " :: (same chain)
//@replace ")<NL>            .min()" => ")" :: (same chain)
//@closure values_filter_map_min#1 (txn: &&Transaction) -> (b: bool) ensures b == (@BODY)
//@closure values_filter_map_min#2 (txn: &Transaction) -> (y: u64) ensures y == (@BODY)
//@end

    /// no read at or above m can tell the version logs of the two maps apart (a missing log and an empty one read alike)
    pub open spec fn elogs_same(a: Map<EdgeId, Vec<EdgeVersionEntry>>, b: Map<EdgeId, Vec<EdgeVersionEntry>>, m: u64) -> bool {
        forall|e: EdgeId| #![trigger a.contains_key(e)] #![trigger b.contains_key(e)]
            (a.contains_key(e) && b.contains_key(e) ==> esame(b[e]@, a[e]@, m))
            && (a.contains_key(e) && !b.contains_key(e) ==> a[e]@.len() == 0)
            && (!a.contains_key(e) ==> !b.contains_key(e))
    }
    pub open spec fn elogs_sorted(a: Map<EdgeId, Vec<EdgeVersionEntry>>) -> bool {
        forall|e: EdgeId| #[trigger] a.contains_key(e) ==> log_sorted(a[e]@)
    }
    /// the edge's type as get_edge_type resolves it
    pub open spec fn type_of(&self, e: EdgeId) -> Option<EdgeType> {
        if (e.0 as int) < self.edge_type_ids@.len() && self.edge_type_ids@[e.0 as int] != 0xFFFFu16
            && (self.edge_type_ids@[e.0 as int] as int) < self.edge_type_table@.len() {
            Some(self.edge_type_table@[self.edge_type_ids@[e.0 as int] as int])
        } else { None }
    }
    pub open spec fn elog(&self, e: EdgeId) -> Option<Seq<EdgeVersionEntry>> {
        if self.edge_version_log@.contains_key(e) { Some(self.edge_version_log@[e]@) } else { None }
    }

    /// the edge's current property map as a read sees it
    pub open spec fn cur_props(&self, e: EdgeId) -> PropertyMap {
        if self.edge_properties@.contains_key(e) { self.edge_properties@[e] } else { default_props() }
    }

//@item const EDGE_TYPE_UNSET
//@fn GraphStore::get_edge_type ret=r props=C07,C08
//@ensures
        r == self.type_of(edge_id),   //#named_by_type_of
//@end

//@fn GraphStore::get_edge_at_version ret=r props=C07,C08
//@requires
        // log entries are stamped at or below the current version (set_edge_property stamps with current_version)
        self.edge_version_log@.contains_key(id) ==> forall|k: int| 0 <= k < self.edge_version_log@[id]@.len() ==> (#[trigger] self.edge_version_log@[id]@[k]).version <= self.current_version,
//@ensures
        r matches Some(e) ==> (e.version, e.properties) == eprops(self.elog(id), self.cur_props(id), self.current_version, version)
            && e.version <= version && e.id == id,                                                    //#resolves_as_specified
        r is None ==> (id.0 as int >= self.edge_endpoints@.len()
            || (self.edge_endpoints@[id.0 as int].0.0 == 0 && self.edge_endpoints@[id.0 as int].1.0 == 0)
            || eprops(self.elog(id), self.cur_props(id), self.current_version, version).0 > version
            || self.type_of(id) is None),                                                             //#none_only_when_absent
//@replace "versions.iter().rev().find(" => "slice_rfind(versions, " :: provided trait method Iterator::find; wrapper body is the original expression
//@replace "versions.iter()<NL>                    .find(" => "slice_find(versions, " :: as above
//@closure slice_rfind#1 (v: &&EdgeVersionEntry) -> (b: bool) ensures b == (@BODY)
//@closure slice_find#1 (v: &&EdgeVersionEntry) -> (b: bool) ensures b == (@BODY)
//@atstart
        proof { axiom_edgeid_key_model(); }
//@before "if edge_version > version {"
        proof {
            if self.edge_version_log@.contains_key(id) {
                let ls = self.edge_version_log@[id]@;
                lemma_elast(ls, version);
                assert forall|i: int| (0 <= i < ls.len() && ls[i].version <= version && (forall|j: int| i < j < ls.len() ==> (#[trigger] ls[j]).version > version))
                    implies elast(ls, version) == i by { lemma_elast_unique(ls, version, i); }
            }
        }
//@end

//@fn GraphStore::node_count ret=r props=C07
//@ensures
        r == live(self.nodes@, self.nodes@.len() as int),                          //#one_per_node_whatever_its_versions
//@replace? "self.nodes.iter().flatten().count()" => "vec_flatten_count(&self.nodes)" :: (only present in older versions of the function) iterator chain routed through a wrapper whose body is the same chain
//@replace "self.nodes.iter().filter(" => "vec_count_where(&self.nodes, " :: iterator chain routed through a wrapper whose body is the same chain
//@replace ").count()" => ")" :: (same chain)
//@closure vec_count_where#1 (versions: &&Vec<Node>) -> (b: bool) ensures b == (versions@.len() > 0)
//@atstart
        broadcast use lemma_count_is_live;
//@end

//@fn GraphStore::all_nodes ret=r props=C07
//@ensures
        r@.len() == latest(self.nodes@, self.nodes@.len() as int).len(),           //#one_per_node
        forall|j: int| 0 <= j < r@.len() ==> *#[trigger] r@[j] == latest(self.nodes@, self.nodes@.len() as int)[j],     //#newest_version_of_each
//@replace? "self.nodes.iter().flatten().collect()" => "vec_flatten_collect(&self.nodes)" :: (only present in older versions of the function) iterator chain routed through a wrapper whose body is the same chain
//@replace "self.nodes.iter().filter_map(" => "vec_filter_map_collect(&self.nodes, " :: iterator chain routed through a wrapper whose body is the same chain
//@replace ").collect()" => ")" :: (same chain)
//@closure vec_filter_map_collect#1 (versions: &Vec<Node>) -> (o: Option<&Node>) ensures (match o { Some(x) => versions@.len() > 0 && *x == versions@.last(), None => versions@.len() == 0 })
//@atstart
        broadcast use lemma_somes_is_latest;
//@end

    /// GraphStore::get_node_mut -- `self.nodes.get_mut(i).and_then(|v| v.last_mut())` -- ASSUMED (not called by the
    /// functions under contract today; kept so that code which goes back to mutating through it stays decidable): a mutable
    /// reference to the NEWEST version of the chain; nothing else changes.  (vstd has no final-value spec for slice::get_mut.)
    #[verifier::external_body]
    pub fn get_node_mut(&mut self, id: NodeId) -> (r: Option<&mut Node>)
        ensures
            final(self).nodes@.len() == old(self).nodes@.len() && final(self).current_version == old(self).current_version,
            forall|k: int| 0 <= k < old(self).nodes@.len() && k != id.0 as int ==> final(self).nodes@[k]@ == old(self).nodes@[k]@,
            match r {
                Some(n) => (id.0 as int) < old(self).nodes@.len() && old(self).nodes@[id.0 as int]@.len() > 0
                    && *n == old(self).nodes@[id.0 as int]@.last()
                    && final(self).nodes@[id.0 as int]@ == old(self).nodes@[id.0 as int]@.drop_last().push(*final(n)),
                None => final(self).nodes@ == old(self).nodes@,
            },
    { unimplemented!() }

    /// statistics cache: not part of the projected state
    #[verifier::external_body]
    pub fn invalidate_statistics_cache(&self) { unimplemented!() }

    /// versions are stamped at or below the current version, oldest first
    pub open spec fn stamped(&self) -> bool {
        self.chains_sorted() && forall|id: int, k: int| 0 <= id < self.nodes@.len() && 0 <= k < self.nodes@[id]@.len() ==> (#[trigger] self.nodes@[id]@[k]).version <= self.current_version
    }

//@fn GraphStore::remove_node_property props=C07
//@requires
        old(self).stamped(),
//@ensures
        forall|id: int, v: u64| 0 <= id < old(self).nodes@.len() && v < old(self).current_version
            ==> #[trigger] read(final(self).nodes@[id]@, v) == read(old(self).nodes@[id]@, v),          //#reads_below_current_version_unchanged
        final(self).nodes@.len() == old(self).nodes@.len(),                                           //#same_nodes
        final(self).stamped(),                                                                        //#stamps_stay_sorted_and_current
//@before "if stale {"
            let ghost c0 = versions@;
//@before "if let Some(node) = versions.last_mut() {"
            let ghost c_mid = versions@;
//@before "self.invalidate_statistics_cache();"
        proof {
            if idx < old(self).nodes@.len() {
                let c0 = old(self).nodes@[idx as int]@;
                let c1 = self.nodes@[idx as int]@;
                let cv = old(self).current_version;
                if c0.len() > 0 {
                    // the chain now ends in a version stamped cv; everything before it is the old chain (minus, if it was
                    // already stamped cv, its last element)
                    assert forall|v: u64| v < cv implies read(c1, v) == read(c0, v) by {
                        if c1.len() == c0.len() + 1 {
                            assert(c1 =~= c0.push(c1.last()));
                            lemma_read_ignores_newer_last(c0, c1.last(), v);
                        } else {
                            assert(c1 =~= c0.drop_last().push(c1.last()));
                            assert(c0 =~= c0.drop_last().push(c0.last()));
                            lemma_read_ignores_newer_last(c0.drop_last(), c1.last(), v);
                            lemma_read_ignores_newer_last(c0.drop_last(), c0.last(), v);
                        }
                    }
                }
            }
        }
//@end


    /// every log entry is stamped at or below the current version, oldest first
    pub open spec fn elogs_stamped(&self) -> bool {
        Self::elogs_sorted(self.edge_version_log@)
        && forall|e: EdgeId, k: int| #![trigger self.edge_version_log@[e]@[k]] self.edge_version_log@.contains_key(e) && 0 <= k < self.edge_version_log@[e]@.len()
            ==> self.edge_version_log@[e]@[k].version <= self.current_version
    }
    /// nothing but the edge property stores changed
    pub open spec fn same_but_edge_props(&self, o: &GraphStore) -> bool {
        self.nodes@ == o.nodes@ && self.current_version == o.current_version && self.active_transactions@ == o.active_transactions@
            && self.edge_endpoints@ == o.edge_endpoints@ && self.edge_type_ids@ == o.edge_type_ids@ && self.edge_type_table@ == o.edge_type_table@
    }

//@fn GraphStore::set_edge_property_sparse props=C07
//@ensures
        final(self).same_but_edge_props(old(self)) && final(self).edge_version_log@ == old(self).edge_version_log@,      //#frame
        forall|e2: EdgeId| e2 != edge_id ==> final(self).edge_properties@.contains_key(e2) == old(self).edge_properties@.contains_key(e2)
            && (old(self).edge_properties@.contains_key(e2) ==> #[trigger] final(self).edge_properties@[e2] == old(self).edge_properties@[e2]),   //#only_this_edge_s_properties_change
//@atstart
        proof { axiom_edgeid_key_model(); }
//@replace "self.edge_properties.entry(edge_id).or_insert_with(" => "map_entry_or_insert_with(&mut self.edge_properties, edge_id, " :: hash_map::Entry::or_insert_with has no Verus specification; wrapper body is the original expression
//@end

//@fn GraphStore::set_edge_property ret=r props=C07
//@atend
        proof {
            let cv = old(self).current_version;
            if old(self).edge_version_log@.contains_key(edge_id) {
                let l0 = old(self).edge_version_log@[edge_id]@;
                let l1 = self.edge_version_log@[edge_id]@;
                assert forall|v: u64| v < cv implies elast(l1, v) == elast(l0, v) && (elast(l0, v) >= 0 ==> l1[elast(l0, v)] == l0[elast(l0, v)]) by {
                    if l0.len() > 0 && l0.last().version == cv {
                        assert(l1 =~= l0.drop_last().push(l1.last()));
                        assert(l0 =~= l0.drop_last().push(l0.last()));
                        lemma_elast_ignores_newer_last(l0.drop_last(), l1.last(), v);
                        lemma_elast_ignores_newer_last(l0.drop_last(), l0.last(), v);
                    } else {
                        assert(l1 =~= l0.push(l1.last()));
                        lemma_elast_ignores_newer_last(l0, l1.last(), v);
                    }
                }
            }
            assert forall|e2: EdgeId| e2 != edge_id implies #[trigger] self.elog(e2) == old(self).elog(e2) && self.cur_props(e2) == old(self).cur_props(e2) by {
                let _ = self.edge_properties@[e2];
            }
        }
//@requires
        old(self).elogs_stamped(),
//@ensures
        final(self).same_but_edge_props(old(self)),                                                                     //#frame
        forall|e2: EdgeId| e2 != edge_id ==> #[trigger] final(self).elog(e2) == old(self).elog(e2) && final(self).cur_props(e2) == old(self).cur_props(e2),   //#other_edges_untouched
        final(self).elogs_stamped(),                                                                                    //#logs_stay_sorted_and_stamped
        forall|v: u64| v < old(self).current_version ==>
            #[trigger] eprops(final(self).elog(edge_id), final(self).cur_props(edge_id), old(self).current_version, v)
                == eprops(old(self).elog(edge_id), old(self).cur_props(edge_id), old(self).current_version, v),        //#reads_below_current_version_unchanged
        forall|v: u64| v < old(self).current_version && (old(self).elog(edge_id) matches Some(l) && elast(l, v) >= 0) ==>
            #[trigger] eprops(final(self).elog(edge_id), final(self).cur_props(edge_id), old(self).current_version, v)
                == eprops(old(self).elog(edge_id), old(self).cur_props(edge_id), old(self).current_version, v),        //#reads_resolved_by_a_log_entry_unchanged
//@atstart
        proof { axiom_edgeid_key_model(); }
//@replace "self.edge_version_log.entry(edge_id).or_insert_with(" => "map_entry_or_insert_with(&mut self.edge_version_log, edge_id, " :: as above
//@end

    /// transactions that are running: GC must not touch them
    pub open spec fn active_kept(a: Map<TxnId, Transaction>, b: Map<TxnId, Transaction>) -> bool {
        forall|t: TxnId| #[trigger] a.contains_key(t) && a[t].status == TxnStatus::Active ==> b.contains_key(t) && b[t] == a[t]
    }

//@fn GraphStore::gc_versions ret=r props=C08 rules=-R2
//@requires
        old(self).chains_sorted(),
        Self::elogs_sorted(old(self).edge_version_log@),
//@ensures
        Self::elogs_same(old(self).edge_version_log@, final(self).edge_version_log@, min_version),                   //#edge_reads_at_or_above_watermark_unchanged
        Self::elogs_sorted(final(self).edge_version_log@),                                                           //#edge_logs_stay_sorted
        final(self).edge_properties@ == old(self).edge_properties@ && final(self).edge_endpoints@ == old(self).edge_endpoints@
            && final(self).edge_type_ids@ == old(self).edge_type_ids@ && final(self).edge_type_table@ == old(self).edge_type_table@,   //#edge_store_frame
        final(self).nodes@.len() == old(self).nodes@.len(),                                                           //#same_nodes
        forall|id: int, v: u64| 0 <= id < old(self).nodes@.len() && v >= min_version
            ==> #[trigger] read(final(self).nodes@[id]@, v) == read(old(self).nodes@[id]@, v),                     //#reads_at_or_above_watermark_unchanged
        final(self).chains_sorted(),                                                                                  //#chains_stay_sorted
        final(self).current_version == old(self).current_version,                                                    //#version_frame
        Self::active_kept(old(self).active_transactions@, final(self).active_transactions@),                          //#active_transactions_kept
//@replace "versions.iter().rposition(" => "slice_rposition(versions, " :: Iterator::rposition is a provided trait method; wrapper body is the original expression
//@replace "log.iter().rposition(" => "slice_rposition(log, " :: as above
//@replace "versions.drain(..idx);" => "vec_drain_front(versions, idx);" :: vec::Drain is outside Verus; the statement drops the Drain at once: the first idx elements are removed
//@replace "log.drain(..idx);" => "vec_drain_front(log, idx);" :: as above
//@replace "let mut empty_logs = Vec::new();" => "let mut empty_logs: Vec<EdgeId> = Vec::new();" :: type annotation only (the loop invariant mentions the vector before its first push fixes the element type)
//@replace "self.active_transactions.retain(" => "hashmap_retain_ro(&mut self.active_transactions, " :: HashMap::retain hands the closure &mut V; the predicate only reads: adapter wrapper (see prelude)
//@closure slice_rposition#1 (n: &Node) -> (b: bool) ensures b == (@BODY)
//@closure slice_rposition#2 (e: &EdgeVersionEntry) -> (b: bool) ensures b == (@BODY)
//@closure hashmap_retain_ro#1 (_k: &TxnId, txn: &Transaction) -> (b: bool) ensures b == (@BODY)
//@atstart
        let ghost n0 = self.nodes@;
        proof { axiom_edgeid_key_model(); }
//@loop 1 index=ci
            invariant
                ci <= self.nodes@.len(),
                self.nodes@.len() == n0.len(),
                self.current_version == old(self).current_version,
                self.active_transactions@ == old(self).active_transactions@,
                forall|k: int| ci <= k < n0.len() ==> self.nodes@[k]@ == n0[k]@,                                  //#untouched_ahead
                forall|k: int| 0 <= k < n0.len() ==> chain_sorted(#[trigger] self.nodes@[k]@),                     //#sorted
                forall|k: int, v: u64| 0 <= k < ci && v >= min_version ==> #[trigger] read(self.nodes@[k]@, v) == read(n0[k]@, v),   //#reads_kept_behind
                nodes_pruned <= total_len(n0, ci as int),                                                          //#pruned_count_bounded
            decreases self.nodes@.len() - ci
//@before "if versions.len() <= 1 {"
            let ghost c0 = versions@;
            proof {
                axiom_total_fits(n0);
                lemma_total_mono(n0, ci as int, n0.len() as int);
                assert(c0 == n0[ci - 1]@);
            }
//@before "nodes_pruned += idx;"
                    proof { lemma_drop_prefix(c0, idx as int, min_version); }
//@loop 2 keys=eks
            invariant
                eks_i <= eks@.len(),
                self.nodes@ == n1,
                self.current_version == old(self).current_version,
                self.active_transactions@ == old(self).active_transactions@,
                forall|i: int| 0 <= i < eks@.len() ==> m0.contains_key(#[trigger] eks@[i]),
                forall|i: int, j: int| 0 <= i < j < eks@.len() ==> eks@[i] != eks@[j],
                forall|i: int| eks_i <= i < eks@.len() ==> self.edge_version_log@.contains_key(#[trigger] eks@[i])
                    && self.edge_version_log@[eks@[i]] == m0[eks@[i]],                                           //#unvisited_logs_untouched
                edges_pruned <= log_total(m0, eks@, eks_i as int),                                               //#pruned_count_bounded
                self.edge_version_log@.dom() == m0.dom(),                                                        //#same_logs
                forall|i: int| 0 <= i < eks_i ==> esame(self.edge_version_log@[#[trigger] eks@[i]]@, m0[eks@[i]]@, min_version)
                    && log_sorted(self.edge_version_log@[eks@[i]]@),                                             //#visited_logs_read_alike
                Self::elogs_sorted(m0),
                forall|k: EdgeId| m0.contains_key(k) ==> eks@.contains(k),
                empty_logs@.len() == 0,                                                                          //#no_log_becomes_empty
                self.edge_properties@ == old(self).edge_properties@ && self.edge_endpoints@ == old(self).edge_endpoints@
                    && self.edge_type_ids@ == old(self).edge_type_ids@ && self.edge_type_table@ == old(self).edge_type_table@,
            decreases eks@.len() - eks_i
//@beforeloop 3
        let ghost m1 = self.edge_version_log@;
        proof {
            assert forall|e: EdgeId| m0.contains_key(e) implies esame(m1[e]@, m0[e]@, min_version) && log_sorted(m1[e]@) by {
                assert(eks@.contains(e));
                let i = choose|i: int| 0 <= i < eks@.len() && eks@[i] == e;
                assert(esame(self.edge_version_log@[eks@[i]]@, m0[eks@[i]]@, min_version));
            }
        }
//@before "let mut empty_logs: Vec<EdgeId> = Vec::new();"
        let ghost n1 = self.nodes@;
        let ghost m0 = self.edge_version_log@;
//@before "if log.len() <= 1 {"
            let ghost l0 = log@;
            proof {
                axiom_log_total_fits(m0, eks@);
                lemma_log_total_mono(m0, eks@, eks_i as int, eks@.len() as int);
                lemma_esame_refl(l0, min_version);
                assert(l0 == m0[edge_id]@);
            }
//@before "edges_pruned += idx;"
                    proof { lemma_edrop_prefix(l0, idx as int, min_version); }
//@loop 3 iter=it3
            invariant
                it3.seq().len() == 0,
                self.edge_version_log@ == m1,
                self.edge_properties@ == old(self).edge_properties@ && self.edge_endpoints@ == old(self).edge_endpoints@
                    && self.edge_type_ids@ == old(self).edge_type_ids@ && self.edge_type_table@ == old(self).edge_type_table@,
                self.nodes@ == n1,
                self.current_version == old(self).current_version,
                self.active_transactions@ == old(self).active_transactions@,
//@end

//@fn GraphStore::gc_auto ret=r props=C08
//@requires
        old(self).chains_sorted(),
        Self::elogs_sorted(old(self).edge_version_log@),
        forall|t: TxnId| #[trigger] old(self).active_transactions@.contains_key(t) ==> old(self).active_transactions@[t].start_version <= old(self).current_version,
//@ensures
        Self::active_kept(old(self).active_transactions@, final(self).active_transactions@),                          //#active_transactions_kept
        final(self).current_version == old(self).current_version && final(self).nodes@.len() == old(self).nodes@.len(),   //#frame
        forall|t: TxnId, id: int| #![trigger old(self).active_transactions@[t], final(self).nodes@[id]]
            old(self).active_transactions@.contains_key(t) && old(self).active_transactions@[t].status == TxnStatus::Active
            && 0 <= id < old(self).nodes@.len()
            ==> read(final(self).nodes@[id]@, old(self).active_transactions@[t].start_version) == read(old(self).nodes@[id]@, old(self).active_transactions@[t].start_version)
             && read(final(self).nodes@[id]@, old(self).current_version) == read(old(self).nodes@[id]@, old(self).current_version),   //#no_active_transaction_sees_a_change
        final(self).chains_sorted(),                                                                                  //#chains_stay_sorted
        forall|t: TxnId| #[trigger] old(self).active_transactions@.contains_key(t) && old(self).active_transactions@[t].status == TxnStatus::Active
            ==> Self::elogs_same(old(self).edge_version_log@, final(self).edge_version_log@, old(self).active_transactions@[t].start_version),   //#no_active_transaction_sees_an_edge_change
        Self::elogs_sorted(final(self).edge_version_log@),                                                           //#edge_logs_stay_sorted
//@end
}

pub open spec fn elog_of(m: Map<EdgeId, Vec<EdgeVersionEntry>>, e: EdgeId) -> Option<Seq<EdgeVersionEntry>> {
    if m.contains_key(e) { Some(m[e]@) } else { None }
}
/// C08, relationships: what get_edge_at_version resolves at any version at or above the watermark is the same before
/// and after collection (whatever the edge's current properties and the store's current version are)
pub proof fn theorem_edge_reads_survive_gc(a: Map<EdgeId, Vec<EdgeVersionEntry>>, b: Map<EdgeId, Vec<EdgeVersionEntry>>, e: EdgeId,
                                           cur: PropertyMap, cv: u64, v: u64, m: u64)
    requires GraphStore::elogs_same(a, b, m), v >= m
    ensures eprops(elog_of(b, e), cur, cv, v) == eprops(elog_of(a, e), cur, cv, v)
{
    if a.contains_key(e) && b.contains_key(e) {
        assert(esame(b[e]@, a[e]@, m));
        assert((elast(b[e]@, v) >= 0) == (elast(a[e]@, v) >= 0));
    } else if a.contains_key(e) {
        assert(a[e]@.len() == 0);
    } else {
        assert(!b.contains_key(e));
    }
}
}
fn main(){}
