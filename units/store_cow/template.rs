//@unit store_cow
//@properties C07
//@source store src/graph/store.rs
//@source types src/graph/types.rs
//@rules D2 R2 R20
#![feature(allocator_api)]
#![allow(unused_imports, unused_variables, unused_mut, dead_code)]
use vstd::prelude::*;
use std::collections::{HashMap, HashSet};
verus!{
global size_of usize == 8;
//@include common/std_extra.rs
//@include common/hashmap_get_mut.rs
// =====================================================================
// prelude: stand-ins (D3/D4) for everything set_node_property touches besides the version chains
// =====================================================================
#[verifier::external_body] #[derive(PartialEq, Eq, Hash)] pub struct Label { s: String }
impl Label { #[verifier::external_body] pub fn as_str(&self) -> &str { unimplemented!() } }
impl Clone for Label { #[verifier::external_body] fn clone(&self) -> Self { unimplemented!() } }
#[verifier::external_body] #[derive(Debug)] pub struct PropertyValue { x: u8 }
impl PropertyValue { #[verifier::external_body] pub fn is_null(&self) -> bool { unimplemented!() } }
impl Clone for PropertyValue { #[verifier::external_body] fn clone(&self) -> Self { unimplemented!() } }
#[verifier::external_body] pub struct LabelSet { x: u8 }
impl LabelSet { #[verifier::external_body] pub fn iter(&self) -> LabelIter { unimplemented!() }
  /// stands for `&set` as an iterable: the labels, each once (D4)
  #[verifier::external_body] pub fn as_vec(&self) -> &Vec<Label> { unimplemented!() } }
#[verifier::external_body] pub struct LabelIter { x: u8 }
impl LabelIter { #[verifier::external_body] pub fn cloned(self) -> LabelIter { unimplemented!() }
  #[verifier::external_body] pub fn collect(self) -> Vec<Label> { unimplemented!() } }
pub enum IndexEvent { NodeDeleted { tenant_id: String, id: NodeId, labels: Vec<Label>, properties: PropertyMap }, PropertySet { tenant_id: String, id: NodeId, labels: Vec<Label>, key: String, old_value: Option<PropertyValue>, new_value: PropertyValue } }
#[verifier::external_body] #[verifier::reject_recursive_types(T)] pub struct UnboundedSender<T> { x: u8, t: core::marker::PhantomData<T> }
pub mod graph { pub mod event { pub use super::super::IndexEvent; } }
impl<T> UnboundedSender<T> { #[verifier::external_body] pub fn send(&self, e: T) -> Result<(), ()> { unimplemented!() } }
pub struct Node { pub version: u64, pub updated_at: i64, pub labels: LabelSet, pub properties: PropertyMap, pub data: NodeData }
#[verifier::external_body] pub struct PropertyMap { m: u8 }
impl Clone for PropertyMap { #[verifier::external_body] fn clone(&self) -> (r: Self) ensures r == *self { unimplemented!() } }
/// read-only map methods code may call on a property map: contract-free
impl PropertyMap {
    #[verifier::external_body] pub fn is_empty(&self) -> bool { unimplemented!() }
    #[verifier::external_body] pub fn len(&self) -> usize { unimplemented!() }
    #[verifier::external_body] pub fn contains_key(&self, k: &str) -> bool { unimplemented!() }
}
#[verifier::external_body] pub struct NodeData { d: u8 }
impl Clone for Node { #[verifier::external_body] fn clone(&self) -> (r: Self) ensures r == *self { unimplemented!() } }
impl Node {
    #[verifier::external_body] pub fn set_property(&mut self, k: String, v: PropertyValue) -> (r: Option<PropertyValue>) ensures final(self).version == old(self).version { unimplemented!() }
    #[verifier::external_body] pub fn remove_property(&mut self, k: &str) ensures final(self).version == old(self).version { unimplemented!() }
}
#[verifier::external_body] pub fn now_millis() -> i64 { unimplemented!() }
#[verifier::external_body] pub struct IndexManager { x: u8 }
impl IndexManager {
    #[verifier::external_body] pub fn has_any_unique_constraints(&self) -> bool { unimplemented!() }
    #[verifier::external_body] pub fn has_unique_constraint(&self, l: &Label, k: &str) -> bool { unimplemented!() }
    #[verifier::external_body] pub fn unique_constraint_holder(&self, l: &Label, k: &str, v: &PropertyValue) -> Option<NodeId> { unimplemented!() }
    #[verifier::external_body] pub fn constraint_insert(&self, l: &Label, k: &str, v: PropertyValue, n: NodeId) { unimplemented!() }
}
#[verifier::external_body] pub struct ColumnStore { x: u8 }
#[verifier::external_body] pub struct GraphCatalog { c: u8 }
impl GraphCatalog { #[verifier::external_body] pub fn on_label_removed(&mut self, l: &Label) { unimplemented!() } }
#[verifier::external_body] pub struct TenantManager { t: u8 }
pub type Entry = (NodeId, EdgeId);
#[verifier::external_body] pub struct FrozenAdjacencyStore { f: u8 }
impl FrozenAdjacencyStore { #[verifier::external_body] pub fn neighbors_collected(&self, node_idx: usize) -> Vec<Entry> { unimplemented!() } }
#[verifier::external_body]
pub proof fn axiom_key_models()
    ensures vstd::std_specs::hash::obeys_key_model::<Label>(), vstd::std_specs::hash::obeys_key_model::<NodeId>()
{}
/// `ids.extend(std::mem::take(buffer).into_iter().map(|(_, eid)| eid));` (A-STD; wrapper body is the original statement):
/// the buffer is emptied, its edge ids are appended
#[verifier::external_body]
pub fn extend_with_taken_ids(ids: &mut Vec<EdgeId>, buffer: &mut Vec<Entry>)
    ensures final(buffer)@.len() == 0
{ ids.extend(std::mem::take(buffer).into_iter().map(|(_, eid)| eid)); }
/// `a.iter().chain(b.iter())` materialised (A-STD): a's elements then b's
#[verifier::external_body]
pub fn chained_ids(a: &Vec<EdgeId>, b: &Vec<EdgeId>) -> (r: Vec<EdgeId>)
    ensures r@ == a@ + b@
{ a.iter().chain(b.iter()).copied().collect() }
impl ColumnStore {
    #[verifier::external_body] pub fn clear_row(&mut self, idx: usize) { unimplemented!() }
    #[verifier::external_body] pub fn set_property(&mut self, idx: usize, key: &str, value: PropertyValue) { unimplemented!() }
    #[verifier::external_body] pub fn remove_property(&mut self, idx: usize, key: &str) { unimplemented!() }
}

/// `v.get_mut(i)` on a Vec (A-STD; vstd has no final-value specification for slice::get_mut; wrapper body is the original expression)
#[verifier::external_body]
pub fn vec_get_mut<T>(v: &mut Vec<T>, i: usize) -> (r: Option<&mut T>)
    ensures match r {
        Some(x) => (i as int) < old(v)@.len() && *x == old(v)@[i as int] && final(v)@ == old(v)@.update(i as int, *final(x)),
        None => (i as int) >= old(v)@.len() && final(v)@ == old(v)@,
    }
{ v.get_mut(i) }
//@struct NodeId from=types derive=Clone,Copy,PartialEq,Eq,Hash,Structural
impl NodeId {
//@fn NodeId::as_u64 from=types ret=r
//@ensures
        r == self.0,   //#projection
//@end
}
impl std::fmt::Display for NodeId { #[verifier::external_body] fn fmt(&self, f: &mut std::fmt::Formatter<'_>) -> std::fmt::Result { unimplemented!() } }
impl vstd::std_specs::fmt::DisplaySpecImpl for NodeId { open spec fn fmt_req(&self, f: &std::fmt::Formatter<'_>) -> bool { true } }
impl vstd::std_specs::fmt::DebugSpecImpl for PropertyValue { open spec fn fmt_req(&self, f: &std::fmt::Formatter<'_>) -> bool { true } }
//@struct EdgeId from=types derive=Clone,Copy,PartialEq,Eq,Hash,Structural
//@item type TxnId
//@enum GraphError
//@item type GraphResult
//@struct GraphStore keep=nodes,current_version,property_index,node_columns,index_sender,free_node_ids,label_index,catalog,frozen_outgoing,frozen_incoming,outgoing,incoming erase

// ---- versioned reads (as in unit store_mvcc) ----
pub open spec fn chain_sorted(c: Seq<Node>) -> bool { forall|i: int, j: int| 0 <= i <= j < c.len() ==> c[i].version <= c[j].version }
pub open spec fn read_idx(c: Seq<Node>, v: u64) -> int
    decreases c.len()
{
    if c.len() == 0 { -1 } else if c.last().version <= v { c.len() - 1 } else { read_idx(c.drop_last(), v) }
}
pub open spec fn read(c: Seq<Node>, v: u64) -> Option<Node> { if read_idx(c, v) >= 0 { Some(c[read_idx(c, v)]) } else { None } }
pub proof fn lemma_read_idx(c: Seq<Node>, v: u64)
    ensures
        -1 <= read_idx(c, v) < c.len(),
        read_idx(c, v) >= 0 ==> c[read_idx(c, v)].version <= v,
        forall|j: int| read_idx(c, v) < j < c.len() ==> c[j].version > v,
    decreases c.len()
{
    if c.len() > 0 && c.last().version > v {
        lemma_read_idx(c.drop_last(), v);
        assert forall|j: int| read_idx(c, v) < j < c.len() implies c[j].version > v by {
            if j < c.len() - 1 { assert(c.drop_last()[j] == c[j]); }
        }
    }
}
pub proof fn lemma_read_ignores_newer_last(c: Seq<Node>, n: Node, v: u64)
    requires n.version > v
    ensures read(c.push(n), v) == read(c, v)
{
    assert(c.push(n).drop_last() =~= c);
    lemma_read_idx(c, v);
    if read_idx(c, v) >= 0 { assert(c.push(n)[read_idx(c, v)] == c[read_idx(c, v)]); }
}

impl GraphStore {
    #[verifier::external_body] pub fn invalidate_statistics_cache(&self) { unimplemented!() }
    /// get_node (unit store_mvcc): the newest version stamped at or below the current version
    #[verifier::external_body]
    pub fn get_node(&self, id: NodeId) -> (r: Option<&Node>)
        ensures r matches Some(n) ==> (id.0 as int) < self.nodes@.len() && read(self.nodes@[id.0 as int]@, self.current_version) == Some(*n)
    { unimplemented!() }
    #[verifier::external_body] pub fn handle_index_event(&self, event: IndexEvent, tm: Option<std::sync::Arc<TenantManager>>) { unimplemented!() }
    /// delete_edge (unit store_adj): does not touch the version chains (D4, assumed frame)
    #[verifier::external_body]
    pub fn delete_edge(&mut self, id: EdgeId) -> (r: GraphResult<u8>)
        ensures final(self).nodes@ == old(self).nodes@ && final(self).current_version == old(self).current_version
    { unimplemented!() }
    #[verifier::external_body] pub fn update_hierarchies_for_property(&self, id: NodeId, k: &str, v: &PropertyValue) { unimplemented!() }
    #[verifier::external_body] fn apply_property_set(&self, id: NodeId, labels: &LabelSet, k: &str, old: Option<&PropertyValue>, v: &PropertyValue) { unimplemented!() }
    pub open spec fn stamped(&self) -> bool {
        (forall|id: int| 0 <= id < self.nodes@.len() ==> chain_sorted(#[trigger] self.nodes@[id]@))
        && forall|id: int, k: int| 0 <= id < self.nodes@.len() && 0 <= k < self.nodes@[id]@.len() ==> (#[trigger] self.nodes@[id]@[k]).version <= self.current_version
    }

//@fn GraphStore::delete_node ret=r
//@requires
        old(self).stamped(),
        // every node slot has its adjacency buffers (create_node* resize outgoing/incoming together with nodes; A-PROJ)
        old(self).outgoing@.len() >= old(self).nodes@.len() && old(self).incoming@.len() >= old(self).nodes@.len(),
//@ensures
        final(self).nodes@.len() == old(self).nodes@.len() && final(self).current_version == old(self).current_version,   //#frame
        forall|k: int| 0 <= k < old(self).nodes@.len() && k != id.0 as int ==> #[trigger] final(self).nodes@[k]@ == old(self).nodes@[k]@,   //#other_nodes_untouched
        r is Err ==> final(self).nodes@ == old(self).nodes@,                                          //#refused_changes_no_version
        r is Ok ==> read(final(self).nodes@[id.0 as int]@, old(self).current_version) is None,        //#deleted_node_is_not_readable
        r is Ok ==> forall|v: u64| v < old(self).current_version ==>
            #[trigger] read(final(self).nodes@[id.0 as int]@, v) == read(old(self).nodes@[id.0 as int]@, v),   //#reads_below_current_version_unchanged
        r is Ok ==> (id.0 as int) < old(self).nodes@.len() && old(self).nodes@[id.0 as int]@.len() > 0
            && final(self).nodes@[id.0 as int]@ == old(self).nodes@[id.0 as int]@.drop_last(),             //#pops_exactly_the_newest_version
//@loop 1 iter=it1
            invariant self.nodes@ == old(self).nodes@, self.current_version == old(self).current_version,
                self.outgoing@ == old(self).outgoing@ && self.incoming@ == old(self).incoming@,
                (id.0 as int) < self.nodes@.len() && self.nodes@[id.0 as int]@.len() > 0, idx == id.0 as int,
//@loop 2 iter=it2
            invariant self.nodes@ == n2, self.current_version == old(self).current_version,
//@before "let mut outgoing_edges: Vec<EdgeId>"
        let ghost n2 = self.nodes@;
//@before "self.free_node_ids.push(id.as_u64());"
        proof {
            lemma_read_idx(self.nodes@[id.0 as int]@, self.current_version);
        }
//@replace "in &latest_node.labels {" => "in latest_node.labels.as_vec().iter() {" :: HashSet<Label> iteration through the stand-in (D4)
//@replace "crate::graph::event::IndexEvent::NodeDeleted" => "IndexEvent::NodeDeleted" :: path only
//@replace "for edge_id in outgoing_edges.iter().chain(incoming_edges.iter()) {" => "let all_edges__ = chained_ids(&outgoing_edges, &incoming_edges); for edge_id in all_edges__.iter() {" :: the Chain adapter is outside Verus: the same sequence, materialised
//@atstart
        proof { axiom_key_models(); }
//@end

//@fn GraphStore::set_node_property ret=r
//@requires
        old(self).stamped(),
//@ensures
        final(self).nodes@.len() == old(self).nodes@.len() && final(self).current_version == old(self).current_version,   //#frame
        forall|id: int, v: u64| 0 <= id < old(self).nodes@.len() && v < old(self).current_version
            ==> #[trigger] read(final(self).nodes@[id]@, v) == read(old(self).nodes@[id]@, v),          //#reads_below_current_version_unchanged
        final(self).stamped(),                                                                        //#stamps_stay_sorted_and_current
        r is Err ==> final(self).nodes@ == old(self).nodes@,                                          //#refused_changes_no_version
//@loop 1 iter=it1
            invariant self.nodes@ == old(self).nodes@, self.current_version == old(self).current_version,
                self.outgoing@ == old(self).outgoing@ && self.incoming@ == old(self).incoming@, old(self).stamped(),
//@loop 2 iter=it2
            invariant self.nodes@ == n1, self.current_version == old(self).current_version,
//@beforeloop 2
        let ghost n1 = self.nodes@;
        proof {
            let cv = old(self).current_version;
            if idx < old(self).nodes@.len() {
                let c0 = old(self).nodes@[idx as int]@;
                let c1 = self.nodes@[idx as int]@;
                if c0.len() > 0 {
                    assert forall|v: u64| v < cv implies read(c1, v) == read(c0, v) by {
                        if c1.len() == c0.len() + 1 {
                            assert(c1 =~= c0.push(c1.last()));
                            lemma_read_ignores_newer_last(c0, c1.last(), v);
                        } else {
                            assert(c1 =~= c0.drop_last().push(c1.last()));
                            assert(c0 =~= c0.drop_last().push(c0.last()));
                            lemma_read_ignores_newer_last(c0.drop_last(), c1.last(), v);
                            lemma_read_ignores_newer_last(c0.drop_last(), c0.last(), v);
                        }
                    }
                }
            }
        }
//@replace "self.nodes.get_mut(" => "vec_get_mut(&mut self.nodes, " :: slice::get_mut has no final-value specification in vstd; wrapper body is the original expression
//@replace "chrono::Utc::now().timestamp_millis()" => "now_millis()" :: wall clock: opaque i64 source
//@end
}
}
fn main(){}
