// Reference encoder ("oracle").  Plain Rust, no formatting machinery.
//  * Kani checks, for bounded values, that the real RespValue::encode writes exactly these bytes;
//  * Verus proves, for all values, that these bytes are enc(san(sv(v))) of the specification.
// The three std conversions it relies on are isolated in the first three functions (assumed in Verus).

/// UTF-8 bytes of a string
pub fn str_bytes(s: &str) -> &[u8] { s.as_bytes() }
/// decimal Display of an i64
pub fn int_text_i64(i: i64) -> String { i.to_string() }
/// decimal Display of a usize
pub fn int_text_usize(n: usize) -> String { n.to_string() }

/// the text with every CR and LF replaced by a space
pub fn sanitize_text(s: &str) -> String {
    let mut out = String::new();
    for c in s.chars() {
        if c == '\r' || c == '\n' { out.push(' '); } else { out.push(c); }
    }
    out
}

/// tag, text, CRLF
pub fn put_line(out: &mut Vec<u8>, tag: u8, text: &str) {
    out.push(tag);
    out.extend_from_slice(str_bytes(text));
    out.push(13u8);
    out.push(10u8);
}

pub fn enc_exec(v: &RespValue, out: &mut Vec<u8>) {
    match v {
        RespValue::SimpleString(s) => { let t = sanitize_text(s); put_line(out, 43u8, &t); }
        RespValue::Error(s) => { let t = sanitize_text(s); put_line(out, 45u8, &t); }
        RespValue::Integer(i) => { let t = int_text_i64(*i); put_line(out, 58u8, &t); }
        RespValue::BulkString(None) => { let t = int_text_i64(-1); put_line(out, 36u8, &t); }
        RespValue::BulkString(Some(d)) => {
            let t = int_text_usize(d.len());
            put_line(out, 36u8, &t);
            out.extend_from_slice(d);
            out.push(13u8);
            out.push(10u8);
        }
        RespValue::Array(items) => {
            let t = int_text_usize(items.len());
            put_line(out, 42u8, &t);
            let mut i = 0;
            while i < items.len() {
                enc_exec(&items[i], out);
                i += 1;
            }
        }
        RespValue::Null => { out.push(95u8); out.push(13u8); out.push(10u8); }
    }
}
