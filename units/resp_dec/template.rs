//@unit resp_dec
//@properties C20 C21 C22
//@source resp src/protocol/resp.rs
//@rules D2 R10
#![feature(allocator_api)]
#![allow(unused_imports, unused_variables, unused_mut, dead_code)]
use vstd::prelude::*;
use std::io;
use vstd::std_specs::fmt::DisplaySpec;
// `write!` on a Vec<u8> (A-STD, assumed): std's macro goes through io::Write::write_fmt and core::fmt::Arguments,
// which Verus cannot see into.  This macro_rules shadows it inside the unit and routes the SAME arguments, unchanged,
// to two stand-in functions whose assumed contract is the meaning of a format string with at most one `{}`:
// the literal text with the argument's Display output in place of `{}`; writing to a Vec<u8> never fails.
macro_rules! write {
    ($dst:expr, $fmt:literal) => { vx_write0($dst, $fmt) };
    ($dst:expr, $fmt:literal, $a:expr) => { vx_write1($dst, $fmt, &$a) };
}
verus!{
global size_of usize == 8;
//@include common/std_extra.rs

#[verifier::external_type_specification]
#[verifier::external_body]
pub struct ExIoError(std::io::Error);


#[verifier::external_type_specification]
#[verifier::external_body]
pub struct ExFromUtf8Error(std::string::FromUtf8Error);
#[verifier::external_type_specification]
#[verifier::external_body]
pub struct ExParseIntError(std::num::ParseIntError);
pub uninterp spec fn utf8_decode(b: Seq<u8>) -> Option<Seq<char>>;
pub assume_specification [String::from_utf8] (v: Vec<u8>) -> (r: Result<String, std::string::FromUtf8Error>)
    ensures
        r is Ok ==> utf8_decode(v@) == Some(r->Ok_0@),
        r is Err ==> utf8_decode(v@) is None;

#[verifier::external_trait_specification]
pub trait ExFromStr: Sized {
    type ExternalTraitSpecificationFor: std::str::FromStr;
    type Err;
    fn from_str(s: &str) -> Result<Self, Self::Err>;
}
pub uninterp spec fn parse_spec<F: std::str::FromStr>(s: Seq<char>) -> Option<F>;
pub assume_specification<F: std::str::FromStr> [str::parse::<F>] (s: &str) -> (r: Result<F, <F as std::str::FromStr>::Err>)
    ensures
        r is Ok ==> parse_spec::<F>(s@) == Some(r->Ok_0),
        r is Err ==> parse_spec::<F>(s@) is None;

pub open spec fn win_at<T>(s: Seq<T>, n: nat, i: int) -> Seq<T> { s.subrange(i, i + n) }
/// `s.windows(n).position(p)` (A-STD; Verus cannot attach a specification to the provided trait method
/// Iterator::position, so the call is routed through this wrapper whose body is the original expression)
pub open spec fn win_test<T, P: FnMut(&[T]) -> bool>(p: P, w: Seq<T>, b: bool) -> bool {
    exists|x: &[T]| x@ == w && p.ensures((x,), b)
}
#[verifier::external_body]
pub fn windows_position<T, P: FnMut(&[T]) -> bool>(s: &[T], n: usize, p: P) -> (r: Option<usize>)
    requires n > 0, forall|x: &[T]| x@.len() == n ==> p.requires((x,))
    ensures
        match r {
            Some(i) => i + n <= s@.len()
                && win_test(p, win_at(s@, n as nat, i as int), true)
                && (forall|j: int| 0 <= j < i ==> win_test(p, #[trigger] win_at(s@, n as nat, j), false)),
            None => forall|j: int| 0 <= j && j + n <= s@.len()
                ==> win_test(p, #[trigger] win_at(s@, n as nat, j), false),
        }
{ s.windows(n).position(p) }

/// Vec::with_capacity under an allocation budget (the body is the original call)
pub fn vec_with_capacity_within<T>(budget: Ghost<nat>, cap: usize) -> (v: Vec<T>)
    requires cap <= budget@
    ensures v@ == Seq::<T>::empty()
{ Vec::with_capacity(cap) }

/// a slice never holds more than usize::MAX elements (language guarantee vstd does not export; A-VECLEN)
#[verifier::external_body]
pub proof fn axiom_slice_len<T>(s: &[T])
    ensures s@.len() <= usize::MAX
{}

/// bytes::Buf for &[u8] (A-EXT): advance(cnt) drops the first cnt bytes; panics when cnt > remaining
pub trait Buf: Sized {
    spec fn bytes(&self) -> Seq<u8>;
    fn advance(&mut self, cnt: usize)
        requires cnt <= old(self).bytes().len()
        ensures final(self).bytes() == old(self).bytes().skip(cnt as int);
}
impl<'a> Buf for &'a [u8] {
    open spec fn bytes(&self) -> Seq<u8> { (*self)@ }
    #[verifier::external_body]
    fn advance(&mut self, cnt: usize) { *self = &self[cnt..]; }
}

/// bytes::BytesMut (A-EXT): a growable byte buffer; only the three operations `decode` uses are declared, with the
/// contracts the bytes crate documents (len, the buffered bytes as a slice, advance = drop from the front)
#[verifier::external_body]
pub struct BytesMut { v: Vec<u8> }
impl BytesMut {
    pub uninterp spec fn view(&self) -> Seq<u8>;
    #[verifier::external_body]
    pub fn len(&self) -> (n: usize) ensures n == self.view().len() { self.v.len() }
    /// stands for `&buf[..]` (Deref<Target = [u8]> then Index<RangeFull>): the buffered bytes
    #[verifier::external_body]
    pub fn as_slice_full(&self) -> (s: &[u8]) ensures s@ == self.view() { &self.v[..] }
}
impl Buf for BytesMut {
    open spec fn bytes(&self) -> Seq<u8> { self.view() }
    #[verifier::external_body]
    fn advance(&mut self, cnt: usize) { self.v.drain(..cnt); }
}

//@enum RespError
pub type RespResult<T> = Result<T, RespError>;
//@enum RespValue

// Display of the two std error types inside format!/to_string: vstd asks for DisplaySpec::fmt_req (A-STD)
#[verifier::external_body]
pub broadcast proof fn axiom_display_parse_int_error(e: &std::num::ParseIntError, f: &std::fmt::Formatter)
    ensures #[trigger] e.fmt_req(f) {}

// =====================================================================
// specification: RESP values, lines, and the decoder as a mathematical function
// =====================================================================
pub enum SV { Simple(Seq<char>), Error(Seq<char>), Int(i64), Bulk(Option<Seq<u8>>), Array(Seq<SV>), Null }

/// abstract value of a decoded RespValue (strings as character sequences, payloads as byte sequences)
pub open spec fn sv(v: RespValue) -> SV
    decreases v
{
    match v {
        RespValue::SimpleString(s) => SV::Simple(s@),
        RespValue::Error(s) => SV::Error(s@),
        RespValue::Integer(i) => SV::Int(i),
        RespValue::BulkString(None) => SV::Bulk(None),
        RespValue::BulkString(Some(d)) => SV::Bulk(Some(d@)),
        RespValue::Array(items) => SV::Array(Seq::new(items@.len(), |i: int| if 0 <= i < items@.len() { sv(items@[i]) } else { SV::Null })),
        RespValue::Null => SV::Null,
    }
}
pub open spec fn svs(items: Seq<RespValue>) -> Seq<SV> { Seq::new(items.len(), |i: int| if 0 <= i < items.len() { sv(items[i]) } else { SV::Null }) }

pub open spec fn crlf_at(s: Seq<u8>, i: int) -> bool { 0 <= i && i + 1 < s.len() && s[i] == 13u8 && s[i + 1] == 10u8 }
pub open spec fn no_crlf(s: Seq<u8>) -> bool { forall|j: int| !crlf_at(s, j) }
pub open spec fn first_crlf(s: Seq<u8>, p: int) -> bool { crlf_at(s, p) && forall|j: int| 0 <= j < p ==> !crlf_at(s, j) }
pub open spec fn line_end(s: Seq<u8>) -> int { choose|p: int| first_crlf(s, p) }
/// the first CRLF-terminated line of s and what follows it
pub open spec fn line(s: Seq<u8>) -> Option<(Seq<u8>, Seq<u8>)> {
    if no_crlf(s) { None } else { Some((s.subrange(0, line_end(s)), s.skip(line_end(s) + 2))) }
}
pub open spec fn is_suffix(t: Seq<u8>, s: Seq<u8>) -> bool { t.len() <= s.len() && t == s.skip(s.len() - t.len()) }

pub proof fn lemma_first_crlf_exists(s: Seq<u8>, j: int)
    requires crlf_at(s, j)
    ensures first_crlf(s, line_end(s)), 0 <= line_end(s) <= j
    decreases j
{
    if exists|k: int| 0 <= k < j && crlf_at(s, k) {
        let k = choose|k: int| 0 <= k < j && crlf_at(s, k);
        lemma_first_crlf_exists(s, k);
    } else {
        assert(first_crlf(s, j));
    }
    let p = line_end(s);
    if p > j { assert(!crlf_at(s, j)); }
}
pub proof fn lemma_first_crlf_unique(s: Seq<u8>, p: int, q: int)
    requires first_crlf(s, p), first_crlf(s, q)
    ensures p == q
{
    if p < q { assert(!crlf_at(s, p)); }
    if q < p { assert(!crlf_at(s, q)); }
}
pub proof fn lemma_suffix_skip(s: Seq<u8>, a: int, b: int)
    requires 0 <= a <= s.len(), 0 <= b <= s.len() - a
    ensures s.skip(a).skip(b) == s.skip(a + b), is_suffix(s.skip(a), s)
{
    assert(s.skip(a).skip(b) =~= s.skip(a + b));
    assert(s.skip(a) =~= s.skip(s.len() - s.skip(a).len()));
}
/// facts about the first line of a buffer that holds one
pub proof fn lemma_line(s: Seq<u8>)
    requires !no_crlf(s)
    ensures
        first_crlf(s, line_end(s)),
        0 <= line_end(s), line_end(s) + 2 <= s.len(),
        s.len() > 0 && s[0] != 13u8 ==> line_end(s) >= 1,
        line(s) == Some((s.subrange(0, line_end(s)), s.skip(line_end(s) + 2))),
        is_suffix(s.skip(line_end(s) + 2), s),
        s.skip(line_end(s) + 2).len() + 2 <= s.len(),
{
    let j = choose|j: int| crlf_at(s, j);
    lemma_first_crlf_exists(s, j);
    lemma_suffix_skip(s, line_end(s) + 2, 0);
}
pub broadcast proof fn lemma_suffix_trans(a: Seq<u8>, b: Seq<u8>, c: Seq<u8>)
    requires #[trigger] is_suffix(a, b), #[trigger] is_suffix(b, c)
    ensures is_suffix(a, c)
{
    assert(a =~= c.skip(c.len() - a.len()));
}

pub broadcast proof fn lemma_svs_push(e: Seq<RespValue>, v: RespValue)
    ensures #[trigger] svs(e.push(v)) == svs(e).push(sv(v))
{
    assert(svs(e.push(v)) =~= svs(e).push(sv(v)));
}
/// outcome of decoding: a value and the remaining bytes; "wait for more bytes" (nothing to decode yet, or a frame cut
/// short -- Ok(None) and Err(Incomplete) are the same answer to the connection loop); a malformed frame.
pub enum D { Val(SV, Seq<u8>), Wait, Bad }
/// the value of a plain-text (inline) command line, None when it is rejected; its tokenisation is not specified here
pub uninterp spec fn inline_val(l: Seq<u8>) -> Option<SV>;

pub open spec fn MAXD() -> nat { 32 }

pub open spec fn dec_text(l: Seq<u8>) -> Option<Seq<char>> { utf8_decode(l.skip(1)) }

pub open spec fn dec_simple(s: Seq<u8>) -> D {
    match line(s) { None => D::Wait, Some((l, rest)) => match dec_text(l) { None => D::Bad, Some(cs) => D::Val(SV::Simple(cs), rest) } }
}
pub open spec fn dec_error(s: Seq<u8>) -> D {
    match line(s) { None => D::Wait, Some((l, rest)) => match dec_text(l) { None => D::Bad, Some(cs) => D::Val(SV::Error(cs), rest) } }
}
pub open spec fn dec_integer(s: Seq<u8>) -> D {
    match line(s) { None => D::Wait, Some((l, rest)) => match dec_text(l) { None => D::Bad, Some(cs) =>
        match parse_spec::<i64>(cs) { None => D::Bad, Some(i) => D::Val(SV::Int(i), rest) } } }
}
pub open spec fn dec_null(s: Seq<u8>) -> D {
    match line(s) { None => D::Wait, Some((l, rest)) => if l.len() == 1 && l[0] == 95u8 { D::Val(SV::Null, rest) } else { D::Bad } }
}
pub open spec fn dec_bulk(s: Seq<u8>) -> D {
    match line(s) { None => D::Wait, Some((l, rest)) => match dec_text(l) { None => D::Bad, Some(cs) =>
        match parse_spec::<i64>(cs) { None => D::Bad, Some(len) =>
            if len == -1 { D::Val(SV::Bulk(None), rest) }
            else if len < -1 { D::Bad }
            else if rest.len() < len + 2 { D::Wait }
            else if !(rest[len as int] == 13u8 && rest[len + 1] == 10u8) { D::Bad }
            else { D::Val(SV::Bulk(Some(rest.subrange(0, len as int))), rest.skip(len + 2)) } } } }
}
pub open spec fn dec_inline(s: Seq<u8>) -> D {
    match line(s) { None => D::Wait, Some((l, rest)) => match inline_val(l) { None => D::Bad, Some(v) => D::Val(v, rest) } }
}
pub open spec fn dec_value(s: Seq<u8>, depth: nat) -> D
    decreases (if depth < MAXD() { MAXD() - depth } else { 0 }), 2int, 0nat
{
    if s.len() == 0 { D::Wait }
    else if s[0] == 43u8 { dec_simple(s) }
    else if s[0] == 45u8 { dec_error(s) }
    else if s[0] == 58u8 { dec_integer(s) }
    else if s[0] == 36u8 { dec_bulk(s) }
    else if s[0] == 42u8 { dec_array(s, depth) }
    else if s[0] == 95u8 { dec_null(s) }
    else { dec_inline(s) }
}
pub open spec fn dec_array(s: Seq<u8>, depth: nat) -> D
    decreases (if depth < MAXD() { MAXD() - depth } else { 0 }), 1int, 0nat
{
    if depth >= MAXD() { D::Bad } else {
    match line(s) { None => D::Wait, Some((l, rest)) => match dec_text(l) { None => D::Bad, Some(cs) =>
        match parse_spec::<usize>(cs) { None => D::Bad, Some(n) => dec_elems(rest, depth, n as nat, Seq::empty()) } } } }
}
/// the n remaining elements of an array, each decoded one level deeper; a missing element is a frame cut short
pub open spec fn dec_elems(s: Seq<u8>, depth: nat, n: nat, acc: Seq<SV>) -> D
    decreases (if depth < MAXD() { MAXD() - depth } else { 0 }), 0int, n
{
    if depth >= MAXD() { D::Bad }
    else if n == 0 { D::Val(SV::Array(acc), s) }
    else { match dec_value(s, depth + 1) {
        D::Val(v, rest) => dec_elems(rest, depth, (n - 1) as nat, acc.push(v)),
        D::Wait => D::Wait,
        D::Bad => D::Bad,
    } }
}

/// the exec result r (with the cursor left at fin) is the outcome d
pub open spec fn agrees(r: RespResult<Option<RespValue>>, fin: Seq<u8>, d: D) -> bool {
    match d {
        D::Val(v, rest) => r matches Ok(Some(x)) && sv(x) == v && fin == rest,
        D::Wait => r matches Ok(None) || r matches Err(RespError::Incomplete),
        D::Bad => r matches Err(e) && !(e is Incomplete),
    }
}

// =====================================================================
// the encoder as a mathematical function, and the framing theorems (C20, C22)
// =====================================================================
/// UTF-8 encoding of a character sequence and Display of an integer: uninterpreted, with the facts used (A-STD)
pub uninterp spec fn utf8_encode(cs: Seq<char>) -> Seq<u8>;
pub uninterp spec fn fmt_int(i: int) -> Seq<char>;
pub open spec fn line_safe(cs: Seq<char>) -> bool { forall|i: int| 0 <= i < cs.len() ==> cs[i] != '\r' && cs[i] != '\n' }
pub open spec fn no_cr_lf(b: Seq<u8>) -> bool { forall|i: int| 0 <= i < b.len() ==> b[i] != 13u8 && b[i] != 10u8 }
#[verifier::external_body]
pub proof fn axiom_utf8(cs: Seq<char>)
    ensures
        utf8_decode(utf8_encode(cs)) == Some(cs),
        line_safe(cs) ==> no_cr_lf(utf8_encode(cs)),
{}
#[verifier::external_body]
pub proof fn axiom_fmt_int(i: int)
    ensures
        line_safe(fmt_int(i)),
        i64::MIN <= i <= i64::MAX ==> parse_spec::<i64>(fmt_int(i)) == Some(i as i64),
        0 <= i <= usize::MAX ==> parse_spec::<usize>(fmt_int(i)) == Some(i as usize),
{}

pub open spec fn crlf() -> Seq<u8> { seq![13u8, 10u8] }
pub open spec fn text_line(tag: u8, cs: Seq<char>) -> Seq<u8> { seq![tag] + utf8_encode(cs) + crlf() }

pub open spec fn enc(v: SV) -> Seq<u8>
    decreases v
{
    match v {
        SV::Simple(cs) => text_line(43u8, cs),
        SV::Error(cs) => text_line(45u8, cs),
        SV::Int(i) => text_line(58u8, fmt_int(i as int)),
        SV::Bulk(None) => text_line(36u8, fmt_int(-1)),
        SV::Bulk(Some(d)) => text_line(36u8, fmt_int(d.len() as int)) + d + crlf(),
        SV::Array(items) => text_line(42u8, fmt_int(items.len() as int)) + enc_all(items),
        SV::Null => seq![95u8, 13u8, 10u8],
    }
}
pub open spec fn enc_all(items: Seq<SV>) -> Seq<u8>
    decreases items
{
    if items.len() == 0 { Seq::empty() } else { enc(items[0]) + enc_all(items.skip(1)) }
}
/// well-formed at nesting level `depth`: one-line texts, lengths a real buffer can have, nesting within the decoder's limit
pub open spec fn wf(v: SV, depth: nat) -> bool
    decreases v
{
    match v {
        SV::Simple(cs) => line_safe(cs),
        SV::Error(cs) => line_safe(cs),
        SV::Int(i) => true,
        SV::Bulk(None) => true,
        SV::Bulk(Some(d)) => d.len() <= i64::MAX,
        SV::Array(items) => depth < MAXD() && items.len() <= usize::MAX
            && forall|i: int| 0 <= i < items.len() ==> wf(items[i], depth + 1),
        SV::Null => true,
    }
}

pub proof fn lemma_text_line(tag: u8, cs: Seq<char>, rest: Seq<u8>)
    requires line_safe(cs), tag != 13u8
    ensures
        line(text_line(tag, cs) + rest) == Some((seq![tag] + utf8_encode(cs), rest)),
        dec_text(seq![tag] + utf8_encode(cs)) == Some(cs),
        (text_line(tag, cs) + rest).len() > 0 && (text_line(tag, cs) + rest)[0] == tag,
{
    axiom_utf8(cs);
    let b = utf8_encode(cs);
    let s = text_line(tag, cs) + rest;
    let p: int = 1 + b.len() as int;
    assert(s[p] == 13u8 && s[p + 1] == 10u8);
    assert(crlf_at(s, p));
    assert forall|j: int| 0 <= j < p implies !crlf_at(s, j) by {
        if j >= 1 { assert(s[j] == b[j - 1]); }
    }
    assert(first_crlf(s, p));
    lemma_first_crlf_exists(s, p);
    lemma_first_crlf_unique(s, p, line_end(s));
    assert(s.subrange(0, p) =~= seq![tag] + b);
    assert(s.skip(p + 2) =~= rest);
    assert((seq![tag] + b).skip(1) =~= b);
}

pub proof fn lemma_roundtrip(v: SV, depth: nat, rest: Seq<u8>)
    requires wf(v, depth)
    ensures dec_value(enc(v) + rest, depth) == D::Val(v, rest)
    decreases v, 0nat
{
    let s = enc(v) + rest;
    match v {
        SV::Simple(cs) => { lemma_text_line(43u8, cs, rest); }
        SV::Error(cs) => { lemma_text_line(45u8, cs, rest); }
        SV::Int(i) => { axiom_fmt_int(i as int); lemma_text_line(58u8, fmt_int(i as int), rest); }
        SV::Bulk(None) => { axiom_fmt_int(-1); lemma_text_line(36u8, fmt_int(-1), rest); }
        SV::Bulk(Some(d)) => {
            let n: int = d.len() as int;
            axiom_fmt_int(n);
            let tail = d + crlf() + rest;
            lemma_text_line(36u8, fmt_int(n), tail);
            assert(s =~= text_line(36u8, fmt_int(n)) + tail);
            assert(tail.subrange(0, n) =~= d);
            assert(tail.skip(n + 2) =~= rest);
            assert(tail[n] == 13u8 && tail[n + 1] == 10u8);
        }
        SV::Array(items) => {
            let n = items.len() as int;
            axiom_fmt_int(n);
            let tail = enc_all(items) + rest;
            lemma_text_line(42u8, fmt_int(n), tail);
            assert(s =~= text_line(42u8, fmt_int(n)) + tail);
            assert(items.skip(0) =~= items);
            lemma_roundtrip_elems(items, 0, depth, rest, Seq::empty());
            assert(Seq::<SV>::empty() + items =~= items);
        }
        SV::Null => {
            assert(s[1] == 13u8 && s[2] == 10u8);
            assert(first_crlf(s, 1));
            lemma_first_crlf_exists(s, 1);
            lemma_first_crlf_unique(s, 1, line_end(s));
            assert(s.subrange(0, 1) =~= seq![95u8]);
            assert(s.skip(3) =~= rest);
        }
    }
}

pub proof fn lemma_roundtrip_elems(items: Seq<SV>, k: nat, depth: nat, rest: Seq<u8>, acc: Seq<SV>)
    requires
        depth < MAXD(), k <= items.len(),
        forall|i: int| 0 <= i < items.len() ==> wf(items[i], depth + 1),
    ensures
        dec_elems(enc_all(items.skip(k as int)) + rest, depth, (items.len() - k) as nat, acc)
            == D::Val(SV::Array(acc + items.skip(k as int)), rest)
    decreases items, items.len() - k
{
    let tl = items.skip(k as int);
    if k == items.len() {
        assert(tl =~= Seq::<SV>::empty());
        assert(enc_all(tl) + rest =~= rest);
        assert(acc + tl =~= acc);
    } else {
        let v = items[k as int];
        assert(tl[0] == v);
        assert(tl.skip(1) =~= items.skip(k as int + 1));
        let rest2 = enc_all(items.skip(k as int + 1)) + rest;
        assert(enc_all(tl) + rest =~= enc(v) + rest2);
        lemma_roundtrip(v, depth + 1, rest2);
        lemma_roundtrip_elems(items, k + 1, depth, rest, acc.push(v));
        assert(acc.push(v) + items.skip(k as int + 1) =~= acc + tl);
    }
}

/// "wait for more bytes": the two outcomes after which the connection loop keeps the buffer and reads again
pub open spec fn waits(d: D) -> bool { d is Wait }

pub proof fn lemma_text_line_prefix(tag: u8, cs: Seq<char>, k: int)
    requires line_safe(cs), tag != 13u8, 0 <= k < text_line(tag, cs).len()
    ensures line(text_line(tag, cs).take(k)) is None
{
    axiom_utf8(cs);
    let b = utf8_encode(cs);
    let s = text_line(tag, cs).take(k);
    assert forall|j: int| !crlf_at(s, j) by {
        if 0 <= j && j + 1 < s.len() {
            if j >= 1 { assert(s[j] == b[j - 1]); }
        }
    }
}

pub proof fn lemma_prefix(v: SV, depth: nat, k: int)
    requires wf(v, depth), 0 <= k < enc(v).len()
    ensures waits(dec_value(enc(v).take(k), depth))
    decreases v, 0nat
{
    let s = enc(v).take(k);
    if k == 0 {
    } else {
        match v {
            SV::Simple(cs) => { lemma_text_line_prefix(43u8, cs, k); }
            SV::Error(cs) => { lemma_text_line_prefix(45u8, cs, k); }
            SV::Int(i) => { axiom_fmt_int(i as int); lemma_text_line_prefix(58u8, fmt_int(i as int), k); }
            SV::Bulk(None) => { axiom_fmt_int(-1); lemma_text_line_prefix(36u8, fmt_int(-1), k); }
            SV::Bulk(Some(d)) => {
                let n: int = d.len() as int;
                axiom_fmt_int(n);
                let hl = text_line(36u8, fmt_int(n));
                if k < hl.len() {
                    lemma_text_line_prefix(36u8, fmt_int(n), k);
                    assert(s =~= hl.take(k));
                } else {
                    let m = k - hl.len();
                    let tail = (d + crlf()).take(m);
                    lemma_text_line(36u8, fmt_int(n), tail);
                    assert(s =~= hl + tail);
                }
            }
            SV::Array(items) => {
                let n: int = items.len() as int;
                axiom_fmt_int(n);
                let hl = text_line(42u8, fmt_int(n));
                if k < hl.len() {
                    lemma_text_line_prefix(42u8, fmt_int(n), k);
                    assert(s =~= hl.take(k));
                } else {
                    let m = k - hl.len();
                    let tail = enc_all(items).take(m);
                    lemma_text_line(42u8, fmt_int(n), tail);
                    assert(s =~= hl + tail);
                    assert(items.skip(0) =~= items);
                    lemma_prefix_elems(items, 0, depth, m, Seq::empty());
                }
            }
            SV::Null => {
                assert forall|j: int| !crlf_at(s, j) by { }
            }
        }
    }
}

pub proof fn lemma_prefix_elems(items: Seq<SV>, i: nat, depth: nat, m: int, acc: Seq<SV>)
    requires
        depth < MAXD(), i <= items.len(),
        forall|j: int| 0 <= j < items.len() ==> wf(items[j], depth + 1),
        0 <= m < enc_all(items.skip(i as int)).len(),
    ensures
        dec_elems(enc_all(items.skip(i as int)).take(m), depth, (items.len() - i) as nat, acc) is Wait
    decreases items, items.len() - i
{
    let tl = items.skip(i as int);
    if i == items.len() {
        assert(tl =~= Seq::<SV>::empty());
    } else {
        let v = items[i as int];
        assert(tl[0] == v);
        assert(tl.skip(1) =~= items.skip(i as int + 1));
        let e = enc(v);
        let more = enc_all(items.skip(i as int + 1));
        assert(enc_all(tl) == e + more);
        if m < e.len() {
            assert((e + more).take(m) =~= e.take(m));
            lemma_prefix(v, depth + 1, m);
        } else {
            let rest2 = more.take(m - e.len());
            assert((e + more).take(m) =~= e + rest2);
            lemma_roundtrip(v, depth + 1, rest2);
            lemma_prefix_elems(items, i + 1, depth, m - e.len(), acc.push(v));
        }
    }
}

impl RespValue {
//@item const MAX_DEPTH

//@fn RespValue::decode ret=r
//@ensures
        match dec_value(old(buf).view(), 0) {
            D::Val(v, rest) => r matches Ok(Some(x)) && sv(x) == v && final(buf).view() == rest,
            D::Wait => (r matches Ok(None) || r matches Err(RespError::Incomplete)) && final(buf).view() == old(buf).view(),
            D::Bad => r matches Err(e) && !(e is Incomplete) && is_suffix(final(buf).view(), old(buf).view()),
        },                                                              //#frame_or_untouched
//@atstart
        proof { assert(buf.view().skip(0) =~= buf.view()); }
//@replace "&buf[..]" => "buf.as_slice_full()" :: `&buf[..]` on BytesMut goes through Deref<Target=[u8]> and Index<RangeFull>; the stand-in method has that meaning
//@end

//@fn RespValue::decode_value ret=r
//@ensures
        agrees(r, final(buf)@, dec_value(old(buf)@, depth as nat)),     //#decodes_as_specified
        is_suffix(final(buf)@, old(buf)@),                              //#cursor_only_advances
        r matches Ok(Some(_)) ==> final(buf)@.len() < old(buf)@.len(),  //#value_consumes_bytes
//@before "return Ok(None);"
            proof { assert(buf@.skip(0) =~= buf@); }
//@decreases
        (if depth < 32 { 32 - depth } else { 0 }), 1int
//@end

//@fn RespValue::decode_simple_string ret=r
//@requires
        old(buf)@.len() > 0 && old(buf)@[0] != 13u8,
//@ensures
        agrees(r, final(buf)@, dec_simple(old(buf)@)),                  //#decodes_as_specified
        is_suffix(final(buf)@, old(buf)@),                              //#cursor_only_advances
        r matches Ok(Some(_)) ==> final(buf)@.len() < old(buf)@.len(),  //#value_consumes_bytes
//@closure map_err#1 (e: std::string::FromUtf8Error) -> (b: RespError) ensures b is InvalidEncoding
//@end

//@fn RespValue::decode_error ret=r
//@requires
        old(buf)@.len() > 0 && old(buf)@[0] != 13u8,
//@ensures
        agrees(r, final(buf)@, dec_error(old(buf)@)),                   //#decodes_as_specified
        is_suffix(final(buf)@, old(buf)@),                              //#cursor_only_advances
        r matches Ok(Some(_)) ==> final(buf)@.len() < old(buf)@.len(),  //#value_consumes_bytes
//@closure map_err#1 (e: std::string::FromUtf8Error) -> (b: RespError) ensures b is InvalidEncoding
//@end

//@fn RespValue::decode_integer ret=r
//@requires
        old(buf)@.len() > 0 && old(buf)@[0] != 13u8,
//@ensures
        agrees(r, final(buf)@, dec_integer(old(buf)@)),                 //#decodes_as_specified
        is_suffix(final(buf)@, old(buf)@),                              //#cursor_only_advances
        r matches Ok(Some(_)) ==> final(buf)@.len() < old(buf)@.len(),  //#value_consumes_bytes
//@atstart
        broadcast use axiom_display_parse_int_error;
//@closure map_err#1 (e: std::string::FromUtf8Error) -> (b: RespError) ensures b is InvalidEncoding
//@closure map_err#2 (e: std::num::ParseIntError) -> (b: RespError) ensures b is Protocol
//@end

//@fn RespValue::decode_bulk_string ret=r
//@requires
        old(buf)@.len() > 0 && old(buf)@[0] != 13u8,
//@ensures
        agrees(r, final(buf)@, dec_bulk(old(buf)@)),                    //#decodes_as_specified
        is_suffix(final(buf)@, old(buf)@),                              //#cursor_only_advances
        r matches Ok(Some(_)) ==> final(buf)@.len() < old(buf)@.len(),  //#value_consumes_bytes
//@atstart
        broadcast use axiom_display_parse_int_error;
//@before "let data = buf[..len].to_vec();"
            let ghost rest = buf@;
            proof {
                lemma_suffix_skip(rest, len as int, 2);
                lemma_suffix_skip(rest, len + 2, 0);
            }
//@after "buf.advance(len);"
            proof {
                assert(buf@ == rest.skip(len as int));
                assert(buf@.len() >= 2);
                assert(buf@.subrange(0, 2)[0] == rest[len as int] && buf@.subrange(0, 2)[1] == rest[len + 1]);
                lemma_suffix_trans(buf@, rest, old(buf)@);
            }
//@after "buf.advance(2);"
            proof {
                assert(buf@ == rest.skip(len + 2));
                lemma_suffix_trans(buf@, rest, old(buf)@);
            }
//@closure map_err#1 (e: std::string::FromUtf8Error) -> (b: RespError) ensures b is InvalidEncoding
//@closure map_err#2 (e: std::num::ParseIntError) -> (b: RespError) ensures b is Protocol
//@closure ok_or_else#1 () -> (b: RespError) ensures b is Protocol
//@end

//@fn RespValue::decode_array ret=r
//@requires
        old(buf)@.len() > 0 && old(buf)@[0] != 13u8,
//@ensures
        agrees(r, final(buf)@, dec_array(old(buf)@, depth as nat)),     //#decodes_as_specified
        is_suffix(final(buf)@, old(buf)@),                              //#cursor_only_advances
        r matches Ok(Some(_)) ==> final(buf)@.len() < old(buf)@.len(),  //#value_consumes_bytes
//@decreases
        (if depth < 32 { 32 - depth } else { 0 }), 0int
//@atstart
        broadcast use axiom_display_parse_int_error, lemma_suffix_trans, lemma_svs_push;
//@before "return Err(RespError::Protocol(\"Array nesting too deep\".to_string()));"
            proof { assert(buf@.skip(0) =~= buf@); }
//@before "let mut elements = "
            let ghost rest0 = buf@;
            let ghost s0 = old(buf)@;
            proof { lemma_suffix_skip(rest0, 0, 0); assert(rest0.skip(0) =~= rest0); assert(svs(Seq::<RespValue>::empty()) =~= Seq::<SV>::empty()); }
//@loop 1 iter=it
                invariant
                    depth < 32,                                                                     //#depth_bounded
                    it.seq().len() == len,                                                          //#count
                    s0 == old(buf)@,
                    dec_array(s0, depth as nat) == dec_elems(rest0, depth as nat, len as nat, Seq::empty()),   //#header_decoded
                    is_suffix(buf@, rest0), is_suffix(rest0, s0), rest0.len() + 2 <= s0.len(),      //#cursor_only_advances
                    elements@.len() == it.index(),                                                  //#one_element_per_round
                    dec_elems(rest0, depth as nat, len as nat, Seq::empty())
                        == dec_elems(buf@, depth as nat, (len - it.index()) as nat, svs(elements@)),      //#elements_so_far
                    elements@.len() + buf@.len() <= rest0.len(),                                      //#one_byte_per_element
//@before "Ok(Some(RespValue::Array(elements)))"
            proof {
                let a = sv(RespValue::Array(elements));
                assert(a is Array);
                assert(a->Array_0 =~= svs(elements@));
            }
//@before "match Self::decode_value(buf, depth + 1)? {"
                broadcast use lemma_suffix_trans, lemma_svs_push;
                let ghost b0 = buf@;
                let ghost e0 = elements@;
//@closure map_err#1 (e: std::string::FromUtf8Error) -> (b: RespError) ensures b is InvalidEncoding
//@closure map_err#2 (e: std::num::ParseIntError) -> (b: RespError) ensures b is Protocol
//@replace "Vec::with_capacity(" => "vec_with_capacity_within(Ghost(buf@.len() as nat), " :: the allocation bound of C21 becomes a precondition at the real call site: the requested capacity must not exceed the bytes received
//@end

//@fn RespValue::decode_null ret=r
//@requires
        old(buf)@.len() > 0 && old(buf)@[0] != 13u8,
//@ensures
        agrees(r, final(buf)@, dec_null(old(buf)@)),                    //#decodes_as_specified
        is_suffix(final(buf)@, old(buf)@),                              //#cursor_only_advances
        r matches Ok(Some(_)) ==> final(buf)@.len() < old(buf)@.len(),  //#value_consumes_bytes
//@end

//@fn RespValue::read_line ret=r
//@ensures
        match r {
            Ok(Some(l)) => line(old(buf)@) == Some((l@, final(buf)@)),
            Ok(None) => line(old(buf)@) is None && final(buf)@ == old(buf)@,
            Err(_) => false,
        },                                                              //#first_line_exactly
        is_suffix(final(buf)@, old(buf)@),                              //#cursor_only_advances
        r matches Ok(Some(l)) ==> l@.len() + 2 + final(buf)@.len() == old(buf)@.len()
            && (old(buf)@.len() > 0 && old(buf)@[0] != 13u8 ==> l@.len() >= 1),        //#line_shape
//@before "let line = buf[..pos].to_vec();"
            proof {
                let s = buf@;
                let w = win_at(s, 2, pos as int);
                assert(w[0] == s[pos as int] && w[1] == s[pos + 1]);
                assert(crlf_at(s, pos as int));
                assert forall|j: int| 0 <= j < pos implies !crlf_at(s, j) by {
                    let wj = win_at(s, 2, j);
                    assert(wj[0] == s[j] && wj[1] == s[j + 1]);
                }
                assert(first_crlf(s, pos as int));
                lemma_first_crlf_exists(s, pos as int);
                lemma_first_crlf_unique(s, pos as int, line_end(s));
                lemma_suffix_skip(s, pos + 2, 0);
                axiom_slice_len(*buf);
            }
//@before "Ok(None)"
            proof {
                let s = buf@;
                assert forall|j: int| !crlf_at(s, j) by {
                    if 0 <= j && j + 2 <= s.len() {
                        let wj = win_at(s, 2, j);
                        assert(wj[0] == s[j] && wj[1] == s[j + 1]);
                    }
                }
                lemma_suffix_skip(s, 0, 0);
                assert(s.skip(0) =~= s);
            }
//@closure windows_position#1 (w: &[u8]) -> (b: bool) ensures b == (w@.len() == 2 && w@[0] == 13u8 && w@[1] == 10u8)
//@replace "buf.windows(2).position(" => "windows_position(*buf, 2, " :: Verus cannot specify the provided method Iterator::position; wrapper has the original expression as body
//@end

    #[verifier::external_body]
    fn decode_inline_command(buf: &mut &[u8]) -> (r: RespResult<Option<RespValue>>)
        ensures
            agrees(r, final(buf)@, dec_inline(old(buf)@)),
            is_suffix(final(buf)@, old(buf)@),
            r matches Ok(Some(_)) ==> final(buf)@.len() < old(buf)@.len(),
    { unimplemented!() }
}

// =====================================================================
// the real encoder: RespValue::encode / line_safe against the encoding relation reply_of
// =====================================================================
/// what a value needs for its reply encoding to be decodable: nesting within the decoder's limit and lengths a Vec can have
pub open spec fn shape_ok(v: SV, depth: nat) -> bool
    decreases v
{
    match v {
        SV::Bulk(Some(d)) => d.len() <= i64::MAX,
        SV::Array(items) => depth < MAXD() && items.len() <= usize::MAX
            && forall|i: int| 0 <= i < items.len() ==> shape_ok(items[i], depth + 1),
        _ => true,
    }
}
/// The contract of the real encoder (checked by the Kani unit resp_enc on RespValue::encode): the bytes written for v
/// are enc(w) for a value w of the same shape in which every one-line text is free of CR/LF and is v's own text
/// whenever that already was -- *which* replacement is used for an offending text is the encoder's choice.
pub open spec fn reply_of(v: SV, w: SV) -> bool
    decreases v
{
    match v {
        SV::Simple(cs) => w matches SV::Simple(t) && line_safe(t) && (line_safe(cs) ==> t == cs),
        SV::Error(cs) => w matches SV::Error(t) && line_safe(t) && (line_safe(cs) ==> t == cs),
        SV::Array(items) => w matches SV::Array(ws) && ws.len() == items.len()
            && forall|i: int| 0 <= i < items.len() ==> reply_of(items[i], ws[i]),
        _ => w == v,
    }
}
pub proof fn lemma_reply_wf(v: SV, w: SV, depth: nat)
    requires reply_of(v, w), shape_ok(v, depth)
    ensures wf(w, depth), wf(v, depth) ==> w == v
    decreases v
{
    match v {
        SV::Array(items) => {
            let ws = w->Array_0;
            assert forall|i: int| 0 <= i < ws.len() implies wf(ws[i], depth + 1) && (wf(items[i], depth + 1) ==> ws[i] == items[i]) by {
                lemma_reply_wf(items[i], ws[i], depth + 1);
            }
            if wf(v, depth) { assert(ws =~= items); }
        }
        _ => {}
    }
}
/// C20: a well-formed frame followed by anything decodes to that frame and leaves exactly what followed; any proper
/// prefix of it makes the decoder wait (and `decode` then leaves the buffer untouched, see its contract)
pub proof fn theorem_frame_then_rest(v: SV, rest: Seq<u8>, k: int)
    requires wf(v, 0), 0 <= k < enc(v).len()
    ensures
        dec_value(enc(v) + rest, 0) == D::Val(v, rest),
        waits(dec_value(enc(v).take(k), 0)),
{
    lemma_roundtrip(v, 0, rest);
    lemma_prefix(v, 0, k);
}


/// C22 for any encoder meeting that contract: the reply decodes as exactly one frame with nothing left over;
/// C20's "encoding then decoding a well-formed value returns the value"
pub proof fn theorem_reply_one_frame_any_sanitiser(v: SV, w: SV)
    requires reply_of(v, w), shape_ok(v, 0)
    ensures
        dec_value(enc(w), 0) == D::Val(w, Seq::<u8>::empty()),
        wf(v, 0) ==> dec_value(enc(w), 0) == D::Val(v, Seq::<u8>::empty()),
{
    lemma_reply_wf(v, w, 0);
    lemma_roundtrip(w, 0, Seq::empty());
    assert(enc(w) + Seq::<u8>::empty() =~= enc(w));
}

pub proof fn lemma_enc_all_push(s: Seq<SV>, v: SV)
    ensures enc_all(s.push(v)) == enc_all(s) + enc(v)
    decreases s.len()
{
    if s.len() == 0 {
        let t = s.push(v);
        assert(t[0] == v);
        assert(t.skip(1) =~= Seq::<SV>::empty());
        assert(enc_all(t.skip(1)) =~= Seq::<u8>::empty());
        assert(enc(v) + Seq::<u8>::empty() =~= enc(v));
        assert(enc_all(s) =~= Seq::<u8>::empty());
        assert(Seq::<u8>::empty() + enc(v) =~= enc(v));
    } else {
        assert(s.push(v).skip(1) =~= s.skip(1).push(v));
        lemma_enc_all_push(s.skip(1), v);
        assert(enc(s[0]) + (enc_all(s.skip(1)) + enc(v)) =~= (enc(s[0]) + enc_all(s.skip(1))) + enc(v));
    }
}


// ---- the meaning of `write!(vec, "<literal with at most one {}>", arg)` (assumed, see the macro at the top) ----
pub open spec fn cow_text(c: std::borrow::Cow<'_, str>) -> Seq<char> {
    match c { std::borrow::Cow::Borrowed(s) => s@, std::borrow::Cow::Owned(s) => s@ }
}
/// the bytes Display writes for a value (A-STD): UTF-8 of a text; decimal digits of an integer
pub trait DisplayBytes { spec fn display_bytes(&self) -> Seq<u8>; }
impl DisplayBytes for i64 { open spec fn display_bytes(&self) -> Seq<u8> { utf8_encode(fmt_int(*self as int)) } }
impl DisplayBytes for usize { open spec fn display_bytes(&self) -> Seq<u8> { utf8_encode(fmt_int(*self as int)) } }
impl<'a> DisplayBytes for std::borrow::Cow<'a, str> { open spec fn display_bytes(&self) -> Seq<u8> { utf8_encode(cow_text(*self)) } }
impl DisplayBytes for String { open spec fn display_bytes(&self) -> Seq<u8> { utf8_encode(self@) } }
impl<'b, T: DisplayBytes> DisplayBytes for &'b T { open spec fn display_bytes(&self) -> Seq<u8> { (**self).display_bytes() } }
pub open spec fn lit_bytes(s: Seq<char>) -> Seq<u8> { Seq::new(s.len(), |i: int| s[i] as u8) }
/// rendering of a format string with at most one `{}` placeholder (ASCII literal text)
pub open spec fn render(f: Seq<char>, arg: Seq<u8>) -> Seq<u8>
    decreases f.len()
{
    if f.len() == 0 { Seq::empty() }
    else if f.len() >= 2 && f[0] == '{' && f[1] == '}' { arg + lit_bytes(f.skip(2)) }
    else { seq![f[0] as u8] + render(f.skip(1), arg) }
}
#[verifier::external_body]
pub fn vx_write0(buf: &mut Vec<u8>, f: &'static str) -> (r: io::Result<()>)
    ensures r is Ok, final(buf)@ == old(buf)@ + lit_bytes(f@)
{ unimplemented!() }
#[verifier::external_body]
pub fn vx_write1<T: DisplayBytes>(buf: &mut Vec<u8>, f: &'static str, a: &T) -> (r: io::Result<()>)
    ensures r is Ok, final(buf)@ == old(buf)@ + render(f@, a.display_bytes())
{ unimplemented!() }
/// "<tag>{}\r\n" renders as tag, argument, CRLF
pub proof fn lemma_render_line(f: Seq<char>, tag: char, arg: Seq<u8>)
    requires f =~= seq![tag, '{', '}', '\r', '\n'], tag != '{'
    ensures render(f, arg) == seq![tag as u8] + arg + crlf()
{
    reveal_with_fuel(render, 3);
    assert(f.skip(1).skip(2) =~= seq!['\r', '\n']);
    assert(lit_bytes(f.skip(1).skip(2)) =~= crlf());
    assert(f.skip(1)[0] == '{' && f.skip(1)[1] == '}');
}
/// `s.contains(p)` / `s.replace(p, to)` for a character predicate (A-STD; str's Pattern API has no Verus specification;
/// the wrappers' bodies are the original expressions).  Existential `hit` because an exec closure's ensures is one-directional.
pub open spec fn pred_hits<F: FnMut(char) -> bool>(p: F, s: Seq<char>, hit: Seq<bool>) -> bool {
    hit.len() == s.len() && forall|i: int| #![trigger s[i]] #![trigger hit[i]] 0 <= i < hit.len() ==> p.ensures((s[i],), hit[i])
}
/// hit marks exactly the CR/LF characters of s
pub open spec fn pred_hits_crlf(s: Seq<char>, hit: Seq<bool>) -> bool {
    hit.len() == s.len() && forall|i: int| 0 <= i < s.len() ==> #[trigger] hit[i] == (s[i] == '\r' || s[i] == '\n')
}
pub open spec fn any_hit(hit: Seq<bool>) -> bool { exists|i: int| 0 <= i < hit.len() && #[trigger] hit[i] }
/// s with every hit character replaced by the text `to`
pub open spec fn subst(s: Seq<char>, hit: Seq<bool>, to: Seq<char>) -> Seq<char>
    decreases s.len()
{
    if s.len() == 0 || hit.len() != s.len() { Seq::empty() }
    else { subst(s.drop_last(), hit.drop_last(), to) + (if hit.last() { to } else { seq![s.last()] }) }
}
pub proof fn lemma_subst_line_safe(s: Seq<char>, hit: Seq<bool>, to: Seq<char>)
    requires
        hit.len() == s.len(), line_safe(to),
        forall|i: int| 0 <= i < s.len() && !hit[i] ==> s[i] != '\r' && s[i] != '\n',
    ensures line_safe(subst(s, hit, to))
    decreases s.len()
{
    if s.len() > 0 {
        lemma_subst_line_safe(s.drop_last(), hit.drop_last(), to);
        let a = subst(s.drop_last(), hit.drop_last(), to);
        let b = if hit.last() { to } else { seq![s.last()] };
        assert forall|i: int| 0 <= i < (a + b).len() implies (a + b)[i] != '\r' && (a + b)[i] != '\n' by {
            if i >= a.len() { assert((a + b)[i] == b[i - a.len()]); if !hit.last() { assert(!hit[s.len() - 1]); } }
        }
    }
}
#[verifier::external_body]
pub fn str_contains_pred<F: FnMut(char) -> bool>(s: &str, p: F) -> (r: bool)
    requires forall|c: char| p.requires((c,))
    ensures exists|hit: Seq<bool>| #[trigger] pred_hits(p, s@, hit) && r == any_hit(hit)
{ s.contains(p) }
#[verifier::external_body]
pub fn str_replace_pred<F: FnMut(char) -> bool>(s: &str, p: F, to: &str) -> (r: String)
    requires forall|c: char| p.requires((c,))
    ensures exists|hit: Seq<bool>| #[trigger] pred_hits(p, s@, hit) && r@ == subst(s@, hit, to@)
{ s.replace(p, to) }

/// "-1" is the decimal Display of -1 (A-STD)
#[verifier::external_body]
pub proof fn axiom_minus_one()
    ensures utf8_encode(fmt_int(-1)) == seq![45u8, 49u8]
{}

impl RespValue {
//@fn RespValue::line_safe ret=r props=C20,C22
//@ensures
        line_safe(cow_text(r)),                                 //#result_is_one_line
        line_safe(s@) ==> cow_text(r) == s@,                    //#clean_text_unchanged
//@replace "s.contains(" => "str_contains_pred(s, " :: str::contains(Pattern) has no Verus specification; wrapper body is the original expression
//@replace "s.replace(" => "str_replace_pred(s, " :: str::replace(Pattern, &str) has no Verus specification; wrapper body is the original expression
//@closure str_contains_pred#1 (c: char) -> (b: bool) ensures b == (@BODY)
//@closure str_replace_pred#1 (c: char) -> (b: bool) ensures b == (@BODY)
//@atstart
        proof {
            // the replacement text is a literal: Verus needs its characters revealed (a handful of plausible ones)
            reveal_strlit(" "); reveal_strlit("_"); reveal_strlit("?"); reveal_strlit(""); reveal_strlit("."); reveal_strlit("-"); reveal_strlit("  "); reveal_strlit("\\n");
            assert forall|hit: Seq<bool>, to: Seq<char>| pred_hits_crlf(s@, hit) && line_safe(to) implies line_safe(#[trigger] subst(s@, hit, to)) by {
                lemma_subst_line_safe(s@, hit, to);
            }
        }
//@end

//@fn RespValue::encode ret=r props=C20,C22
//@ensures
        r is Ok,                                                                                                //#never_fails
        exists|w: SV| reply_of(sv(*self), w) && final(buf)@ == old(buf)@ + enc(w),                              //#writes_a_reply_encoding
//@decreases
        self
//@replace "write!(buf, \"+{}\r\n\", Self::line_safe(s))?;" => "let t__ = Self::line_safe(s); write!(buf, \"+{}\r\n\", t__)?;" :: names the argument so that ghost text can mention it (evaluation order unchanged)
//@replace "write!(buf, \"-{}\r\n\", Self::line_safe(e))?;" => "let t__ = Self::line_safe(e); write!(buf, \"-{}\r\n\", t__)?;" :: names the argument so that ghost text can mention it (evaluation order unchanged)
//@atstart
        let ghost mut w: SV = SV::Null;
        let ghost mut ws: Seq<SV> = Seq::empty();
        let ghost b0 = buf@;
//@after "write!(buf, \"+{}\r\n\", t__)?;"
                proof {
                    reveal_strlit("+{}\r\n");
                    lemma_render_line("+{}\r\n"@, '+', utf8_encode(cow_text(t__)));
                    w = SV::Simple(cow_text(t__));
                    assert(reply_of(sv(*self), w) && buf@ =~= b0 + enc(w));
                }
//@after "write!(buf, \"-{}\r\n\", t__)?;"
                proof {
                    reveal_strlit("-{}\r\n");
                    lemma_render_line("-{}\r\n"@, '-', utf8_encode(cow_text(t__)));
                    w = SV::Error(cow_text(t__));
                    assert(reply_of(sv(*self), w) && buf@ =~= b0 + enc(w));
                }
//@after "write!(buf, \":{}\r\n\", i)?;"
                proof {
                    reveal_strlit(":{}\r\n");
                    lemma_render_line(":{}\r\n"@, ':', utf8_encode(fmt_int(*i as int)));
                    w = SV::Int(*i);
                    assert(reply_of(sv(*self), w) && buf@ =~= b0 + enc(w));
                }
//@after "write!(buf, \"$-1\r\n\")?;"
                proof {
                    reveal_strlit("$-1\r\n");
                    axiom_minus_one();
                    assert(lit_bytes("$-1\r\n"@) =~= text_line(36u8, fmt_int(-1)));
                    w = SV::Bulk(None);
                    assert(reply_of(sv(*self), w) && buf@ =~= b0 + enc(w));
                }
//@after "write!(buf, \"${}\r\n\", data.len())?;"
                proof {
                    reveal_strlit("${}\r\n");
                    lemma_render_line("${}\r\n"@, '$', utf8_encode(fmt_int(data@.len() as int)));
                }
//@after "write!(buf, \"\r\n\")?;"
                proof {
                    reveal_strlit("\r\n");
                    assert(lit_bytes("\r\n"@) =~= crlf());
                    w = SV::Bulk(Some(data@));
                    assert(buf@ =~= b0 + enc(w));
                }
//@after "write!(buf, \"*{}\r\n\", items.len())?;"
                let ghost pre = buf@;
                proof {
                    reveal_strlit("*{}\r\n");
                    lemma_render_line("*{}\r\n"@, '*', utf8_encode(fmt_int(items@.len() as int)));
                    assert(pre + enc_all(ws) =~= pre);
                }
//@loop 1 iter=it
                    invariant
                        self matches RespValue::Array(its) && its == items,
                        pre == b0 + text_line(42u8, fmt_int(items@.len() as int)),
                        it.seq().len() == items@.len(),
                        ws.len() == it.index(),
                        forall|j: int| 0 <= j < ws.len() ==> reply_of(sv(items@[j]), #[trigger] ws[j]),      //#elements_are_replies
                        buf@ == pre + enc_all(ws),                                                    //#elements_written
//@before "item.encode(buf)?;"
                    let ghost bi = buf@;
//@after "item.encode(buf)?;"
                    proof {
                        let wi = choose|wi: SV| reply_of(sv(*item), wi) && buf@ == bi + enc(wi);
                        lemma_enc_all_push(ws, wi);
                        ws = ws.push(wi);
                        assert(buf@ =~= pre + enc_all(ws));
                    }
//@after "write!(buf, \"_\r\n\")?;"
                proof {
                    reveal_strlit("_\r\n");
                    assert(lit_bytes("_\r\n"@) =~= seq![95u8, 13u8, 10u8]);
                    w = SV::Null;
                    assert(reply_of(sv(*self), w) && buf@ =~= b0 + enc(w));
                }
//@before "Ok(())"
        proof {
            if self is Array {
                w = SV::Array(ws);
                assert(sv(*self)->Array_0.len() == ws.len());
                assert(reply_of(sv(*self), w));
                assert(buf@ =~= b0 + enc(w));
            }
            assert(reply_of(sv(*self), w) && buf@ == b0 + enc(w));
        }
//@end
}
}
fn main(){}
