// =====================================================================
// the encoder as a mathematical function, and the framing theorems (C20, C22)
// =====================================================================
/// UTF-8 encoding of a character sequence and Display of an integer: uninterpreted, with the facts used (A-STD)
pub uninterp spec fn utf8_encode(cs: Seq<char>) -> Seq<u8>;
pub uninterp spec fn fmt_int(i: int) -> Seq<char>;
pub open spec fn line_safe(cs: Seq<char>) -> bool { forall|i: int| 0 <= i < cs.len() ==> cs[i] != '\r' && cs[i] != '\n' }
pub open spec fn no_cr_lf(b: Seq<u8>) -> bool { forall|i: int| 0 <= i < b.len() ==> b[i] != 13u8 && b[i] != 10u8 }
#[verifier::external_body]
pub proof fn axiom_utf8(cs: Seq<char>)
    ensures
        utf8_decode(utf8_encode(cs)) == Some(cs),
        line_safe(cs) ==> no_cr_lf(utf8_encode(cs)),
{}
#[verifier::external_body]
pub proof fn axiom_fmt_int(i: int)
    ensures
        line_safe(fmt_int(i)),
        i64::MIN <= i <= i64::MAX ==> parse_spec::<i64>(fmt_int(i)) == Some(i as i64),
        0 <= i <= usize::MAX ==> parse_spec::<usize>(fmt_int(i)) == Some(i as usize),
{}

pub open spec fn crlf() -> Seq<u8> { seq![13u8, 10u8] }
pub open spec fn text_line(tag: u8, cs: Seq<char>) -> Seq<u8> { seq![tag] + utf8_encode(cs) + crlf() }

pub open spec fn enc(v: SV) -> Seq<u8>
    decreases v
{
    match v {
        SV::Simple(cs) => text_line(43u8, cs),
        SV::Error(cs) => text_line(45u8, cs),
        SV::Int(i) => text_line(58u8, fmt_int(i as int)),
        SV::Bulk(None) => text_line(36u8, fmt_int(-1)),
        SV::Bulk(Some(d)) => text_line(36u8, fmt_int(d.len() as int)) + d + crlf(),
        SV::Array(items) => text_line(42u8, fmt_int(items.len() as int)) + enc_all(items),
        SV::Null => seq![95u8, 13u8, 10u8],
    }
}
pub open spec fn enc_all(items: Seq<SV>) -> Seq<u8>
    decreases items
{
    if items.len() == 0 { Seq::empty() } else { enc(items[0]) + enc_all(items.skip(1)) }
}
/// well-formed at nesting level `depth`: one-line texts, lengths a real buffer can have, nesting within the decoder's limit
pub open spec fn wf(v: SV, depth: nat) -> bool
    decreases v
{
    match v {
        SV::Simple(cs) => line_safe(cs),
        SV::Error(cs) => line_safe(cs),
        SV::Int(i) => true,
        SV::Bulk(None) => true,
        SV::Bulk(Some(d)) => d.len() <= i64::MAX,
        SV::Array(items) => depth < MAXD() && items.len() <= usize::MAX
            && forall|i: int| 0 <= i < items.len() ==> wf(items[i], depth + 1),
        SV::Null => true,
    }
}

pub proof fn lemma_text_line(tag: u8, cs: Seq<char>, rest: Seq<u8>)
    requires line_safe(cs), tag != 13u8
    ensures
        line(text_line(tag, cs) + rest) == Some((seq![tag] + utf8_encode(cs), rest)),
        dec_text(seq![tag] + utf8_encode(cs)) == Some(cs),
        (text_line(tag, cs) + rest).len() > 0 && (text_line(tag, cs) + rest)[0] == tag,
{
    axiom_utf8(cs);
    let b = utf8_encode(cs);
    let s = text_line(tag, cs) + rest;
    let p = 1 + b.len();
    assert(s[p] == 13u8 && s[p + 1] == 10u8);
    assert(crlf_at(s, p));
    assert forall|j: int| 0 <= j < p implies !crlf_at(s, j) by {
        if j >= 1 { assert(s[j] == b[j - 1]); }
    }
    assert(first_crlf(s, p));
    lemma_first_crlf_exists(s, p);
    lemma_first_crlf_unique(s, p, line_end(s));
    assert(s.subrange(0, p) =~= seq![tag] + b);
    assert(s.skip(p + 2) =~= rest);
    assert((seq![tag] + b).skip(1) =~= b);
}

pub proof fn lemma_roundtrip(v: SV, depth: nat, rest: Seq<u8>)
    requires wf(v, depth)
    ensures dec_value(enc(v) + rest, depth) == D::Val(v, rest)
    decreases v, 0nat
{
    let s = enc(v) + rest;
    match v {
        SV::Simple(cs) => { lemma_text_line(43u8, cs, rest); }
        SV::Error(cs) => { lemma_text_line(45u8, cs, rest); }
        SV::Int(i) => { axiom_fmt_int(i as int); lemma_text_line(58u8, fmt_int(i as int), rest); }
        SV::Bulk(None) => { axiom_fmt_int(-1); lemma_text_line(36u8, fmt_int(-1), rest); }
        SV::Bulk(Some(d)) => {
            let n = d.len() as int;
            axiom_fmt_int(n);
            let tail = d + crlf() + rest;
            lemma_text_line(36u8, fmt_int(n), tail);
            assert(s =~= text_line(36u8, fmt_int(n)) + tail);
            assert(tail.subrange(0, n) =~= d);
            assert(tail.skip(n + 2) =~= rest);
            assert(tail[n] == 13u8 && tail[n + 1] == 10u8);
        }
        SV::Array(items) => {
            let n = items.len() as int;
            axiom_fmt_int(n);
            let tail = enc_all(items) + rest;
            lemma_text_line(42u8, fmt_int(n), tail);
            assert(s =~= text_line(42u8, fmt_int(n)) + tail);
            assert(items.skip(0) =~= items);
            lemma_roundtrip_elems(items, 0, depth, rest, Seq::empty());
            assert(Seq::<SV>::empty() + items =~= items);
        }
        SV::Null => {
            assert(s[1] == 13u8 && s[2] == 10u8);
            assert(first_crlf(s, 1));
            lemma_first_crlf_exists(s, 1);
            lemma_first_crlf_unique(s, 1, line_end(s));
            assert(s.subrange(0, 1) =~= seq![95u8]);
            assert(s.skip(3) =~= rest);
        }
    }
}

pub proof fn lemma_roundtrip_elems(items: Seq<SV>, k: nat, depth: nat, rest: Seq<u8>, acc: Seq<SV>)
    requires
        depth < MAXD(), k <= items.len(),
        forall|i: int| 0 <= i < items.len() ==> wf(items[i], depth + 1),
    ensures
        dec_elems(enc_all(items.skip(k as int)) + rest, depth, (items.len() - k) as nat, acc)
            == D::Val(SV::Array(acc + items.skip(k as int)), rest)
    decreases items, items.len() - k
{
    let tl = items.skip(k as int);
    if k == items.len() {
        assert(tl =~= Seq::<SV>::empty());
        assert(enc_all(tl) + rest =~= rest);
        assert(acc + tl =~= acc);
    } else {
        let v = items[k as int];
        assert(tl[0] == v);
        assert(tl.skip(1) =~= items.skip(k + 1));
        let rest2 = enc_all(items.skip(k + 1)) + rest;
        assert(enc_all(tl) + rest =~= enc(v) + rest2);
        lemma_roundtrip(v, depth + 1, rest2);
        lemma_roundtrip_elems(items, k + 1, depth, rest, acc.push(v));
        assert(acc.push(v) + items.skip(k + 1) =~= acc + tl);
    }
}
