// Kani unit `resp` (C20, C21, C22).  `resp.rs` below is /repo/src/protocol/resp.rs copied
// verbatim on every run with the harness module of resp_proofs.rs appended as a child module (so
// that the private helpers are reachable); nothing in the file's own text is changed.
#![allow(dead_code, unused_imports)]
pub mod resp;
