//@include_file src/protocol/resp.rs
//@append resp_proofs.in
