//@unit columnar
//@properties C30
//@source col src/graph/storage/columnar.rs
//@source prop src/graph/property.rs
//@rules D2 R3 R5 R2
#![feature(allocator_api)]
#![allow(unused_imports, unused_variables, unused_mut, dead_code)]
use vstd::prelude::*;
use std::collections::HashMap;
use vstd::std_specs::iter::IteratorSpec;
verus!{
// A-ARCH: 64-bit target (usize is 8 bytes), as on every platform the server is built for
global size_of usize == 8;
//@include common/std_extra.rs
// =====================================================================
// bitmap vocabulary and lemmas (proof-only)
// =====================================================================
pub open spec fn bit_at(words: Seq<u64>, slot: int) -> bool {
    0 <= slot && slot / 64 < words.len() && ((words[slot / 64] >> ((slot % 64) as u64)) & 1u64) == 1u64
}
/// number of present slots among the first n
pub open spec fn count_bits(words: Seq<u64>, n: int) -> nat
    decreases n
{
    if n <= 0 { 0 } else { count_bits(words, n - 1) + if bit_at(words, n - 1) { 1nat } else { 0nat } }
}
pub proof fn lemma_count_clear(a: Seq<u64>, b: Seq<u64>, slot: int, n: int)
    requires
        0 <= slot,
        forall|s: int| 0 <= s ==> #[trigger] bit_at(b, s) == (s != slot && bit_at(a, s)),
        bit_at(a, slot),
    ensures
        count_bits(b, n) == if slot < n { (count_bits(a, n) - 1) as nat } else { count_bits(a, n) },
        slot < n ==> count_bits(a, n) >= 1,
    decreases n
{
    if n <= 0 {} else { lemma_count_clear(a, b, slot, n - 1); }
}
pub proof fn lemma_count_set(a: Seq<u64>, b: Seq<u64>, slot: int, n: int)
    requires
        0 <= slot,
        forall|s: int| 0 <= s ==> #[trigger] bit_at(b, s) == (s == slot || bit_at(a, s)),
        !bit_at(a, slot),
    ensures
        count_bits(b, n) == if slot < n { count_bits(a, n) + 1 } else { count_bits(a, n) },
    decreases n
{
    if n <= 0 {} else { lemma_count_set(a, b, slot, n - 1); }
}
pub proof fn lemma_count_bound(a: Seq<u64>, n: int)
    ensures count_bits(a, n) <= if n < 0 { 0 } else { n },
    decreases n
{
    if n <= 0 {} else { lemma_count_bound(a, n - 1); }
}
/// bitmaps that agree below n have the same count below n
pub proof fn lemma_count_ext(a: Seq<u64>, b: Seq<u64>, n: int)
    requires forall|s: int| 0 <= s < n ==> #[trigger] bit_at(b, s) == bit_at(a, s),
    ensures count_bits(b, n) == count_bits(a, n),
    decreases n
{
    if n <= 0 {} else { lemma_count_ext(a, b, n - 1); }
}
/// no bit set at or above m: counting further adds nothing
pub proof fn lemma_count_tail(a: Seq<u64>, m: int, n: int)
    requires m <= n, forall|s: int| m <= s ==> !#[trigger] bit_at(a, s),
    ensures count_bits(a, n) == count_bits(a, m),
    decreases n - m
{
    if n <= m || n <= 0 {} else { lemma_count_tail(a, m, n - 1); }
}
pub proof fn lemma_count_zero(a: Seq<u64>, n: int)
    requires forall|s: int| 0 <= s ==> !#[trigger] bit_at(a, s),
    ensures count_bits(a, n) == 0,
    decreases n
{
    if n <= 0 {} else { lemma_count_zero(a, n - 1); }
}
/// shifting every bit by `shift` preserves the count
pub proof fn lemma_count_shift(a: Seq<u64>, b: Seq<u64>, shift: int, n: int)
    requires
        0 <= shift, 0 <= n,
        forall|s: int| 0 <= s < n ==> #[trigger] bit_at(b, s + shift) == bit_at(a, s),
        forall|s: int| 0 <= s < shift ==> !#[trigger] bit_at(b, s),
    ensures count_bits(b, n + shift) == count_bits(a, n),
    decreases n
{
    if n <= 0 {
        if shift > 0 { lemma_count_zero_prefix(b, shift); }
    } else {
        lemma_count_shift(a, b, shift, n - 1);
        assert(bit_at(b, (n - 1) + shift) == bit_at(a, n - 1));
    }
}
pub proof fn lemma_count_zero_prefix(a: Seq<u64>, n: int)
    requires forall|s: int| 0 <= s < n ==> !#[trigger] bit_at(a, s),
    ensures count_bits(a, n) == 0,
    decreases n
{
    if n <= 0 {} else { lemma_count_zero_prefix(a, n - 1); }
}
/// A-CLONE as a predicate: `clone` returns an equal value (true of i64, f64, bool, String; a
/// precondition of the generic functions that clone, discharged at each instantiation)
pub open spec fn clone_is_eq<T: Clone>() -> bool {
    forall|a: T, b: T| #[trigger] cloned::<T>(a, b) ==> a == b
}
/// growing or shrinking the word vector with zero words (Vec::resize(k, 0)) changes no bit, provided no bit
/// was set at or above `n` and the new length still covers `n` bits
pub proof fn lemma_resize_keeps_bits(a: Seq<u64>, b: Seq<u64>, n: int)
    requires
        0 <= n, n <= a.len() * 64, n <= b.len() * 64,
        forall|s: int| n <= s ==> !#[trigger] bit_at(a, s),
        forall|i: int| 0 <= i < a.len() && i < b.len() ==> a[i] == b[i],
        forall|i: int| a.len() <= i < b.len() ==> b[i] == 0u64,
    ensures forall|s: int| #[trigger] bit_at(b, s) == bit_at(a, s),
{
    assert forall|s: int| #[trigger] bit_at(b, s) == bit_at(a, s) by {
        if 0 <= s {
            let w = s / 64;
            let k = (s % 64) as u64;
            if s < n {
                assert(w < a.len() && w < b.len());
            } else {
                assert(!bit_at(a, s));
                if w < b.len() {
                    if w < a.len() { assert(a[w] == b[w]); }
                    else { assert(b[w] == 0u64); assert(((0u64 >> k) & 1u64) == 0u64) by (bit_vector); }
                }
            }
        }
    }
}
/// an all-zero word vector has no bit set
pub proof fn lemma_zero_words_no_bits(a: Seq<u64>)
    requires forall|i: int| 0 <= i < a.len() ==> a[i] == 0u64,
    ensures forall|s: int| !#[trigger] bit_at(a, s),
{
    assert forall|s: int| !#[trigger] bit_at(a, s) by {
        if 0 <= s && s / 64 < a.len() {
            let k = (s % 64) as u64;
            assert(((0u64 >> k) & 1u64) == 0u64) by (bit_vector);
        }
    }
}

// =====================================================================
// prelude (assumed)
// =====================================================================
// R4: the three bit helpers are the real text of columnar.rs (below, `//@fn bit`, `set_bit`, `clear_bit`),
// with one rewrite: `|w| w & (..)` -> `|w| *w & (..)` (Verus panics on a bit operator whose left operand is a
// reference).  Assumed: the contract of Option::is_some_and (common/std_extra.rs); proved by (bit_vector): the word facts.
pub broadcast proof fn lemma_mask_test(w: u64, k: u64)
    requires k < 64
    ensures (#[trigger] (w & (1u64 << k)) != 0) == (((w >> k) & 1u64) == 1u64)
{
    assert(k < 64 ==> (((w & (1u64 << k)) != 0) == (((w >> k) & 1u64) == 1u64))) by (bit_vector);
}
pub broadcast proof fn lemma_or_mask(v: u64, k: u64, j: u64)
    requires k < 64, j < 64
    ensures ((#[trigger] (((v | (1u64 << k)) >> j) & 1u64)) == 1u64) == (j == k || ((v >> j) & 1u64) == 1u64)
{
    assert(k < 64 && j < 64 ==> (((((v | (1u64 << k)) >> j) & 1u64) == 1u64) == (j == k || ((v >> j) & 1u64) == 1u64))) by (bit_vector);
}
pub broadcast proof fn lemma_andnot_mask(v: u64, k: u64, j: u64)
    requires k < 64, j < 64
    ensures ((#[trigger] (((v & !(1u64 << k)) >> j) & 1u64)) == 1u64) == (j != k && ((v >> j) & 1u64) == 1u64)
{
    assert(k < 64 && j < 64 ==> (((((v & !(1u64 << k)) >> j) & 1u64) == 1u64) == (j != k && ((v >> j) & 1u64) == 1u64))) by (bit_vector);
}

//@fn bit ret=r
//@replace "|w| w & (" => "|w| *w & (" :: R4: Verus panics on a bit operator whose left operand is a reference; the explicit dereference denotes the same value
//@ensures
        r == bit_at(words@, slot as int),       //#reads_the_slot
//@closure is_some_and#1 (w: &u64) -> (b: bool) ensures b == ((*w & (1u64 << ((slot % 64) as u64))) != 0)
//@atstart
    broadcast use lemma_mask_test;
//@end

//@fn set_bit
//@ensures
        final(words)@.len() == old(words)@.len(),       //#keeps_length
        forall|s: int| 0 <= s ==> #[trigger] bit_at(final(words)@, s) == ((s == slot && slot / 64 < old(words)@.len()) || bit_at(old(words)@, s)),      //#sets_exactly_the_slot
//@atstart
    broadcast use lemma_or_mask;
//@end

//@fn clear_bit
//@ensures
        final(words)@.len() == old(words)@.len(),       //#keeps_length
        forall|s: int| 0 <= s ==> #[trigger] bit_at(final(words)@, s) == (s != slot && bit_at(old(words)@, s)),     //#clears_exactly_the_slot
//@atstart
    broadcast use lemma_andnot_mask;
//@end

pub assume_specification[ usize::div_ceil ](a: usize, b: usize) -> (r: usize)
    requires b != 0,
    ensures r as int == (a as int + b as int - 1) / (b as int),
;
pub assume_specification[ usize::is_power_of_two ](a: usize) -> (r: bool);
// ASSUMED (A-STD): Iterator::min / max over the keys of a map: None iff there is no key, else a least /
// greatest key (both consume the iterator)
// Verus cannot attach a specification to a *provided* trait method (Iterator::min / max on Keys), so the two
// calls are routed through these wrappers whose bodies are exactly the original calls (rewrite F, logged).
#[verifier::external_body]
pub fn iter_min<'a, V>(it: std::collections::hash_map::Keys<'a, usize, V>) -> (r: Option<&'a usize>)
    ensures
        r.is_none() <==> vstd::std_specs::iter::IteratorSpec::remaining(&it).len() == 0,
        r matches Some(x) ==> vstd::std_specs::iter::IteratorSpec::remaining(&it).unref().to_set().contains(*x)
            && forall|k: usize| #[trigger] vstd::std_specs::iter::IteratorSpec::remaining(&it).unref().to_set().contains(k) ==> *x <= k,
{ it.min() }
#[verifier::external_body]
pub fn iter_max<'a, V>(it: std::collections::hash_map::Keys<'a, usize, V>) -> (r: Option<&'a usize>)
    ensures
        r.is_none() <==> vstd::std_specs::iter::IteratorSpec::remaining(&it).len() == 0,
        r matches Some(x) ==> vstd::std_specs::iter::IteratorSpec::remaining(&it).unref().to_set().contains(*x)
            && forall|k: usize| #[trigger] vstd::std_specs::iter::IteratorSpec::remaining(&it).unref().to_set().contains(k) ==> *x >= k,
{ it.max() }
// A-VECLEN: a Vec never holds more than isize::MAX elements (language guarantee vstd does not export)
#[verifier::external_body]
pub proof fn axiom_vec_len<T>(v: Vec<T>)
    ensures v@.len() <= isize::MAX as nat
{}

// =====================================================================
// extracted from /repo/src/graph/storage/columnar.rs : ColumnData<T>
// =====================================================================
//@enum ColumnData
//@item const PROMOTE_MIN_ENTRIES

//@fn dense_is_smaller ret=r
//@requires
        elem_bytes <= 0xffff_ffff,
//@ensures
        span == 0 || entries == 0 ==> !r,     //#empty_is_never_dense
//@end

/// R13 helpers (A-STD): a snapshot of a map's keys, each key once; the value of a key known to be present
#[verifier::external_body]
pub fn map_keys_snapshot<K: Copy + Eq + std::hash::Hash, V>(m: &HashMap<K, V>) -> (r: Vec<K>)
    ensures
        forall|i: int| 0 <= i < r@.len() ==> m@.contains_key(#[trigger] r@[i]),
        forall|i: int, j: int| 0 <= i < j < r@.len() ==> r@[i] != r@[j],
        forall|k: K| m@.contains_key(k) ==> r@.contains(k),
{ m.keys().copied().collect() }
#[verifier::external_body]
pub fn map_get_present<'a, K: Eq + std::hash::Hash, V>(m: &'a HashMap<K, V>, k: &K) -> (r: &'a V)
    requires m@.contains_key(*k)
    ensures *r == m@[*k]
{ m.get(k).unwrap() }
pub proof fn lemma_shown_mono<T>(s: Seq<(usize, T)>, p: (usize, T))
    ensures
        forall|j: usize| was_shown(s, j) ==> #[trigger] was_shown(s.push(p), j),
        was_shown(s.push(p), p.0),
{
    assert forall|j: usize| was_shown(s, j) implies #[trigger] was_shown(s.push(p), j) by {
        let i = choose|i: int| 0 <= i < s.len() && (#[trigger] s[i]).0 == j;
        assert(s.push(p)[i].0 == j);
    }
    assert(s.push(p)[s.len() as int].0 == p.0);
}
/// the consumer of for_each (the real parameter is an FnMut closure taken by value; see the //@replace lines of for_each)
pub trait RowVisitor<T> {
    spec fn seen(&self) -> Seq<(usize, T)>;
    fn call(&mut self, idx: usize, v: &T)
        ensures final(self).seen() == old(self).seen().push((idx, *v));
}
/// the calls made since `before`
pub open spec fn shown_since<T>(before: Seq<(usize, T)>, now: Seq<(usize, T)>) -> Seq<(usize, T)> { now.skip(before.len() as int) }
pub open spec fn was_shown<T>(s: Seq<(usize, T)>, j: usize) -> bool { exists|i: int| 0 <= i < s.len() && (#[trigger] s[i]).0 == j }

impl<T: Clone + Default> ColumnData<T> {
    /// representation invariant
    pub open spec fn wf(&self) -> bool {
        match self {
            ColumnData::Sparse(m) => forall|k: usize| m@.contains_key(k) ==> k < usize::MAX,
            ColumnData::Dense { base, values, present, count } =>
                *base + values@.len() <= usize::MAX
                && *count == count_bits(present@, values@.len() as int)
                && present@.len() * 64 >= values@.len()
                && (forall|s: int| values@.len() <= s ==> !#[trigger] bit_at(present@, s)),
        }
    }
    /// abstract view, stated pointwise: the value stored for row i, if any
    pub open spec fn at(&self, i: usize) -> Option<T> {
        match self {
            ColumnData::Sparse(m) => if m@.contains_key(i) { Some(m@[i]) } else { None },
            ColumnData::Dense { base, values, present, count } =>
                if *base <= i && i - *base < values@.len() && bit_at(present@, (i - *base) as int) {
                    Some(values@[(i - *base) as int])
                } else { None },
        }
    }
    /// number of stored rows
    pub open spec fn size(&self) -> nat {
        match self {
            ColumnData::Sparse(m) => m@.dom().len(),
            ColumnData::Dense { base, values, present, count } => count_bits(present@, values@.len() as int),
        }
    }

//@fn ColumnData::get ret=r
//@requires
        self.wf(),
//@ensures
        r.is_some() == self.at(idx).is_some(),                   //#some_iff_stored
        r.is_some() ==> *r.unwrap() == self.at(idx).unwrap(),    //#returns_stored_value
//@end

//@fn ColumnData::has ret=r
//@requires
        self.wf(),
//@ensures
        r == self.at(idx).is_some(),   //#has_iff_stored
//@end

//@fn ColumnData::len ret=r
//@requires
        self.wf(),
//@ensures
        r == self.size(),   //#len_is_size
//@end

//@fn ColumnData::for_each
//@replace "mut visit: impl FnMut(usize, &T)" => "visit: &mut impl RowVisitor<T>" :: the FnMut visitor is taken by value and its effect lives in what it captured; passed by &mut as a trait with a ghost record of its calls, so that the contract can say which rows it was shown
//@replaceall "visit(" => "visit.call(" :: same
//@requires
        self.wf(),
//@ensures
        shown_since(old(visit).seen(), final(visit).seen()).len() + old(visit).seen().len() == final(visit).seen().len()
            && final(visit).seen().take(old(visit).seen().len() as int) == old(visit).seen(),      //#earlier_calls_untouched
        forall|i: int| 0 <= i < shown_since(old(visit).seen(), final(visit).seen()).len() ==>
            self.at((#[trigger] shown_since(old(visit).seen(), final(visit).seen())[i]).0) == Some(shown_since(old(visit).seen(), final(visit).seen())[i].1),      //#shows_only_stored_rows_with_their_values
        forall|j: usize| (#[trigger] self.at(j)) is Some ==> was_shown(shown_since(old(visit).seen(), final(visit).seen()), j),      //#shows_every_stored_row
        forall|a: int, b: int| 0 <= a < b < shown_since(old(visit).seen(), final(visit).seen()).len() ==>
            (#[trigger] shown_since(old(visit).seen(), final(visit).seen())[a]).0 != (#[trigger] shown_since(old(visit).seen(), final(visit).seen())[b]).0,      //#shows_no_row_twice
//@atstart
        let ghost seen0 = visit.seen();
//@loop 1 keys=ks
                invariant
                    self.wf(), *self == ColumnData::Sparse(*m), seen0 == old(visit).seen(),
                    0 <= ks_i <= ks@.len(),
                    forall|i: int| 0 <= i < ks@.len() ==> m@.contains_key(#[trigger] ks@[i]),
                    forall|i: int, j: int| 0 <= i < j < ks@.len() ==> ks@[i] != ks@[j],
                    forall|k: usize| m@.contains_key(k) ==> ks@.contains(k),
                    visit.seen().len() == seen0.len() + ks_i,      //#one_call_per_key_so_far
                    visit.seen().take(seen0.len() as int) == seen0,      //#earlier_calls_untouched
                    forall|i: int| 0 <= i < ks_i ==> (#[trigger] visit.seen()[seen0.len() + i]) == (ks@[i], m@[ks@[i]]),      //#shown_the_entries_of_the_keys_so_far
                decreases ks@.len() - ks_i
//@loop 2
                invariant
                    self.wf(), seen0 == old(visit).seen(),
                    self matches ColumnData::Dense { base: b2, values: v2, present: p2, .. } && b2 == base && v2 == values && p2 == present,
                    visit.seen().len() >= seen0.len(),
                    visit.seen().take(seen0.len() as int) == seen0,      //#earlier_calls_untouched
                    forall|i: int| 0 <= i < visit.seen().len() - seen0.len() ==> ({
                        let e = #[trigger] visit.seen()[seen0.len() + i];
                        *base <= e.0 && e.0 - *base < slot && bit_at(present@, (e.0 - *base) as int) && e.1 == values@[(e.0 - *base) as int] }),      //#shown_only_set_slots_below
                    forall|s: int| 0 <= s < slot && bit_at(present@, s) ==> was_shown(shown_since(seen0, visit.seen()), (*base + s) as usize),      //#shown_every_set_slot_below
                    forall|a: int, b: int| 0 <= a < b < visit.seen().len() - seen0.len() ==>
                        (#[trigger] visit.seen()[seen0.len() + a]).0 < (#[trigger] visit.seen()[seen0.len() + b]).0,      //#shown_in_increasing_row_order
//@loopstart 2
                    let ghost s_before = shown_since(seen0, visit.seen());
//@loopend 2
                    proof {
                        if bit_at(present@, slot as int) {
                            let p = ((*base + slot) as usize, values@[slot as int]);
                            assert(shown_since(seen0, visit.seen()) =~= s_before.push(p));
                            lemma_shown_mono(s_before, p);
                        }
                    }
//@afterloop 1
                proof {
                    let sh = shown_since(seen0, visit.seen());
                    assert forall|i: int| 0 <= i < sh.len() implies self.at((#[trigger] sh[i]).0) == Some(sh[i].1) by {
                        assert(sh[i] == visit.seen()[seen0.len() + i]);
                    }
                    assert forall|j: usize| (#[trigger] self.at(j)) is Some implies was_shown(sh, j) by {
                        assert(ks@.contains(j));
                        let i = choose|i: int| 0 <= i < ks@.len() && ks@[i] == j;
                        assert(sh[i] == visit.seen()[seen0.len() + i]);
                    }
                    assert forall|a: int, b: int| 0 <= a < b < sh.len() implies (#[trigger] sh[a]).0 != (#[trigger] sh[b]).0 by {
                        assert(sh[a] == visit.seen()[seen0.len() + a]);
                        assert(sh[b] == visit.seen()[seen0.len() + b]);
                    }
                }
//@afterloop 2
                proof {
                    let sh = shown_since(seen0, visit.seen());
                    assert forall|i: int| 0 <= i < sh.len() implies self.at((#[trigger] sh[i]).0) == Some(sh[i].1) by {
                        assert(sh[i] == visit.seen()[seen0.len() + i]);
                    }
                    assert forall|j: usize| (#[trigger] self.at(j)) is Some implies was_shown(sh, j) by {
                        let sl = (j - *base) as int;
                        assert(bit_at(present@, sl));
                        assert((*base + sl) as usize == j);
                    }
                    assert forall|a: int, b: int| 0 <= a < b < sh.len() implies (#[trigger] sh[a]).0 != (#[trigger] sh[b]).0 by {
                        assert(sh[a] == visit.seen()[seen0.len() + a]);
                        assert(sh[b] == visit.seen()[seen0.len() + b]);
                    }
                }
//@end

//@fn ColumnData::remove
//@requires
        old(self).wf(),
//@ensures
        final(self).wf(),                                                                                  //#keeps_wf
        forall|j: usize| #[trigger] final(self).at(j) == if j == idx { None } else { old(self).at(j) },    //#view_is_map_remove
//@before "clear_bit(present, slot);"
                        let ghost p0 = present@;
//@after "clear_bit(present, slot);"
                        proof { lemma_count_clear(p0, present@, slot as int, values@.len() as int); }
//@end

//@fn ColumnData::rebase noisolation
//@requires
        old(self).wf(),
        clone_is_eq::<T>(),
        (*old(self)) is Dense ==> new_base <= (*old(self))->base && new_span == (*old(self))->base + (*old(self))->values@.len() - new_base,
//@ensures
        final(self).wf(),                                                               //#keeps_wf
        forall|j: usize| #[trigger] final(self).at(j) == old(self).at(j),               //#view_unchanged
        (*old(self)) is Dense ==> (*final(self)) is Dense && (*final(self))->base == new_base
            && (*final(self))->values@.len() == new_span && (*final(self))->count == (*old(self))->count,   //#dense_at_new_base
        (*old(self)) is Sparse ==> *final(self) == *old(self),                          //#sparse_untouched
//@beforeloop 1
        proof { lemma_zero_words_no_bits(next_present@); }
        let ghost vals0 = values@;
        let ghost pres0 = present@;
        let ghost base0 = *base;
//@loop 1 iter=it
            invariant
                values@ == vals0 && present@ == pres0 && it.seq().len() == vals0.len(),        //#source_fixed
                shift + vals0.len() == new_span && new_span <= usize::MAX,                                   //#span_arith
                next_values@.len() == new_span && next_present@.len() * 64 >= new_span,                     //#target_sizes
                forall|s: int| 0 <= s < it.index() ==> #[trigger] bit_at(next_present@, s + shift) == bit_at(pres0, s),            //#bits_copied
                forall|s: int| 0 <= s < it.index() && bit_at(pres0, s) ==> #[trigger] next_values@[s + shift] == vals0[s],       //#values_copied
                forall|t: int| (0 <= t < shift || it.index() + shift <= t) ==> !#[trigger] bit_at(next_present@, t),               //#nothing_else_set
//@before "next_values[slot + shift] = values[slot].clone();"
                let ghost np0 = next_present@;
                let ghost nv0 = next_values@;
//@after "set_bit(&mut next_present, slot + shift);"
                proof {
                    assert(it.index() == slot);
                    assert(cloned::<T>(vals0[slot as int], next_values@[slot + shift]));
                    assert(next_values@[slot + shift] == vals0[slot as int]);
                    assert(forall|k: int| 0 <= k < nv0.len() && k != slot + shift ==> next_values@[k] == nv0[k]);
                    assert forall|s: int| 0 <= s < slot + 1 implies #[trigger] bit_at(next_present@, s + shift) == bit_at(pres0, s) by {
                        if s < slot { assert(bit_at(np0, s + shift) == bit_at(pres0, s)); }
                    }
                    assert forall|s: int| 0 <= s < slot + 1 && bit_at(pres0, s) implies #[trigger] next_values@[s + shift] == vals0[s] by {
                        if s < slot { assert(nv0[s + shift] == vals0[s]); }
                    }
                }
//@before "*self = ColumnData::Dense {"
        proof {
            lemma_count_shift(pres0, next_present@, shift as int, vals0.len() as int);
        }
        let ghost nvf = next_values@;
        let ghost npf = next_present@;
//@after "*self = ColumnData::Dense {"
        proof {
            assert forall|j: usize| #[trigger] self.at(j) == old(self).at(j) by {
                if base0 <= j && j - base0 < vals0.len() {
                    let s = (j - base0) as int;
                    assert(bit_at(npf, s + shift) == bit_at(pres0, s));
                    if bit_at(pres0, s) { assert(nvf[s + shift] == vals0[s]); }
                } else if new_base <= j && j - new_base < new_span {
                    let t = (j - new_base) as int;
                    assert(0 <= t < shift || vals0.len() + shift <= t);
                    assert(!bit_at(npf, t));
                }
            }
        }
//@end

//@fn ColumnData::demote_to_sparse noisolation
//@requires
        old(self).wf(),
        clone_is_eq::<T>(),
//@ensures
        final(self).wf(),                                                               //#keeps_wf
        forall|j: usize| #[trigger] final(self).at(j) == old(self).at(j),               //#view_unchanged
        (*final(self)) is Sparse,                                                       //#is_sparse
//@beforeloop 1
        let ghost vals0 = values@;
        let ghost pres0 = present@;
        let ghost base0 = *base;
//@loop 1 iter=it
            invariant
                values@ == vals0 && present@ == pres0 && *base == base0 && it.seq().len() == vals0.len(),        //#source_fixed
                forall|k: usize| #[trigger] m@.contains_key(k) <==> (base0 <= k && k - base0 < it.index() && bit_at(pres0, (k - base0) as int)),   //#keys_are_present_slots
                forall|k: usize| #[trigger] m@.contains_key(k) ==> m@[k] == vals0[(k - base0) as int],              //#values_copied
//@after "m.insert(*base + slot, values[slot].clone());"
                proof { assert(cloned::<T>(vals0[slot as int], m@[(base0 + slot) as usize])); }
//@after "*self = ColumnData::Sparse(m);"
        proof {
            assert forall|j: usize| #[trigger] self.at(j) == old(self).at(j) by { }
        }
//@end

//@fn ColumnData::new ret=r
//@ensures
        r.wf(),                                                 //#wf
        forall|j: usize| (#[trigger] r.at(j)).is_none(),       //#empty
//@end

//@fn ColumnData::maybe_promote noisolation
//@requires
        old(self).wf(),
        clone_is_eq::<T>(),
        vstd::layout::size_of::<T>() <= 0xffff_ffff,
//@ensures
        final(self).wf(),                                                               //#keeps_wf
        forall|j: usize| #[trigger] final(self).at(j) == old(self).at(j),               //#view_unchanged
//@before "let span = max - min + 1;"
        proof {
            assert(forall|k: usize| m@.contains_key(k) ==> min <= k && k <= max);
            assert(m@.contains_key(min) && m@.contains_key(max));
        }
        let ghost m0 = m@;
//@beforeloop 1
        proof {
            lemma_zero_words_no_bits(present@);
            lemma_count_zero(present@, span as int);
            let sq = mi.remaining();
            assert forall|i: int, j: int| 0 <= i < j < sq.len() implies *(#[trigger] sq[i]).0 != *(#[trigger] sq[j]).0 by {
                if *sq[i].0 == *sq[j].0 {
                    assert(m0[*sq[i].0] == *sq[i].1 && m0[*sq[j].0] == *sq[j].1);
                    assert(sq[i] == sq[j]);
                }
            }
        }
//@loop 1 iter=it hoist=mi
            invariant
                m@ == m0 && values@.len() == span && present@.len() * 64 >= span && span == max - min + 1,      //#sizes
                forall|i: int| 0 <= i < it.seq().len() ==> m0.contains_key(*(#[trigger] it.seq()[i]).0) && m0[*it.seq()[i].0] == *it.seq()[i].1,   //#iter_yields_entries
                forall|k: usize| m0.contains_key(k) ==> exists|i: int| 0 <= i < it.seq().len() && *(#[trigger] it.seq()[i]).0 == k,            //#iter_covers_keys
                forall|i: int, j: int| 0 <= i < j < it.seq().len() ==> *(#[trigger] it.seq()[i]).0 != *(#[trigger] it.seq()[j]).0,               //#iter_keys_distinct
                it.seq().len() == m0.dom().len(),                                                                                               //#iter_len
                forall|s: int| 0 <= s ==> (#[trigger] bit_at(present@, s) <==> exists|i: int| 0 <= i < it.index() && *(#[trigger] it.seq()[i]).0 - min == s),   //#bits_are_visited_keys
                forall|i: int| 0 <= i < it.index() ==> values@[*(#[trigger] it.seq()[i]).0 - min] == *it.seq()[i].1,                           //#values_copied
                count_bits(present@, span as int) == it.index(),                                                                                //#count_is_visited
//@before "values[slot] = value.clone();"
            let ghost pp = present@;
            let ghost vv = values@;
            proof {
                assert(m0.contains_key(idx) && min <= idx && idx <= max);
                // this key was not visited before, so its bit is still clear
                assert(!bit_at(pp, slot as int)) by {
                    if bit_at(pp, slot as int) {
                        let i = choose|i: int| 0 <= i < it.index() && *(#[trigger] it.seq()[i]).0 - min == slot as int;
                        assert(*it.seq()[i].0 == *it.seq()[it.index() as int].0);
                    }
                }
            }
//@after "set_bit(&mut present, slot);"
            proof {
                assert(cloned::<T>(*value, values@[slot as int]));
                lemma_count_set(pp, present@, slot as int, span as int);
                assert forall|s: int| 0 <= s implies (#[trigger] bit_at(present@, s) <==> exists|i: int| 0 <= i < it.index() + 1 && *(#[trigger] it.seq()[i]).0 - min == s) by {
                    if bit_at(pp, s) {
                        let i = choose|i: int| 0 <= i < it.index() && *(#[trigger] it.seq()[i]).0 - min == s;
                        assert(0 <= i < it.index() + 1 && *it.seq()[i].0 - min == s);
                    }
                    if s == slot as int { assert(*it.seq()[it.index() as int].0 - min == s); }
                    if exists|i: int| 0 <= i < it.index() + 1 && *(#[trigger] it.seq()[i]).0 - min == s {
                        let i = choose|i: int| 0 <= i < it.index() + 1 && *(#[trigger] it.seq()[i]).0 - min == s;
                        if i < it.index() { assert(bit_at(pp, s)); }
                    }
                }
                assert forall|i: int| 0 <= i < it.index() + 1 implies values@[*(#[trigger] it.seq()[i]).0 - min] == *it.seq()[i].1 by {
                    if i < it.index() {
                        assert(vv[*it.seq()[i].0 - min] == *it.seq()[i].1);
                        assert(*it.seq()[i].0 != *it.seq()[it.index() as int].0);
                    }
                }
            }
//@replace "m.keys().min()" => "iter_min(m.keys())" :: Iterator::min is a provided trait method Verus cannot specify; wrapper body is the same call (assumed contract)
//@replace "m.keys().max()" => "iter_max(m.keys())" :: Iterator::max likewise
//@end

//@fn ColumnData::set noisolation
//@requires
        old(self).wf(),
        clone_is_eq::<T>(),
        idx < usize::MAX,
        vstd::layout::size_of::<T>() <= 0xffff_ffff,
//@ensures
        final(self).wf(),                                                                                          //#keeps_wf
        forall|j: usize| #[trigger] final(self).at(j) == if j == idx { Some(value) } else { old(self).at(j) },     //#view_is_map_insert
// ---- exit A: inside the span
//@before "set_bit(present, slot);" 1
                        let ghost pa = present@;
//@after "set_bit(present, slot);" 1
                        proof {
                            lemma_count_set(pa, present@, slot as int, values@.len() as int);
                            lemma_count_bound(present@, values@.len() as int);
                        }
// ---- leaving the span
//@before "let entries = *count + 1;"
                proof { axiom_vec_len(*values); lemma_count_bound(present@, values@.len() as int); }
                let ghost vals0 = values@;
                let ghost pres0 = present@;
                let ghost base0 = *base;
                let ghost count0 = *count;
// ---- exit B: grow upward
//@after "present.resize(new_span.div_ceil(64), 0);"
                        proof {
                            lemma_resize_keeps_bits(pres0, present@, vals0.len() as int);
                        }
                        let ghost pb = present@;
//@after "set_bit(present, slot);" 2
                        proof {
                            lemma_count_ext(pres0, pb, vals0.len() as int);
                            lemma_count_tail(pb, vals0.len() as int, new_span as int);
                            lemma_count_set(pb, present@, slot as int, new_span as int);
                        }
// ---- exit C: rebase downward
//@after "self.rebase(new_base, new_span);"
                        proof { assert(self.at(idx) == old(self).at(idx)); }
                        let ghost selfc = *self;
//@before "set_bit(present, slot);" 3
                        let ghost pc = present@;
//@after "set_bit(present, slot);" 3
                        proof {
                            lemma_count_set(pc, present@, slot as int, values@.len() as int);
                        }
//@before "return;" 3
                        proof {
                            assert forall|j: usize| #[trigger] self.at(j) == if j == idx { Some(value) } else { old(self).at(j) } by {
                                assert(selfc.at(j) == old(self).at(j));
                            }
                        }
// ---- exit D: demote to sparse
//@after "self.demote_to_sparse();"
                let ghost mid_d = *self;
//@after "m.insert(idx, value);" 2
                proof {
                    assert forall|j: usize| #[trigger] self.at(j) == if j == idx { Some(value) } else { old(self).at(j) } by {
                        assert(mid_d.at(j) == old(self).at(j));
                    }
                }
// ---- exit E: sparse column
//@after "m.insert(idx, value);" 1
                let ghost mid_e = *self;
//@after "self.maybe_promote();"
                proof {
                    assert forall|j: usize| #[trigger] self.at(j) == if j == idx { Some(value) } else { old(self).at(j) } by {
                        assert(self.at(j) == mid_e.at(j));
                    }
                }
//@end
}

// =====================================================================
// Column: the typed wrapper.  View: at(i) : Option<PropertyValue>
// =====================================================================
//@enum PropertyValue from=prop
// derived Clone of PropertyValue: structural (A-STD)
impl Clone for PropertyValue {
    #[verifier::external_body]
    fn clone(&self) -> (r: Self)
        ensures r == *self
    { unimplemented!() }
}
// A-LAYOUT: String's header is three words; only `<= 2^32` is used
#[verifier::external_body]
pub proof fn axiom_layout()
    ensures
        vstd::layout::size_of::<String>() <= 0xffff_ffff,
        vstd::layout::size_of::<i64>() <= 0xffff_ffff,
        vstd::layout::size_of::<f64>() <= 0xffff_ffff,
        vstd::layout::size_of::<bool>() <= 0xffff_ffff,
{}
// A-CLONE at the four instantiations: Clone of i64/f64/bool/String returns an equal value
#[verifier::external_body]
pub proof fn axiom_clone_eq()
    ensures clone_is_eq::<i64>(), clone_is_eq::<f64>(), clone_is_eq::<bool>(), clone_is_eq::<String>(),
{}
//@enum Column

impl Column {
    pub open spec fn wf(&self) -> bool {
        match self {
            Column::Int(m) => m.wf(),
            Column::Float(m) => m.wf(),
            Column::String(m) => m.wf(),
            Column::Bool(m) => m.wf(),
            Column::Other(m) => true,
        }
    }
    pub open spec fn at(&self, i: usize) -> Option<PropertyValue> {
        match self {
            Column::Int(m) => match m.at(i) { Some(v) => Some(PropertyValue::Integer(v)), None => None },
            Column::Float(m) => match m.at(i) { Some(v) => Some(PropertyValue::Float(v)), None => None },
            Column::String(m) => match m.at(i) { Some(v) => Some(PropertyValue::String(v)), None => None },
            Column::Bool(m) => match m.at(i) { Some(v) => Some(PropertyValue::Boolean(v)), None => None },
            Column::Other(m) => if m@.contains_key(i) { Some(m@[i]) } else { None },
        }
    }
    /// number of stored rows
    pub open spec fn size(&self) -> nat {
        match self {
            Column::Int(m) => m.size(),
            Column::Float(m) => m.size(),
            Column::String(m) => m.size(),
            Column::Bool(m) => m.size(),
            Column::Other(m) => m@.dom().len(),
        }
    }
    pub open spec fn is_empty_col(&self) -> bool { forall|j: usize| (#[trigger] self.at(j)).is_none() }

    // promote_to_other (ASSUMED, A-PROMOTE): it hands ColumnData::for_each a closure that captures `&mut spilled`, which
    // Verus does not support, so its body stays outside Verus.  for_each itself -- which rows the closure is shown, with
    // which values, each once -- IS verified above; what is assumed here is that the four one-line closures insert the
    // pair they are shown, wrapped in the variant of the column's type.
    #[verifier::external_body]
    fn promote_to_other(&mut self)
        requires old(self).wf()
        ensures
            (*final(self)) is Other,
            final(self).wf(),
            forall|j: usize| #[trigger] final(self).at(j) == old(self).at(j),
    { unimplemented!() }

//@fn Column::new_int ret=r
//@ensures
        r.wf() && r.is_empty_col() && r is Int,   //#empty_int
//@end
//@fn Column::new_float ret=r
//@ensures
        r.wf() && r.is_empty_col() && r is Float,   //#empty_float
//@end
//@fn Column::new_string ret=r
//@ensures
        r.wf() && r.is_empty_col() && r is String,   //#empty_string
//@end
//@fn Column::new_bool ret=r
//@ensures
        r.wf() && r.is_empty_col() && r is Bool,   //#empty_bool
//@end

//@fn Column::for_value ret=r
//@ensures
        r.wf() && r.is_empty_col(),   //#fresh_column_is_empty
//@end

//@fn Column::set
//@requires
        old(self).wf(),
        idx < usize::MAX,
//@ensures
        final(self).wf(),                                                                                          //#keeps_wf
        forall|j: usize| #[trigger] final(self).at(j) == if j == idx { Some(value) } else { old(self).at(j) },     //#view_is_map_insert
//@before "match (&mut *self, value)"
        proof { axiom_layout(); axiom_clone_eq(); }
//@after "self.promote_to_other();"
                let ghost mid = *self;
//@after "m.insert(idx, value);" 2
                    proof {
                        assert forall|j: usize| #[trigger] self.at(j) == if j == idx { Some(value) } else { old(self).at(j) } by {
                            assert(mid.at(j) == old(self).at(j));
                        }
                    }
//@end

//@fn Column::remove
//@requires
        old(self).wf(),
//@ensures
        final(self).wf(),                                                                                  //#keeps_wf
        forall|j: usize| #[trigger] final(self).at(j) == if j == idx { None } else { old(self).at(j) },    //#view_is_map_remove
//@end

//@fn Column::get ret=r
//@requires
        self.wf(),
//@ensures
        r == match self.at(idx) { Some(v) => v, None => PropertyValue::Null },   //#stored_value_or_null
//@closure map#1 (v__r: &i64) -> (p: PropertyValue) ensures p == PropertyValue::Integer(*v__r)
//@closure map#2 (v__r: &f64) -> (p: PropertyValue) ensures p == PropertyValue::Float(*v__r)
//@closure map#3 (v__r: &bool) -> (p: PropertyValue) ensures p == PropertyValue::Boolean(*v__r)
//@closure map#4 (s: &String) -> (p: PropertyValue) ensures p == PropertyValue::String(*s)
//@end

//@fn Column::has ret=r
//@requires
        self.wf(),
//@ensures
        r == self.at(idx).is_some(),   //#has_iff_stored
//@end

//@fn Column::len ret=r
//@requires
        self.wf(),
//@ensures
        r == self.size(),   //#len_is_size
//@end

//@fn Column::is_dense ret=r
//@ensures
        r == match self {
            Column::Int(m) => m is Dense,
            Column::Float(m) => m is Dense,
            Column::String(m) => m is Dense,
            Column::Bool(m) => m is Dense,
            Column::Other(_) => false,
        },   //#dense_iff_dense_representation
//@end
}

// =====================================================================
// ColumnStore.  View: at(row, key) : Option<PropertyValue>, key a String
// =====================================================================
// A-HASH for String keys (assumed): std's HashMap<String, V> obeys the key model, and looking a `&str` up
// finds exactly the entry whose String key has the same characters.
pub uninterp spec fn str_key(k: &str) -> String;
#[verifier::external_body]
pub proof fn axiom_string_keys<V>()
    ensures
        vstd::std_specs::hash::obeys_key_model::<String>(),
        forall|m: Map<String, V>, k: &str| #[trigger] vstd::std_specs::hash::contains_borrowed_key(m, k) == m.contains_key(str_key(k)),
        forall|m: Map<String, V>, k: &str, v: V| #[trigger] vstd::std_specs::hash::maps_borrowed_key_to_value(m, k, v)
            == (m.contains_key(str_key(k)) && m[str_key(k)] == v),
        forall|s: String, k: &str| #![trigger s@, str_key(k)] s@ == k@ ==> s == str_key(k),
{}
//@struct ColumnId derive=Clone,Copy
//@struct ColumnStore

impl ColumnStore {
    pub open spec fn wf(&self) -> bool {
        &&& self.columns@.len() == self.names@.len()
        &&& self.columns@.len() < 0xffff_ffff
        &&& forall|k: String| self.index@.contains_key(k) ==> (#[trigger] self.index@[k]).0 < self.columns@.len() && self.names@[self.index@[k].0 as int] == k
        &&& forall|i: int| 0 <= i < self.names@.len() ==> self.index@.contains_key(#[trigger] self.names@[i]) && self.index@[self.names@[i]].0 == i
        &&& forall|i: int| 0 <= i < self.columns@.len() ==> (#[trigger] self.columns@[i]).wf()
    }
    /// the map this store is: (row, key) -> value
    pub open spec fn at(&self, row: usize, key: String) -> Option<PropertyValue> {
        if self.index@.contains_key(key) { self.columns@[self.index@[key].0 as int].at(row) } else { None }
    }

//@fn ColumnStore::column_id ret=r
//@requires
        self.wf(),
//@ensures
        r.is_some() == self.index@.contains_key(str_key(key)),                       //#some_iff_column_exists
        r matches Some(id) ==> id == self.index@[str_key(key)],                      //#is_the_column
//@before "self.index.get(key).copied()"
        proof { axiom_string_keys::<ColumnId>(); }
//@end

//@fn ColumnStore::get_column ret=r
//@replace "|&ColumnId(slot)|" => "|id__r|" :: R2: a by-reference destructuring closure parameter is taken by name (ColumnId is Copy; its one field is read as id__r.0)
//@replaceall "slot as usize" => "id__r.0 as usize" :: same
//@closure and_then#1 (id__r: &ColumnId) -> (o: Option<&Column>) ensures o == (if (id__r.0 as int) < self.columns@.len() { Some(&self.columns@[id__r.0 as int]) } else { None })
//@requires
        self.wf(),
//@ensures
        r.is_some() == self.index@.contains_key(str_key(key)),                                                //#some_iff_column_exists
        r matches Some(c) ==> *c == self.columns@[self.index@[str_key(key)].0 as int],                        //#is_the_named_column
//@atstart
        proof { axiom_string_keys::<ColumnId>(); }
//@end

//@fn ColumnStore::get_by_id ret=r
//@requires
        self.wf(),
//@ensures
        id.0 < self.columns@.len() ==> r == (match self.columns@[id.0 as int].at(idx) { Some(v) => v, None => PropertyValue::Null }),   //#reads_the_column
        id.0 >= self.columns@.len() ==> r == PropertyValue::Null,                                                                      //#unknown_id_is_null
//@end

//@fn ColumnStore::set_property
//@requires
        old(self).wf(),
        idx < usize::MAX,
        old(self).columns@.len() + 1 < 0xffff_ffff,
//@ensures
        final(self).wf(),                                                                                      //#keeps_wf
        forall|row: usize, k: String| #[trigger] final(self).at(row, k)
            == if row == idx && k == str_key(key) { Some(value) } else { old(self).at(row, k) },             //#view_is_map_insert
//@before "if let Some(p__r1) = self.index.get(key)"
        proof { axiom_string_keys::<ColumnId>(); }
//@end

//@fn ColumnStore::remove_property
//@requires
        old(self).wf(),
//@ensures
        final(self).wf(),                                                                                      //#keeps_wf
        forall|row: usize, k: String| #[trigger] final(self).at(row, k)
            == if row == idx && k == str_key(key) { None } else { old(self).at(row, k) },                    //#view_is_map_remove
//@before "if let Some(p__r1) = self.index.get(key)"
        proof { axiom_string_keys::<ColumnId>(); }
//@end

//@fn ColumnStore::clear_row
//@requires
        old(self).wf(),
//@ensures
        final(self).wf(),                                                                                      //#keeps_wf
        forall|row: usize, k: String| #[trigger] final(self).at(row, k)
            == if row == idx { None } else { old(self).at(row, k) },                                          //#the_row_is_empty_and_no_other_row_changes
//@loop 1 index=ci
            invariant
                0 <= ci <= self.columns@.len(), self.columns@.len() == old(self).columns@.len(),
                self.names@ == old(self).names@, self.index@ == old(self).index@,
                forall|c: int| 0 <= c < self.columns@.len() ==> (#[trigger] self.columns@[c]).wf(),
                forall|c: int, row: usize| 0 <= c < ci ==> #[trigger] self.columns@[c].at(row) == if row == idx { None } else { old(self).columns@[c].at(row) },      //#cleared_columns_so_far
                forall|c: int| ci <= c < self.columns@.len() ==> self.columns@[c] == old(self).columns@[c],      //#later_columns_untouched
            decreases self.columns@.len() - ci
//@end

//@fn ColumnStore::get_property ret=r
//@requires
        self.wf(),
//@ensures
        r == (match self.at(idx, str_key(key)) { Some(v) => v, None => PropertyValue::Null }),               //#stored_value_or_null
//@before "match self.index.get(key)"
        proof { axiom_string_keys::<ColumnId>(); }
//@end
}

} // verus!
fn main() {}
