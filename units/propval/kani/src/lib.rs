// Kani unit `propval` (C10): the REAL file src/graph/property.rs is compiled
// unmodified (#[path]); harnesses below quantify over the full machine domain of
// the scalar variants (every i64, every f64 bit pattern, both NaN signs, ±0, ±inf).
#![allow(dead_code, unused_imports)]
#[path = "@REPO@/src/graph/property.rs"]
pub mod property;

#[cfg(kani)]
mod proofs {
    use super::property::{cypher_order, PropertyValue};
    use std::cmp::Ordering;
    use std::hash::{Hash, Hasher};

    // ---- generators ------------------------------------------------------
    fn any_int() -> PropertyValue { PropertyValue::Integer(kani::any()) }
    fn any_float() -> PropertyValue { PropertyValue::Float(kani::any()) }
    /// any scalar of the non-numeric, loop-free variants
    fn any_other() -> PropertyValue {
        match kani::any::<u8>() % 4 {
            0 => PropertyValue::Boolean(kani::any()),
            1 => PropertyValue::DateTime(kani::any()),
            2 => PropertyValue::Duration { months: kani::any(), days: kani::any(), seconds: kani::any(), nanos: kani::any() },
            _ => PropertyValue::Null,
        }
    }
    fn any_num(sel: bool) -> PropertyValue { if sel { any_int() } else { any_float() } }
    fn any_scalar() -> PropertyValue {
        match kani::any::<u8>() % 3 {
            0 => any_int(),
            1 => any_float(),
            _ => any_other(),
        }
    }

    /// recording hasher: the word sequence written, folded injectively enough for
    /// equal-sequence <=> equal-state on the short sequences scalars write.
    struct Rec { words: [u64; 6], n: usize }
    impl Hasher for Rec {
        fn finish(&self) -> u64 { 0 }
        fn write(&mut self, bytes: &[u8]) {
            // scalars only call the fixed-width write_* methods below
            let mut w = 0u64;
            let mut i = 0;
            while i < bytes.len() && i < 8 { w |= (bytes[i] as u64) << (8 * i); i += 1; }
            self.push(w ^ 0xA5A5_0000_0000_0000);
        }
        fn write_u8(&mut self, i: u8) { self.push(i as u64) }
        fn write_u32(&mut self, i: u32) { self.push(i as u64) }
        fn write_u64(&mut self, i: u64) { self.push(i) }
        fn write_i32(&mut self, i: i32) { self.push(i as u32 as u64) }
        fn write_i64(&mut self, i: i64) { self.push(i as u64) }
        fn write_usize(&mut self, i: usize) { self.push(i as u64) }
    }
    impl Rec {
        fn new() -> Self { Rec { words: [0; 6], n: 0 } }
        fn push(&mut self, w: u64) { if self.n < 6 { self.words[self.n] = w; } self.n += 1; }
        fn same(&self, o: &Rec) -> bool { self.n == o.n && self.words == o.words }
    }
    fn rec(v: &PropertyValue) -> Rec { let mut r = Rec::new(); v.hash(&mut r); r }

    // ---- Ord: reflexive, antisymmetric, transitive (index order) ----------
    #[kani::proof]
    #[kani::unwind(2)]
    fn ord_refl() {
        let a = any_scalar();
        assert!(a.cmp(&a) == Ordering::Equal);
        kani::cover!(matches!(a, PropertyValue::Float(x) if x.is_nan()));
    }
    #[kani::proof]
    #[kani::unwind(2)]
    fn ord_antisym() {
        let a = any_scalar(); let b = any_scalar();
        assert!(a.cmp(&b) == b.cmp(&a).reverse());
        kani::cover!(a.cmp(&b) == Ordering::Less);
    }
    // transitivity of `<=` (covers both strict and Equal chains), numeric bucket split by variant triple
    macro_rules! trans_num {
        ($name:ident, $a:expr, $b:expr, $c:expr) => {
            #[kani::proof]
            #[kani::unwind(2)]
            fn $name() {
                let a = any_num($a); let b = any_num($b); let c = any_num($c);
                if a.cmp(&b) != Ordering::Greater && b.cmp(&c) != Ordering::Greater {
                    assert!(a.cmp(&c) != Ordering::Greater);
                    if a.cmp(&b) == Ordering::Less || b.cmp(&c) == Ordering::Less {
                        assert!(a.cmp(&c) == Ordering::Less);
                    }
                }
                kani::cover!(a.cmp(&b) == Ordering::Less && b.cmp(&c) == Ordering::Less);
            }
        };
    }
    trans_num!(ord_trans_iii, true, true, true);
    trans_num!(ord_trans_iif, true, true, false);
    trans_num!(ord_trans_ifi, true, false, true);
    trans_num!(ord_trans_iff, true, false, false);
    trans_num!(ord_trans_fii, false, true, true);
    trans_num!(ord_trans_fif, false, true, false);
    trans_num!(ord_trans_ffi, false, false, true);
    trans_num!(ord_trans_fff, false, false, false);
    /// triples with at least one non-numeric scalar: buckets decide, or the Duration/DateTime/Boolean arms
    #[kani::proof]
    #[kani::unwind(2)]
    fn ord_trans_mixed() {
        let a = any_scalar(); let b = any_scalar(); let c = any_scalar();
        let numeric = |v: &PropertyValue| matches!(v, PropertyValue::Integer(_) | PropertyValue::Float(_));
        kani::assume(!(numeric(&a) && numeric(&b) && numeric(&c)));
        if a.cmp(&b) != Ordering::Greater && b.cmp(&c) != Ordering::Greater {
            assert!(a.cmp(&c) != Ordering::Greater);
            if a.cmp(&b) == Ordering::Less || b.cmp(&c) == Ordering::Less {
                assert!(a.cmp(&c) == Ordering::Less);
            }
        }
        kani::cover!(a.cmp(&b) == Ordering::Less && b.cmp(&c) == Ordering::Less);
    }

    // ---- agreement with equality and hashing ------------------------------
    /// the two float corner cases where derived PartialEq and the bitwise order disagree
    fn signed_zero_pair(a: &PropertyValue, b: &PropertyValue) -> bool {
        matches!((a, b), (PropertyValue::Float(x), PropertyValue::Float(y)) if *x == 0.0 && *y == 0.0 && x.to_bits() != y.to_bits())
    }
    fn nan_pair(a: &PropertyValue, b: &PropertyValue) -> bool {
        matches!((a, b), (PropertyValue::Float(x), PropertyValue::Float(y)) if x.is_nan() && y.is_nan())
    }
    #[kani::proof]
    #[kani::unwind(2)]
    fn ord_eq_agree() {
        let a = any_scalar(); let b = any_scalar();
        kani::assume(!signed_zero_pair(&a, &b) && !nan_pair(&a, &b));   // reported separately (known findings)
        assert!((a.cmp(&b) == Ordering::Equal) == (a == b));
        kani::cover!(a == b);
    }
    #[kani::proof]
    #[kani::unwind(2)]
    fn ord_eq_signed_zero() {
        let a = any_float(); let b = any_float();
        kani::assume(signed_zero_pair(&a, &b));
        assert!((a.cmp(&b) == Ordering::Equal) == (a == b));
    }
    #[kani::proof]
    #[kani::unwind(2)]
    fn ord_eq_nan() {
        let a = any_float(); let b = any_float();
        kani::assume(nan_pair(&a, &b));
        assert!((a.cmp(&b) == Ordering::Equal) == (a == b));
    }
    #[kani::proof]
    #[kani::unwind(10)]
    fn eq_hash_agree() {
        let a = any_scalar(); let b = any_scalar();
        kani::assume(!signed_zero_pair(&a, &b));
        if a == b { assert!(rec(&a).same(&rec(&b))); }
        kani::cover!(a == b);
    }
    #[kani::proof]
    #[kani::unwind(10)]
    fn eq_hash_signed_zero() {
        let a = any_float(); let b = any_float();
        kani::assume(signed_zero_pair(&a, &b));
        if a == b { assert!(rec(&a).same(&rec(&b))); }
    }

    // ---- cypher_order: total preorder (ORDER BY) ----------------------------
    #[kani::proof]
    #[kani::unwind(2)]
    fn cy_refl_antisym() {
        let a = any_scalar(); let b = any_scalar();
        assert!(cypher_order(&a, &a) == Ordering::Equal);
        assert!(cypher_order(&a, &b) == cypher_order(&b, &a).reverse());
        kani::cover!(cypher_order(&a, &b) == Ordering::Less);
    }
    macro_rules! cy_trans_num {
        ($name:ident, $a:expr, $b:expr, $c:expr) => {
            #[kani::proof]
            #[kani::unwind(2)]
            fn $name() {
                let a = any_num($a); let b = any_num($b); let c = any_num($c);
                if cypher_order(&a, &b) != Ordering::Greater && cypher_order(&b, &c) != Ordering::Greater {
                    assert!(cypher_order(&a, &c) != Ordering::Greater);
                    if cypher_order(&a, &b) == Ordering::Less || cypher_order(&b, &c) == Ordering::Less {
                        assert!(cypher_order(&a, &c) == Ordering::Less);
                    }
                }
                kani::cover!(cypher_order(&a, &b) == Ordering::Less && cypher_order(&b, &c) == Ordering::Less);
            }
        };
    }
    cy_trans_num!(cy_trans_iii, true, true, true);
    cy_trans_num!(cy_trans_iif, true, true, false);
    cy_trans_num!(cy_trans_ifi, true, false, true);
    cy_trans_num!(cy_trans_iff, true, false, false);
    cy_trans_num!(cy_trans_fii, false, true, true);
    cy_trans_num!(cy_trans_fif, false, true, false);
    cy_trans_num!(cy_trans_ffi, false, false, true);
    cy_trans_num!(cy_trans_fff, false, false, false);
    #[kani::proof]
    #[kani::unwind(2)]
    fn cy_trans_mixed() {
        let a = any_scalar(); let b = any_scalar(); let c = any_scalar();
        let numeric = |v: &PropertyValue| matches!(v, PropertyValue::Integer(_) | PropertyValue::Float(_));
        kani::assume(!(numeric(&a) && numeric(&b) && numeric(&c)));
        if cypher_order(&a, &b) != Ordering::Greater && cypher_order(&b, &c) != Ordering::Greater {
            assert!(cypher_order(&a, &c) != Ordering::Greater);
            if cypher_order(&a, &b) == Ordering::Less || cypher_order(&b, &c) == Ordering::Less {
                assert!(cypher_order(&a, &c) == Ordering::Less);
            }
        }
        kani::cover!(cypher_order(&a, &b) == Ordering::Less && cypher_order(&b, &c) == Ordering::Less);
    }
}
