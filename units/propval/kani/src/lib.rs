// Kani unit `propval` (C10): the REAL file src/graph/property.rs is compiled
// unmodified (#[path]).  Every harness below is loop-free and quantifies over the
// full machine domain of its scalar payloads (every i64, every f64 bit pattern:
// both NaN signs, +-0, +-inf, subnormals, integers beyond 2^53), so each is a
// complete proof, not a bounded check.
//
// Decomposition (caller-against-contract, by hand):
//   (W) within one bucket the order is a total order         -- ord_* / cy_* harnesses per variant triple
//   (X) across buckets the result is the bucket-rank compare -- ord_cross / cy_cross
//   (L) rank-then-within composition of total (pre)orders is a total (pre)order
//       -- Verus lemma in units/propval_lemmas
#![allow(dead_code, unused_imports, unused_macros)]
#[path = "@REPO@/src/graph/property.rs"]
pub mod property;

#[cfg(kani)]
mod proofs {
    use super::property::{cypher_order, PropertyValue};
    use std::cmp::Ordering;
    use std::hash::{Hash, Hasher};

    // ---- generators: concrete variant, fully symbolic payload ---------------
    // 0 Boolean, 1 Integer, 2 Float, 3 DateTime, 4 Duration, 5 Null
    fn mk(v: u8) -> PropertyValue {
        match v {
            0 => PropertyValue::Boolean(kani::any()),
            1 => PropertyValue::Integer(kani::any()),
            2 => PropertyValue::Float(kani::any()),
            3 => PropertyValue::DateTime(kani::any()),
            4 => PropertyValue::Duration { months: kani::any(), days: kani::any(), seconds: kani::any(), nanos: kani::any() },
            _ => PropertyValue::Null,
        }
    }
    /// index-order bucket of each scalar variant (the contract of `bucket` in `cmp`)
    fn ord_rank(v: u8) -> u8 { match v { 0 => 0, 1 | 2 => 1, 3 => 3, 4 => 7, _ => 8 } }
    /// ORDER BY rank: Boolean 3, numbers 4 (Integer/Float, then DateTime, then Duration inside it), Null 5
    fn cy_rank(v: u8) -> (u8, u8) { match v { 0 => (3, 0), 1 | 2 => (4, 0), 3 => (4, 1), 4 => (4, 2), _ => (5, 0) } }

    fn le(o: Ordering) -> bool { o != Ordering::Greater }

    macro_rules! total_order_triple {
        ($name:ident, $f:expr, $a:expr, $b:expr, $c:expr) => {
            #[kani::proof]
            #[kani::unwind(2)]
            fn $name() {
                let a = mk($a); let b = mk($b); let c = mk($c);
                let f = $f;
                // reflexive, antisymmetric (as a comparison function), transitive
                assert!(f(&a, &a) == Ordering::Equal);
                assert!(f(&a, &b) == f(&b, &a).reverse());
                if le(f(&a, &b)) && le(f(&b, &c)) {
                    assert!(le(f(&a, &c)));
                    if f(&a, &b) == Ordering::Less || f(&b, &c) == Ordering::Less {
                        assert!(f(&a, &c) == Ordering::Less);
                    }
                }
                kani::cover!(le(f(&a, &b)) && le(f(&b, &c))); // the transitivity premise is reachable
            }
        };
    }
    fn ord(a: &PropertyValue, b: &PropertyValue) -> Ordering { a.cmp(b) }

    // (W) index order, numeric bucket: all 8 variant triples
    total_order_triple!(ord_num_iii, ord, 1, 1, 1);
    total_order_triple!(ord_num_iif, ord, 1, 1, 2);
    total_order_triple!(ord_num_ifi, ord, 1, 2, 1);
    total_order_triple!(ord_num_iff, ord, 1, 2, 2);
    total_order_triple!(ord_num_fii, ord, 2, 1, 1);
    total_order_triple!(ord_num_fif, ord, 2, 1, 2);
    total_order_triple!(ord_num_ffi, ord, 2, 2, 1);
    total_order_triple!(ord_num_fff, ord, 2, 2, 2);
    // (W) the other scalar buckets
    total_order_triple!(ord_boolean, ord, 0, 0, 0);
    total_order_triple!(ord_datetime, ord, 3, 3, 3);
    total_order_triple!(ord_duration, ord, 4, 4, 4);
    total_order_triple!(ord_null, ord, 5, 5, 5);

    // (X) across buckets: the bucket rank decides, whatever the payloads; never Equal, never ==
    #[kani::proof]
    #[kani::unwind(8)]
    fn ord_cross() {
        let mut i = 0u8;
        while i < 6 {
            let mut j = 0u8;
            while j < 6 {
                if ord_rank(i) != ord_rank(j) {
                    let a = mk(i); let b = mk(j);
                    assert!(a.cmp(&b) == ord_rank(i).cmp(&ord_rank(j)));
                    assert!(!(a == b));
                }
                j += 1;
            }
            i += 1;
        }
    }
    // numeric bucket: Integer and Float never compare Equal and are never ==
    #[kani::proof]
    #[kani::unwind(2)]
    fn ord_int_float_strict() {
        let a = mk(1); let b = mk(2);
        assert!(a.cmp(&b) != Ordering::Equal && b.cmp(&a) != Ordering::Equal);
        assert!(!(a == b) && !(b == a));
    }

    // ---- agreement with equality ------------------------------------------
    fn signed_zero_pair(a: &PropertyValue, b: &PropertyValue) -> bool {
        matches!((a, b), (PropertyValue::Float(x), PropertyValue::Float(y)) if *x == 0.0 && *y == 0.0 && x.to_bits() != y.to_bits())
    }
    fn nan_pair(a: &PropertyValue, b: &PropertyValue) -> bool {
        matches!((a, b), (PropertyValue::Float(x), PropertyValue::Float(y)) if x.is_nan() && y.is_nan())
    }
    macro_rules! ord_eq_variant {
        ($name:ident, $v:expr) => {
            #[kani::proof]
            #[kani::unwind(2)]
            fn $name() {
                let a = mk($v); let b = mk($v);
                kani::assume(!signed_zero_pair(&a, &b) && !nan_pair(&a, &b)); // those two cases: harnesses below
                assert!((a.cmp(&b) == Ordering::Equal) == (a == b));
                kani::cover!(a == b);
                kani::cover!(!(a == b));
            }
        };
    }
    ord_eq_variant!(ord_eq_boolean, 0);
    ord_eq_variant!(ord_eq_integer, 1);
    ord_eq_variant!(ord_eq_float, 2);
    ord_eq_variant!(ord_eq_datetime, 3);
    ord_eq_variant!(ord_eq_duration, 4);
    #[kani::proof]
    #[kani::unwind(2)]
    fn ord_eq_signed_zero() {
        let a = mk(2); let b = mk(2);
        kani::assume(signed_zero_pair(&a, &b));
        assert!((a.cmp(&b) == Ordering::Equal) == (a == b));
    }
    #[kani::proof]
    #[kani::unwind(2)]
    fn ord_eq_nan() {
        let a = mk(2); let b = mk(2);
        kani::assume(nan_pair(&a, &b));
        assert!((a.cmp(&b) == Ordering::Equal) == (a == b));
    }

    // ---- equal values hash equally ------------------------------------------
    /// recording hasher: stores the words written (no SipHash in the proof)
    struct Rec { words: [u64; 6], n: usize }
    impl Hasher for Rec {
        fn finish(&self) -> u64 { 0 }
        fn write(&mut self, bytes: &[u8]) {
            let mut w = 0u64;
            let mut i = 0;
            while i < bytes.len() && i < 8 { w |= (bytes[i] as u64) << (8 * i); i += 1; }
            self.push(w ^ 0xA5A5_0000_0000_0000);
        }
        fn write_u8(&mut self, i: u8) { self.push(i as u64) }
        fn write_u32(&mut self, i: u32) { self.push(i as u64) }
        fn write_u64(&mut self, i: u64) { self.push(i) }
        fn write_i32(&mut self, i: i32) { self.push(i as u32 as u64) }
        fn write_i64(&mut self, i: i64) { self.push(i as u64) }
        fn write_usize(&mut self, i: usize) { self.push(i as u64) }
    }
    impl Rec {
        fn new() -> Self { Rec { words: [0; 6], n: 0 } }
        fn push(&mut self, w: u64) { if self.n < 6 { self.words[self.n] = w; } self.n += 1; }
        fn same(&self, o: &Rec) -> bool {
            self.n == o.n && self.words[0] == o.words[0] && self.words[1] == o.words[1] && self.words[2] == o.words[2]
                && self.words[3] == o.words[3] && self.words[4] == o.words[4] && self.words[5] == o.words[5]
        }
    }
    fn rec(v: &PropertyValue) -> Rec { let mut r = Rec::new(); v.hash(&mut r); r }
    macro_rules! eq_hash_variant {
        ($name:ident, $v:expr) => {
            #[kani::proof]
            #[kani::unwind(10)]
            fn $name() {
                let a = mk($v); let b = mk($v);
                kani::assume(!signed_zero_pair(&a, &b));
                if a == b { assert!(rec(&a).same(&rec(&b))); }
                kani::cover!(a == b);
            }
        };
    }
    eq_hash_variant!(eq_hash_boolean, 0);
    eq_hash_variant!(eq_hash_integer, 1);
    eq_hash_variant!(eq_hash_float, 2);
    eq_hash_variant!(eq_hash_datetime, 3);
    eq_hash_variant!(eq_hash_duration, 4);
    eq_hash_variant!(eq_hash_null, 5);
    #[kani::proof]
    #[kani::unwind(10)]
    fn eq_hash_signed_zero() {
        let a = mk(2); let b = mk(2);
        kani::assume(signed_zero_pair(&a, &b));
        if a == b { assert!(rec(&a).same(&rec(&b))); }
    }

    // ---- cypher_order: total preorder (ORDER BY) ------------------------------
    fn cy(a: &PropertyValue, b: &PropertyValue) -> Ordering { cypher_order(a, b) }
    total_order_triple!(cy_num_iii, cy, 1, 1, 1);
    total_order_triple!(cy_num_iif, cy, 1, 1, 2);
    total_order_triple!(cy_num_ifi, cy, 1, 2, 1);
    total_order_triple!(cy_num_iff, cy, 1, 2, 2);
    total_order_triple!(cy_num_fii, cy, 2, 1, 1);
    total_order_triple!(cy_num_fif, cy, 2, 1, 2);
    total_order_triple!(cy_num_ffi, cy, 2, 2, 1);
    total_order_triple!(cy_num_fff, cy, 2, 2, 2);
    total_order_triple!(cy_boolean, cy, 0, 0, 0);
    total_order_triple!(cy_datetime, cy, 3, 3, 3);
    total_order_triple!(cy_duration, cy, 4, 4, 4);
    total_order_triple!(cy_null, cy, 5, 5, 5);
    #[kani::proof]
    #[kani::unwind(8)]
    fn cy_cross() {
        let mut i = 0u8;
        while i < 6 {
            let mut j = 0u8;
            while j < 6 {
                if cy_rank(i) != cy_rank(j) {
                    let a = mk(i); let b = mk(j);
                    assert!(cypher_order(&a, &b) == cy_rank(i).cmp(&cy_rank(j)));
                }
                j += 1;
            }
            i += 1;
        }
    }

    // @PLAYBACK@
}
