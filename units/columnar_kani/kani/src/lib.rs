// Kani unit `columnar_kani` (C30):
//   K-BIT     the three bit helpers, extracted verbatim (they are private), against the contract the Verus unit
//             assumes; loop-free over every u64 word pattern and every slot, slices of length <= 3 (stated bound)
//   K-PROMOTE Column::set's type-spill path (promote_to_other + ColumnData::for_each, which Verus cannot take
//             because the closure captures `&mut`), on the UNMODIFIED files, bounded: columns of <= 3 slots
#![allow(dead_code, unused_imports)]
pub mod graph {
    #[path = "@REPO@/src/graph/property.rs"]
    pub mod property;
    pub use property::PropertyValue;
    #[path = "@REPO@/src/graph/types.rs"]
    pub mod types;
    pub mod storage {
        #[path = "@REPO@/src/graph/storage/columnar.rs"]
        pub mod columnar;
    }
}

pub mod bits {
//@extract src/graph/storage/columnar.rs bit pub
//@extract src/graph/storage/columnar.rs set_bit pub
//@extract src/graph/storage/columnar.rs clear_bit pub
}

#[cfg(kani)]
mod proofs {
    use super::bits::*;
    use super::graph::storage::columnar::{Column, ColumnData};
    use super::graph::PropertyValue;

    /// the spec function of the Verus unit, executable
    fn bit_at(words: &[u64], slot: usize) -> bool {
        slot / 64 < words.len() && ((words[slot / 64] >> (slot % 64)) & 1) == 1
    }
    fn any_words(len: usize) -> [u64; 3] { let w: [u64; 3] = kani::any(); let _ = len; w }

    #[kani::proof]
    #[kani::unwind(5)]
    fn kbit_bit() {
        let w: [u64; 3] = kani::any();
        let len: usize = kani::any(); kani::assume(len <= 3);
        let slot: usize = kani::any();
        assert!(bit(&w[..len], slot) == bit_at(&w[..len], slot));
        kani::cover!(bit(&w[..len], slot));
        kani::cover!(slot / 64 >= len);
    }
    #[kani::proof]
    #[kani::unwind(5)]
    fn kbit_set_bit() {
        let w0: [u64; 3] = kani::any();
        let mut w = w0;
        let len: usize = kani::any(); kani::assume(len <= 3);
        let slot: usize = kani::any();
        set_bit(&mut w[..len], slot);
        // every other bit position s (symbolic) is unchanged; position `slot` is set iff its word exists
        let s: usize = kani::any();
        assert!(bit_at(&w[..len], s) == ((s == slot && slot / 64 < len) || bit_at(&w0[..len], s)));
        // words outside the slice untouched
        let k: usize = kani::any(); kani::assume(k < 3);
        if k >= len { assert!(w[k] == w0[k]); }
        kani::cover!(slot / 64 < len);
    }
    #[kani::proof]
    #[kani::unwind(5)]
    fn kbit_clear_bit() {
        let w0: [u64; 3] = kani::any();
        let mut w = w0;
        let len: usize = kani::any(); kani::assume(len <= 3);
        let slot: usize = kani::any();
        clear_bit(&mut w[..len], slot);
        let s: usize = kani::any();
        assert!(bit_at(&w[..len], s) == (s != slot && bit_at(&w0[..len], s)));
        let k: usize = kani::any(); kani::assume(k < 3);
        if k >= len { assert!(w[k] == w0[k]); }
        kani::cover!(slot / 64 < len && bit_at(&w0[..len], slot));
    }

    // ---- K-PROMOTE: a typed Dense column (<= 3 slots, symbolic base/values/presence) receives a value of another
    //      type; afterwards every row reads as before and the new row reads the new value
    fn dense_int() -> (Column, usize, [i64; 3], u64, usize) {
        let base: usize = kani::any(); kani::assume(base < 1000);
        let vals: [i64; 3] = kani::any();
        let n: usize = kani::any(); kani::assume(n >= 1 && n <= 3);
        let bits: u64 = kani::any(); kani::assume(bits < (1u64 << n));
        let count = bits.count_ones() as usize;
        let col = Column::Int(ColumnData::Dense { base, values: vals[..n].to_vec(), present: vec![bits], count });
        (col, base, vals, bits, n)
    }
    #[kani::proof]
    #[kani::unwind(6)]
    fn kpromote_dense_int() {
        let (mut col, base, vals, bits, n) = dense_int();
        let idx: usize = kani::any(); kani::assume(idx >= base && idx < base + 4);
        col.set(idx, PropertyValue::Boolean(true));          // a value the Int column cannot hold
        assert!(matches!(col, Column::Other(_)));
        let mut k = 0usize;
        while k < 4 {
            let row = base + k;
            let got = col.get(row);
            if row == idx { assert!(got == PropertyValue::Boolean(true)); }
            else if k < n && (bits >> k) & 1 == 1 { assert!(got == PropertyValue::Integer(vals[k])); }
            else { assert!(got == PropertyValue::Null); }
            k += 1;
        }
        kani::cover!(bits != 0);
    }

    // @PLAYBACK@
}
