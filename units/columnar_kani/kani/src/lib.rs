// Kani unit `columnar_kani` (C30):
//   K-BIT     the three bit helpers, extracted verbatim (they are private), against the contract the Verus unit
//             assumes; loop-free over every u64 word pattern and every slot, slices of length <= 3 (stated bound)
//   (K-PROMOTE, a bounded check of Column::promote_to_other + ColumnData::for_each on the unmodified files, was
//    tried and does not terminate in CBMC -- FxHashMap inserts, even with concrete keys, > 10 min -- so that
//    contract stays an unverified assumption of the Verus unit.)
#![allow(dead_code, unused_imports)]
pub mod bits {
//@extract src/graph/storage/columnar.rs bit pub
//@extract src/graph/storage/columnar.rs set_bit pub
//@extract src/graph/storage/columnar.rs clear_bit pub
}

#[cfg(kani)]
mod proofs {
    use super::bits::*;

    /// the spec function of the Verus unit, executable
    fn bit_at(words: &[u64], slot: usize) -> bool {
        slot / 64 < words.len() && ((words[slot / 64] >> (slot % 64)) & 1) == 1
    }
    fn any_words(len: usize) -> [u64; 3] { let w: [u64; 3] = kani::any(); let _ = len; w }

    #[kani::proof]
    #[kani::unwind(5)]
    fn kbit_bit() {
        let w: [u64; 3] = kani::any();
        let len: usize = kani::any(); kani::assume(len <= 3);
        let slot: usize = kani::any();
        assert!(bit(&w[..len], slot) == bit_at(&w[..len], slot));
        kani::cover!(bit(&w[..len], slot));
        kani::cover!(slot / 64 >= len);
    }
    #[kani::proof]
    #[kani::unwind(5)]
    fn kbit_set_bit() {
        let w0: [u64; 3] = kani::any();
        let mut w = w0;
        let len: usize = kani::any(); kani::assume(len <= 3);
        let slot: usize = kani::any();
        set_bit(&mut w[..len], slot);
        // every other bit position s (symbolic) is unchanged; position `slot` is set iff its word exists
        let s: usize = kani::any();
        assert!(bit_at(&w[..len], s) == ((s == slot && slot / 64 < len) || bit_at(&w0[..len], s)));
        // words outside the slice untouched
        let k: usize = kani::any(); kani::assume(k < 3);
        if k >= len { assert!(w[k] == w0[k]); }
        kani::cover!(slot / 64 < len);
    }
    #[kani::proof]
    #[kani::unwind(5)]
    fn kbit_clear_bit() {
        let w0: [u64; 3] = kani::any();
        let mut w = w0;
        let len: usize = kani::any(); kani::assume(len <= 3);
        let slot: usize = kani::any();
        clear_bit(&mut w[..len], slot);
        let s: usize = kani::any();
        assert!(bit_at(&w[..len], s) == (s != slot && bit_at(&w0[..len], s)));
        let k: usize = kani::any(); kani::assume(k < 3);
        if k >= len { assert!(w[k] == w0[k]); }
        kani::cover!(slot / 64 < len && bit_at(&w0[..len], slot));
    }

    // @PLAYBACK@
}
