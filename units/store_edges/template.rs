//@unit store_edges
//@properties C06
//@source store src/graph/store.rs
//@source types src/graph/types.rs
//@rules D2 R2
#![feature(allocator_api)]
#![allow(unused_imports, unused_variables, unused_mut, dead_code)]
use vstd::prelude::*;
use vstd::multiset::Multiset;
use std::collections::{HashMap, HashSet};
verus!{
global size_of usize == 8;
//@include common/std_extra.rs

// =====================================================================
// extracted types
// =====================================================================
//@struct NodeId from=types derive=Clone,Copy,PartialEq,Eq,Hash,PartialOrd,Ord,Structural
//@struct EdgeId from=types derive=Clone,Copy,PartialEq,Eq,Hash,Structural
impl NodeId {
//@fn NodeId::as_u64 from=types ret=r
//@ensures
        r == self.0,   //#projection
//@end
//@fn NodeId::new from=types ret=r
//@ensures
        r.0 == id,   //#projection
//@end
}
impl EdgeId {
//@fn EdgeId::as_u64 from=types ret=r
//@ensures
        r == self.0,   //#projection
//@end
//@fn EdgeId::new from=types ret=r
//@ensures
        r.0 == id,   //#projection
//@end
}
pub type Entry = (NodeId, EdgeId);
pub open spec fn sorted_by_nbr(s: Seq<Entry>) -> bool { forall|i: int, j: int| 0 <= i <= j < s.len() ==> s[i].0.0 <= s[j].0.0 }
//@struct GraphStore keep=outgoing,incoming,frozen_outgoing,frozen_incoming,edge_endpoints,edge_type_ids,edge_properties,free_edge_ids,next_edge_id,edge_type_index,current_version
//@item type TxnId
//@enum GraphError
//@item type GraphResult

// =====================================================================
// prelude: stand-ins for what edge creation touches besides the adjacency (D3/D4), assumed std
// =====================================================================
#[verifier::external_body]
#[derive(PartialEq, Eq, Hash)]
pub struct EdgeType { t: u8 }
impl Clone for EdgeType {
    #[verifier::external_body]
    fn clone(&self) -> (r: Self) ensures r == *self { unimplemented!() }
}
/// comparing two edge types with == / != decides whether they are the same type (derived PartialEq on a string newtype; assumed)
impl vstd::std_specs::cmp::PartialEqSpecImpl for EdgeType {
    open spec fn obeys_eq_spec() -> bool { true }
    open spec fn eq_spec(&self, other: &EdgeType) -> bool { *self == *other }
}
#[verifier::external_body]
pub struct PropertyMap { m: u8 }
impl Clone for PropertyMap { #[verifier::external_body] fn clone(&self) -> (r: Self) ensures r == *self { unimplemented!() } }
impl PropertyMap {
    pub uninterp spec fn empty(&self) -> bool;
    #[verifier::external_body] pub fn is_empty(&self) -> (r: bool) ensures r == self.empty() { unimplemented!() }
}
pub struct Edge { pub id: EdgeId, pub version: u64, pub source: NodeId, pub target: NodeId, pub edge_type: EdgeType, pub properties: PropertyMap, pub created_at: i64 }
impl Edge {
    #[verifier::external_body]
    pub fn new(id: EdgeId, source: NodeId, target: NodeId, edge_type: EdgeType) -> (r: Edge)
        ensures r.id == id, r.source == source, r.target == target, r.edge_type == edge_type
    { unimplemented!() }
    #[verifier::external_body]
    pub fn new_with_properties(id: EdgeId, source: NodeId, target: NodeId, edge_type: EdgeType, properties: PropertyMap) -> (r: Edge)
        ensures r.id == id, r.source == source, r.target == target, r.edge_type == edge_type, r.properties == properties
    { unimplemented!() }
}
/// one frozen (CSR) segment as unit store_adj proves it: per node a run of entries sorted by neighbour (from_vec_of_vec)
#[verifier::external_body]
pub struct FrozenAdjacency { f: u8 }
impl FrozenAdjacency {
    pub uninterp spec fn nbrs(&self, i: int) -> Seq<Entry>;
    #[verifier::external_body]
    pub fn neighbors(&self, node_idx: usize) -> (r: &[Entry])
        ensures r@ == self.nbrs(node_idx as int), sorted_by_nbr(r@)
    { unimplemented!() }
}
/// the frozen tier: the segments, oldest first; a node's frozen entries are its runs in the segments, one after the other
pub struct FrozenAdjacencyStore { pub segments: Vec<FrozenAdjacency> }
impl FrozenAdjacencyStore {
    pub open spec fn all_nbrs(segs: Seq<FrozenAdjacency>, k: int, i: int) -> Seq<Entry>
        decreases k
    {
        if k <= 0 { Seq::empty() } else { Self::all_nbrs(segs, k - 1, i) + segs[k - 1].nbrs(i) }
    }
    pub open spec fn nbrs(&self, i: int) -> Seq<Entry> { Self::all_nbrs(self.segments@, self.segments@.len() as int, i) }
    #[verifier::external_body]
    pub fn neighbors_collected(&self, node_idx: usize) -> (r: Vec<Entry>)
        ensures r@ == self.nbrs(node_idx as int)
    { unimplemented!() }
}
/// `opt.map(|v| v.as_slice()).unwrap_or(&[])` (std; assumed; wrapper body is the original chain): the vector as a slice, or nothing
#[verifier::external_body]
pub fn slice_or_empty<'a, T>(o: Option<&'a Vec<T>>) -> (r: &'a [T])
    ensures r@ == (match o { Some(v) => v@, None => Seq::empty() })
{ o.map(|v| v.as_slice()).unwrap_or(&[]) }
/// `v.first()` (std; assumed)
#[verifier::external_body]
pub fn vec_first<T>(v: &Vec<T>) -> (r: Option<&T>)
    ensures r is Some <==> v@.len() > 0, r matches Some(x) ==> *x == v@[0]
{ v.first() }
/// `v.extend(w)` for two vectors (std; assumed): w's elements are appended in order
#[verifier::external_body]
pub fn vec_extend<T>(v: &mut Vec<T>, w: Vec<T>)
    ensures final(v)@ == old(v)@ + w@
{ v.extend(w) }
#[verifier::external_body]
pub proof fn axiom_key_models()
    ensures vstd::std_specs::hash::obeys_key_model::<EdgeId>(), vstd::std_specs::hash::obeys_key_model::<EdgeType>()
{}
//@include common/hashmap_get_mut.rs
/// `m.entry(k).or_insert_with(f)` (A-STD; wrapper body is the original expression): a mutable reference to the value
/// under k, inserted first (as f()) when k was absent; nothing else changes
#[verifier::external_body]
pub fn map_entry_or_insert_with<'a, K: Eq + std::hash::Hash, V, F: FnOnce() -> V>(m: &'a mut HashMap<K, V>, k: K, f: F) -> (r: &'a mut V)
    requires f.requires(())
    ensures
        old(m)@.contains_key(k) ==> *r == old(m)@[k],
        !old(m)@.contains_key(k) ==> f.ensures((), *r),
        final(m)@ == old(m)@.insert(k, *final(r)),
{ m.entry(k).or_insert_with(f) }
/// `list.binary_search_by_key(&key, |(nid, _)| *nid)` (std; assumed; wrapper body is the original call): a position within
/// the list holding the key, or -- when the list is sorted by neighbour -- the position that keeps it sorted
#[verifier::external_body]
pub fn search_by_nbr(list: &Vec<Entry>, key: &NodeId) -> (r: Result<usize, usize>)
    ensures
        r matches Ok(p) ==> p < list@.len() && list@[p as int].0 == *key,
        r matches Err(p) ==> p <= list@.len() && (sorted_by_nbr(list@) ==>
            (forall|i: int| 0 <= i < p ==> (#[trigger] list@[i]).0.0 < key.0) && (forall|i: int| p <= i < list@.len() ==> (#[trigger] list@[i]).0.0 > key.0)),
{ list.binary_search_by_key(key, |(nid, _)| *nid) }
/// the same search on a slice (search_adjacency_slice takes `&[(NodeId, EdgeId)]`)
#[verifier::external_body]
pub fn search_slice_by_nbr(list: &[Entry], key: &NodeId) -> (r: Result<usize, usize>)
    ensures
        r matches Ok(p) ==> p < list@.len() && list@[p as int].0 == *key,
        r matches Err(p) ==> p <= list@.len() && (sorted_by_nbr(list@) ==> forall|i: int| 0 <= i < list@.len() ==> (#[trigger] list@[i]).0 != *key),
{ list.binary_search_by_key(key, |(nid, _)| *nid) }
/// Result::unwrap_or_else (std; assumed)
pub assume_specification<T, E, F: FnOnce(E) -> T>[ Result::<T, E>::unwrap_or_else ](r: Result<T, E>, f: F) -> (o: T)
    requires r matches Err(e) ==> f.requires((e,)),
    ensures r matches Ok(v) ==> o == v, r matches Err(e) ==> f.ensures((e,), o);
/// cloning a pair of Copy ids yields the same pair (A-STD: derived Clone of a Copy type is a copy)
#[verifier::external_body]
pub proof fn axiom_pair_clone()
    ensures forall|a: (NodeId, NodeId), b: (NodeId, NodeId)| #[trigger] vstd::pervasive::cloned(a, b) ==> a == b
{}
#[verifier::external_body]
pub proof fn axiom_vec_len<T>(v: &Vec<T>)
    ensures v@.len() <= usize::MAX
{}

// =====================================================================
// specification (the views of unit store_adj, plus id bookkeeping)
// =====================================================================
pub open spec fn buf(b: Seq<Vec<Entry>>, i: int) -> Seq<Entry> { if 0 <= i < b.len() { b[i]@ } else { Seq::empty() } }
impl GraphStore {
    pub open spec fn out_all(&self, i: int) -> Multiset<Entry> { self.frozen_outgoing.nbrs(i).to_multiset().add(buf(self.outgoing@, i).to_multiset()) }
    pub open spec fn in_all(&self, i: int) -> Multiset<Entry> { self.frozen_incoming.nbrs(i).to_multiset().add(buf(self.incoming@, i).to_multiset()) }
    pub open spec fn live(&self, e: EdgeId) -> bool {
        (e.0 as int) < self.edge_endpoints@.len() && !(self.edge_endpoints@[e.0 as int].0.0 == 0 && self.edge_endpoints@[e.0 as int].1.0 == 0)
    }
    /// an adjacency entry exists only for a live edge, at its own endpoints
    pub open spec fn no_dangling(&self) -> bool {
        (forall|i: int, n: NodeId, e: EdgeId| #[trigger] self.out_all(i).count((n, e)) > 0 ==> self.live(e) && self.edge_endpoints@[e.0 as int] == (NodeId(i as u64), n))
        && (forall|i: int, n: NodeId, e: EdgeId| #[trigger] self.in_all(i).count((n, e)) > 0 ==> self.live(e) && self.edge_endpoints@[e.0 as int] == (n, NodeId(i as u64)))
    }
    /// the ids still to be handed out are dead: those on the free list (each once, below the counter) and those from the
    /// counter upwards; ids start at 1
    pub open spec fn ids_fresh(&self) -> bool {
        &&& self.next_edge_id >= 1
        &&& forall|k: int| 0 <= k < self.free_edge_ids@.len() ==> !self.live(EdgeId(#[trigger] self.free_edge_ids@[k])) && self.free_edge_ids@[k] < self.next_edge_id
        &&& forall|a: int, b: int| 0 <= a < b < self.free_edge_ids@.len() ==> self.free_edge_ids@[a] != self.free_edge_ids@[b]
        &&& forall|x: u64| x >= self.next_edge_id ==> !#[trigger] self.live(EdgeId(x))
    }
    /// a node that exists has a slot in both write buffers and is not node 0 (ids start at 1) -- ASSUMED of has_node
    /// (create_node grows the buffers; unit store_cow / store_mvcc cover the version chains)
    pub open spec fn slot_ok(&self, n: NodeId) -> bool { n.0 != 0 && (n.0 as int) < self.outgoing@.len() && (n.0 as int) < self.incoming@.len() }

    // ---- callees outside the adjacency: stubs (D4) ----
    #[verifier::external_body] pub fn invalidate_statistics_cache(&self) { unimplemented!() }
    #[verifier::external_body] pub fn invalidate_hierarchies_for_edge_type(&self, edge_type: &EdgeType) { unimplemented!() }
    #[verifier::external_body]
    pub fn has_node(&self, id: NodeId) -> (r: bool) ensures r ==> self.slot_ok(id) { unimplemented!() }
    /// the type table (edge_type_table / edge_type_to_id) is outside the projected state
    #[verifier::external_body]
    pub fn intern_edge_type(&self, edge_type: &EdgeType) -> (r: u16) { unimplemented!() }
    /// the columnar copy of edge properties (unit columnar, C30) is outside the projected state
    #[verifier::external_body]
    pub fn note_edge_columns(&self, idx: usize, properties: &PropertyMap) { unimplemented!() }
    /// only live edges have an entry in the sparse property map (delete_edge removes it)
    pub open spec fn props_fresh(&self) -> bool { forall|e: EdgeId| #[trigger] self.edge_properties@.contains_key(e) ==> self.live(e) }
    /// catalog bookkeeping (triple statistics) is outside the projected state
    #[verifier::external_body]
    pub fn note_edge_created(&self, source: NodeId, edge_type: &EdgeType, target: NodeId) { unimplemented!() }
    /// get_edge (unit store_mvcc): what the store answers for an edge id at the current version -- a function of the store;
    /// a live edge with its stored endpoints (assumed here)
    pub uninterp spec fn edge_view(&self, id: EdgeId) -> Option<Edge>;
    #[verifier::external_body]
    pub fn get_edge(&self, id: EdgeId) -> (r: Option<Edge>)
        ensures r == self.edge_view(id), r matches Some(e) ==> e.id == id && self.live(id) && self.edge_endpoints@[id.0 as int] == (e.source, e.target)
    { unimplemented!() }
    /// the edges a list of adjacency entries resolves to, in order (entries whose edge the store does not answer for are skipped)
    pub open spec fn resolve(&self, es: Seq<Entry>) -> Seq<Edge>
        decreases es.len()
    {
        if es.len() == 0 { Seq::empty() } else {
            match self.edge_view(es.last().1) { Some(e) => self.resolve(es.drop_last()).push(e), None => self.resolve(es.drop_last()) }
        }
    }
    pub proof fn lemma_resolve_concat(&self, a: Seq<Entry>, b: Seq<Entry>)
        ensures self.resolve(a + b) == self.resolve(a) + self.resolve(b)
        decreases b.len()
    {
        if b.len() == 0 {
            assert(a + b =~= a);
            assert(self.resolve(a) + Seq::<Edge>::empty() =~= self.resolve(a));
        } else {
            assert((a + b).drop_last() =~= a + b.drop_last());
            assert((a + b).last() == b.last());
            self.lemma_resolve_concat(a, b.drop_last());
            match self.edge_view(b.last().1) {
                Some(e) => { assert((self.resolve(a) + self.resolve(b.drop_last())).push(e) =~= self.resolve(a) + self.resolve(b.drop_last()).push(e)); },
                None => {},
            }
        }
    }
//@item const EDGE_TYPE_UNSET

    /// what creating edge e from source to target does to the two-tier adjacency and the endpoint table
    pub open spec fn edge_added(&self, o: &GraphStore, source: NodeId, target: NodeId, e: EdgeId) -> bool {
        &&& !o.live(e) && self.live(e) && self.edge_endpoints@[e.0 as int] == (source, target)
        &&& forall|x: EdgeId| x != e ==> (#[trigger] self.live(x) == o.live(x)) && (o.live(x) ==> self.edge_endpoints@[x.0 as int] == o.edge_endpoints@[x.0 as int])
        &&& self.outgoing@.len() == o.outgoing@.len() && self.incoming@.len() == o.incoming@.len()
        &&& forall|i: int| #[trigger] self.out_all(i) == if i == source.0 { o.out_all(i).insert((target, e)) } else { o.out_all(i) }
        &&& forall|i: int| #[trigger] self.in_all(i) == if i == target.0 { o.in_all(i).insert((source, e)) } else { o.in_all(i) }
        &&& self.frozen_outgoing == o.frozen_outgoing && self.frozen_incoming == o.frozen_incoming
    }
    pub open spec fn adjacency_same(&self, o: &GraphStore) -> bool {
        self.outgoing@ == o.outgoing@ && self.incoming@ == o.incoming@ && self.edge_endpoints@ == o.edge_endpoints@
            && self.frozen_outgoing == o.frozen_outgoing && self.frozen_incoming == o.frozen_incoming
            && self.free_edge_ids@ == o.free_edge_ids@ && self.next_edge_id == o.next_edge_id && self.edge_properties@ == o.edge_properties@
    }
    /// after edge_added from a store without dangling entries, there are none either, and the new id occurs exactly once on
    /// each side: a reused id inherits nothing from its previous owner
    pub proof fn lemma_added_keeps_no_dangling(&self, o: &GraphStore, source: NodeId, target: NodeId, e: EdgeId)
        requires o.no_dangling(), self.edge_added(o, source, target, e), (source.0 as int) < o.outgoing@.len(), (target.0 as int) < o.incoming@.len()
        ensures
            self.no_dangling(),
            forall|i: int, n: NodeId| #[trigger] self.out_all(i).count((n, e)) == if i == source.0 && n == target { 1nat } else { 0nat },
            forall|i: int, n: NodeId| #[trigger] self.in_all(i).count((n, e)) == if i == target.0 && n == source { 1nat } else { 0nat },
    {
        assert forall|i: int, n: NodeId| #[trigger] self.out_all(i).count((n, e)) == if i == source.0 && n == target { 1nat } else { 0nat } by {
            if o.out_all(i).count((n, e)) > 0 { assert(o.live(e)); }
            assert(self.out_all(i) == if i == source.0 { o.out_all(i).insert((target, e)) } else { o.out_all(i) });
        }
        assert forall|i: int, n: NodeId| #[trigger] self.in_all(i).count((n, e)) == if i == target.0 && n == source { 1nat } else { 0nat } by {
            if o.in_all(i).count((n, e)) > 0 { assert(o.live(e)); }
            assert(self.in_all(i) == if i == target.0 { o.in_all(i).insert((source, e)) } else { o.in_all(i) });
        }
        assert forall|i: int, n: NodeId, x: EdgeId| #[trigger] self.out_all(i).count((n, x)) > 0 implies self.live(x) && self.edge_endpoints@[x.0 as int] == (NodeId(i as u64), n) by {
            assert(self.out_all(i) == if i == source.0 { o.out_all(i).insert((target, e)) } else { o.out_all(i) });
            if x == e {
                assert(self.out_all(i).count((n, e)) == if i == source.0 && n == target { 1nat } else { 0nat });
                assert(i == source.0 && n == target);
                assert(NodeId(i as u64) == source);
            } else {
                assert(o.out_all(i).count((n, x)) > 0);
                assert(self.live(x) == o.live(x));
            }
        }
        assert forall|i: int, n: NodeId, x: EdgeId| #[trigger] self.in_all(i).count((n, x)) > 0 implies self.live(x) && self.edge_endpoints@[x.0 as int] == (n, NodeId(i as u64)) by {
            assert(self.in_all(i) == if i == target.0 { o.in_all(i).insert((source, e)) } else { o.in_all(i) });
            if x == e {
                assert(self.in_all(i).count((n, e)) == if i == target.0 && n == source { 1nat } else { 0nat });
                assert(i == target.0 && n == source);
                assert(NodeId(i as u64) == target);
            } else {
                assert(o.in_all(i).count((n, x)) > 0);
                assert(self.live(x) == o.live(x));
            }
        }
    }

    /// inserting into a sequence adds exactly that element to its multiset
    pub proof fn lemma_insert_multiset(s: Seq<Entry>, pos: int, x: Entry)
        requires 0 <= pos <= s.len()
        ensures s.insert(pos, x).to_multiset() == s.to_multiset().insert(x)
    {
        broadcast use vstd::seq_lib::group_to_multiset_ensures;
        let a = s.take(pos); let b = s.skip(pos);
        assert(s.insert(pos, x) =~= a.push(x) + b);
        assert(s =~= a + b);
        vstd::seq_lib::lemma_multiset_commutative(a.push(x), b);
        vstd::seq_lib::lemma_multiset_commutative(a, b);
        assert(a.push(x).to_multiset() =~= a.to_multiset().insert(x));
        assert(s.insert(pos, x).to_multiset() =~= s.to_multiset().insert(x));
    }
    /// a sorted list stays sorted when an entry is inserted where search_by_nbr says
    pub proof fn lemma_insert_keeps_sorted(s: Seq<Entry>, pos: int, x: Entry)
        requires
            0 <= pos <= s.len(), sorted_by_nbr(s),
            (pos < s.len() && s[pos].0 == x.0) || ((forall|i: int| 0 <= i < pos ==> (#[trigger] s[i]).0.0 < x.0.0) && (forall|i: int| pos <= i < s.len() ==> (#[trigger] s[i]).0.0 > x.0.0)),
        ensures sorted_by_nbr(s.insert(pos, x))
    {
        let t = s.insert(pos, x);
        assert forall|i: int, j: int| 0 <= i <= j < t.len() implies t[i].0.0 <= t[j].0.0 by {
            let oi = if i < pos { i } else { i - 1 };
            let oj = if j < pos { j } else { j - 1 };
            if i != pos && j != pos { assert(t[i] == s[oi] && t[j] == s[oj]); }
            else if i == pos && j != pos { assert(t[j] == s[oj]); if pos < s.len() && s[pos].0 == x.0 { assert(s[pos].0.0 <= s[oj].0.0); } }
            else if j == pos && i != pos { assert(t[i] == s[oi]); if pos < s.len() && s[pos].0 == x.0 { assert(s[oi].0.0 <= s[pos].0.0); } }
        }
    }
    /// the bookkeeping common to both ways of creating an edge: given what the body did to the buffers, the endpoint table
    /// and the id supply, the store gained exactly this edge and the invariants hold
    pub proof fn lemma_edge_created(&self, o: &GraphStore, source: NodeId, target: NodeId, e: EdgeId, popped: bool)
        requires
            o.no_dangling(), o.ids_fresh(), o.next_edge_id < u64::MAX, o.slot_ok(source), o.slot_ok(target),
            popped ==> o.free_edge_ids@.len() > 0 && e.0 == o.free_edge_ids@.last() && self.free_edge_ids@ == o.free_edge_ids@.drop_last() && self.next_edge_id == o.next_edge_id,
            !popped ==> e.0 == o.next_edge_id && self.free_edge_ids@ == o.free_edge_ids@ && self.next_edge_id == o.next_edge_id + 1,
            self.frozen_outgoing == o.frozen_outgoing && self.frozen_incoming == o.frozen_incoming,
            self.outgoing@.len() == o.outgoing@.len() && self.incoming@.len() == o.incoming@.len(),
            forall|i: int| 0 <= i < o.outgoing@.len() && i != source.0 ==> (#[trigger] self.outgoing@[i])@ == o.outgoing@[i]@,
            forall|i: int| 0 <= i < o.incoming@.len() && i != target.0 ==> (#[trigger] self.incoming@[i])@ == o.incoming@[i]@,
            self.outgoing@[source.0 as int]@.to_multiset() == o.outgoing@[source.0 as int]@.to_multiset().insert((target, e)),
            self.incoming@[target.0 as int]@.to_multiset() == o.incoming@[target.0 as int]@.to_multiset().insert((source, e)),
            self.edge_endpoints@.len() > e.0 && self.edge_endpoints@.len() >= o.edge_endpoints@.len(),
            self.edge_endpoints@[e.0 as int] == (source, target),
            forall|k: int| 0 <= k < o.edge_endpoints@.len() && k != e.0 ==> (#[trigger] self.edge_endpoints@[k]) == o.edge_endpoints@[k],
            forall|k: int| o.edge_endpoints@.len() <= k < self.edge_endpoints@.len() && k != e.0 ==> (#[trigger] self.edge_endpoints@[k]) == (NodeId(0), NodeId(0)),
        ensures self.edge_added(o, source, target, e), self.no_dangling(), self.ids_fresh()
    {
        assert(!o.live(e));
        assert forall|x: EdgeId| x != e implies (#[trigger] self.live(x) == o.live(x)) && (o.live(x) ==> self.edge_endpoints@[x.0 as int] == o.edge_endpoints@[x.0 as int]) by {
            if (x.0 as int) < o.edge_endpoints@.len() { assert(self.edge_endpoints@[x.0 as int] == o.edge_endpoints@[x.0 as int]); }
            else if (x.0 as int) < self.edge_endpoints@.len() { assert(self.edge_endpoints@[x.0 as int] == (NodeId(0), NodeId(0))); }
        }
        assert forall|i: int| #[trigger] self.out_all(i) == if i == source.0 { o.out_all(i).insert((target, e)) } else { o.out_all(i) } by {
            if 0 <= i < o.outgoing@.len() {
                if i == source.0 {
                    assert(self.out_all(i) =~= o.out_all(i).insert((target, e)));
                } else { assert(buf(self.outgoing@, i) == buf(o.outgoing@, i)); }
            } else { assert(buf(self.outgoing@, i) =~= buf(o.outgoing@, i)); }
        }
        assert forall|i: int| #[trigger] self.in_all(i) == if i == target.0 { o.in_all(i).insert((source, e)) } else { o.in_all(i) } by {
            if 0 <= i < o.incoming@.len() {
                if i == target.0 {
                    assert(self.in_all(i) =~= o.in_all(i).insert((source, e)));
                } else { assert(buf(self.incoming@, i) == buf(o.incoming@, i)); }
            } else { assert(buf(self.incoming@, i) =~= buf(o.incoming@, i)); }
        }
        assert(self.edge_added(o, source, target, e));
        self.lemma_added_keeps_no_dangling(o, source, target, e);
        assert forall|k: int| 0 <= k < self.free_edge_ids@.len() implies !self.live(EdgeId(#[trigger] self.free_edge_ids@[k])) && self.free_edge_ids@[k] < self.next_edge_id by {
            assert(self.free_edge_ids@[k] == o.free_edge_ids@[k]);
            assert(EdgeId(o.free_edge_ids@[k]) != e);
            assert(self.live(EdgeId(o.free_edge_ids@[k])) == o.live(EdgeId(o.free_edge_ids@[k])));
        }
        assert forall|x: u64| x >= self.next_edge_id implies !#[trigger] self.live(EdgeId(x)) by {
            assert(EdgeId(x) != e);
            assert(self.live(EdgeId(x)) == o.live(EdgeId(x)));
        }
    }

//@fn GraphStore::get_edge_endpoints ret=r
//@ensures
        r is Some <==> self.live(edge_id),      //#some_iff_live
        r matches Some(p) ==> p == self.edge_endpoints@[edge_id.0 as int],      //#the_stored_endpoints
//@end

//@fn GraphStore::has_edge ret=r
//@ensures
        r == self.live(id),      //#exists_iff_live
//@end

//@fn GraphStore::get_outgoing_edges ret=r
//@ensures
        r@ == self.resolve(self.frozen_outgoing.nbrs(node_id.0 as int) + buf(self.outgoing@, node_id.0 as int)),      //#frozen_then_buffered_entries_resolved_in_order
//@loop 1 hoist=fro iter=it
            invariant
                fro@ == self.frozen_outgoing.nbrs(node_id.0 as int),
                result@ == self.resolve(fro@.take(it.index() as int)),      //#resolved_the_frozen_entries_so_far
//@loop 2 iter=it2
                invariant
                    entries@ == buf(self.outgoing@, node_id.0 as int), fro@ == self.frozen_outgoing.nbrs(node_id.0 as int),
                    result@ == self.resolve(fro@) + self.resolve(entries@.take(it2.index() as int)),      //#then_the_buffered_entries_so_far
//@before "if let Some(entries) = self.outgoing.get(idx)"
        proof {
            assert(fro@.take(fro@.len() as int) =~= fro@);
            assert(self.resolve(fro@) + Seq::<Edge>::empty() =~= self.resolve(fro@));
            assert(self.resolve(Seq::<Entry>::empty()) =~= Seq::<Edge>::empty());
        }
//@before "if let Some(e) = self.get_edge(eid) { result.push(e); }" 1
            proof {
                let i = it.index() as int;
                assert(fro@.take(i + 1).drop_last() =~= fro@.take(i));
                assert(fro@.take(i + 1).last() == fro@[i]);
            }
//@before "if let Some(e) = self.get_edge(eid) { result.push(e); }" 2
                proof {
                    let i = it2.index() as int;
                    assert(entries@.take(i + 1).drop_last() =~= entries@.take(i));
                    assert(entries@.take(i + 1).last() == entries@[i]);
                    match self.edge_view(entries@[i].1) {
                        Some(e0) => { assert((self.resolve(fro@) + self.resolve(entries@.take(i))).push(e0) =~= self.resolve(fro@) + self.resolve(entries@.take(i)).push(e0)); },
                        None => {},
                    }
                }
//@afterloop 2
            proof { assert(entries@.take(entries@.len() as int) =~= entries@); }
//@tail out
        proof {
            self.lemma_resolve_concat(fro@, buf(self.outgoing@, node_id.0 as int));
            assert(self.resolve(fro@) + Seq::<Edge>::empty() =~= self.resolve(fro@));
        }
//@end

//@fn GraphStore::get_incoming_edges ret=r
//@ensures
        r@ == self.resolve(self.frozen_incoming.nbrs(node_id.0 as int) + buf(self.incoming@, node_id.0 as int)),      //#frozen_then_buffered_entries_resolved_in_order
//@loop 1 hoist=fro iter=it
            invariant
                fro@ == self.frozen_incoming.nbrs(node_id.0 as int),
                result@ == self.resolve(fro@.take(it.index() as int)),      //#resolved_the_frozen_entries_so_far
//@loop 2 iter=it2
                invariant
                    entries@ == buf(self.incoming@, node_id.0 as int), fro@ == self.frozen_incoming.nbrs(node_id.0 as int),
                    result@ == self.resolve(fro@) + self.resolve(entries@.take(it2.index() as int)),      //#then_the_buffered_entries_so_far
//@before "if let Some(entries) = self.incoming.get(idx)"
        proof {
            assert(fro@.take(fro@.len() as int) =~= fro@);
            assert(self.resolve(fro@) + Seq::<Edge>::empty() =~= self.resolve(fro@));
            assert(self.resolve(Seq::<Entry>::empty()) =~= Seq::<Edge>::empty());
        }
//@before "if let Some(e) = self.get_edge(eid) { result.push(e); }" 1
            proof {
                let i = it.index() as int;
                assert(fro@.take(i + 1).drop_last() =~= fro@.take(i));
                assert(fro@.take(i + 1).last() == fro@[i]);
            }
//@before "if let Some(e) = self.get_edge(eid) { result.push(e); }" 2
                proof {
                    let i = it2.index() as int;
                    assert(entries@.take(i + 1).drop_last() =~= entries@.take(i));
                    assert(entries@.take(i + 1).last() == entries@[i]);
                    match self.edge_view(entries@[i].1) {
                        Some(e0) => { assert((self.resolve(fro@) + self.resolve(entries@.take(i))).push(e0) =~= self.resolve(fro@) + self.resolve(entries@.take(i)).push(e0)); },
                        None => {},
                    }
                }
//@afterloop 2
            proof { assert(entries@.take(entries@.len() as int) =~= entries@); }
//@tail out
        proof {
            self.lemma_resolve_concat(fro@, buf(self.incoming@, node_id.0 as int));
            assert(self.resolve(fro@) + Seq::<Edge>::empty() =~= self.resolve(fro@));
        }
//@end

    /// get_edge_type (unit store_mvcc): the interned type of an edge, a function of the store (assumed here)
    pub uninterp spec fn type_view(&self, id: EdgeId) -> Option<EdgeType>;
    #[verifier::external_body]
    pub fn get_edge_type(&self, edge_id: EdgeId) -> (r: Option<EdgeType>) ensures r == self.type_view(edge_id) { unimplemented!() }
    /// does the edge behind an adjacency entry count as an edge from source to target of the wanted type?
    pub open spec fn edge_ok(&self, eid: EdgeId, source: NodeId, target: NodeId, et: Option<EdgeType>) -> bool {
        match self.edge_view(eid) {
            Some(e) => e.source == source && e.target == target && (et matches Some(t) ==> e.edge_type == t),
            None => (et matches Some(t) ==> self.type_view(eid) == Some(t)),
        }
    }
    /// the ids of the entries whose neighbour is `key` and whose edge counts, in order
    pub open spec fn found(&self, es: Seq<Entry>, key: NodeId, source: NodeId, target: NodeId, et: Option<EdgeType>) -> Seq<EdgeId>
        decreases es.len()
    {
        if es.len() == 0 { Seq::empty() }
        else if es.last().0 == key && self.edge_ok(es.last().1, source, target, et) { self.found(es.drop_last(), key, source, target, et).push(es.last().1) }
        else { self.found(es.drop_last(), key, source, target, et) }
    }
    pub proof fn lemma_found_concat(&self, a: Seq<Entry>, b: Seq<Entry>, key: NodeId, source: NodeId, target: NodeId, et: Option<EdgeType>)
        ensures self.found(a + b, key, source, target, et) == self.found(a, key, source, target, et) + self.found(b, key, source, target, et)
        decreases b.len()
    {
        if b.len() == 0 {
            assert(a + b =~= a);
            assert(self.found(a, key, source, target, et) + Seq::<EdgeId>::empty() =~= self.found(a, key, source, target, et));
        } else {
            assert((a + b).drop_last() =~= a + b.drop_last());
            assert((a + b).last() == b.last());
            self.lemma_found_concat(a, b.drop_last(), key, source, target, et);
            if b.last().0 == key && self.edge_ok(b.last().1, source, target, et) {
                let fa = self.found(a, key, source, target, et); let fb = self.found(b.drop_last(), key, source, target, et);
                assert((fa + fb).push(b.last().1) =~= fa + fb.push(b.last().1));
            }
        }
    }
    /// the matches in the first k segments are a prefix of the matches in all of them
    pub proof fn lemma_found_prefix(&self, segs: Seq<FrozenAdjacency>, k: int, i: int, key: NodeId, source: NodeId, target: NodeId, et: Option<EdgeType>)
        requires 0 <= k <= segs.len()
        ensures ({
            let part = self.found(FrozenAdjacencyStore::all_nbrs(segs, k, i), key, source, target, et);
            let whole = self.found(FrozenAdjacencyStore::all_nbrs(segs, segs.len() as int, i), key, source, target, et);
            part.len() <= whole.len() && whole.take(part.len() as int) == part })
        decreases segs.len() - k
    {
        let part = self.found(FrozenAdjacencyStore::all_nbrs(segs, k, i), key, source, target, et);
        if k == segs.len() {
            assert(part.take(part.len() as int) =~= part);
        } else {
            self.lemma_found_prefix(segs, k + 1, i, key, source, target, et);
            self.lemma_found_concat(FrozenAdjacencyStore::all_nbrs(segs, k, i), segs[k].nbrs(i), key, source, target, et);
            let next = self.found(FrozenAdjacencyStore::all_nbrs(segs, k + 1, i), key, source, target, et);
            let whole = self.found(FrozenAdjacencyStore::all_nbrs(segs, segs.len() as int, i), key, source, target, et);
            assert(next.take(part.len() as int) =~= part);
            assert(whole.take(part.len() as int) =~= whole.take(next.len() as int).take(part.len() as int));
        }
    }
    /// entries none of which has the key contribute nothing
    pub proof fn lemma_found_none(&self, es: Seq<Entry>, key: NodeId, source: NodeId, target: NodeId, et: Option<EdgeType>)
        requires forall|i: int| 0 <= i < es.len() ==> (#[trigger] es[i]).0 != key
        ensures self.found(es, key, source, target, et) == Seq::<EdgeId>::empty()
        decreases es.len()
    {
        if es.len() > 0 {
            assert forall|i: int| 0 <= i < es.drop_last().len() implies (#[trigger] es.drop_last()[i]).0 != key by { assert(es.drop_last()[i] == es[i]); }
            self.lemma_found_none(es.drop_last(), key, source, target, et);
        }
    }

//@fn GraphStore::search_adjacency_slice ret=r
//@replace "entries.binary_search_by_key(&search_key, |(nid, _)| *nid)" => "search_slice_by_nbr(entries, &search_key)" :: slice method with a key closure over a tuple pattern: routed through a wrapper whose body is the same call
//@requires
        sorted_by_nbr(entries@),
//@ensures
        r@ == self.found(entries@, search_key, source, target, match edge_type { Some(t) => Some(*t), None => None }),      //#exactly_the_matching_entries_of_the_key_s_run_in_order
//@atstart
        let ghost etv: Option<EdgeType> = match edge_type { Some(t) => Some(*t), None => None };
        proof {
            if forall|i: int| 0 <= i < entries@.len() ==> (#[trigger] entries@[i]).0 != search_key {
                self.lemma_found_none(entries@, search_key, source, target, etv);
            }
        }
//@loop 1
                invariant 0 <= p <= pos < entries@.len(), sorted_by_nbr(entries@),
                    forall|i: int| p <= i <= pos ==> (#[trigger] entries@[i]).0 == search_key,
                decreases p
//@loop 2 iter=it
            invariant_except_break
                done == it.index(),
            invariant
                sorted_by_nbr(entries@), 0 <= start < entries@.len(), etv == (match edge_type { Some(t) => Some(*t), None => None }),
                0 <= done, start + done <= entries@.len(), entries@[start as int].0 == search_key,
                forall|i: int| 0 <= i < start ==> (#[trigger] entries@[i]).0 != search_key,
                forall|i: int| start <= i < start + done ==> (#[trigger] entries@[i]).0 == search_key,
                result@ == self.found(entries@.subrange(start as int, start + done), search_key, source, target, etv),      //#found_in_the_run_so_far
            ensures
                start + done == entries@.len() || entries@[start + done].0 != search_key,      //#the_run_ends_here
//@beforeloop 2
        let ghost mut done: int = 0;
        proof {
            assert(entries@.subrange(start as int, start as int) =~= Seq::<Entry>::empty());
            assert forall|i: int| 0 <= i < start implies (#[trigger] entries@[i]).0 != search_key by {
                if entries@[i].0 == search_key { assert(entries@[i].0.0 <= entries@[start - 1].0.0); assert(entries@[start - 1].0.0 <= entries@[start as int].0.0); }
            }
        }
//@loopstart 2
            proof {
                let j = start + done;
                assert(i == j);
                assert(entries@.subrange(start as int, j + 1).drop_last() =~= entries@.subrange(start as int, j));
                assert(entries@.subrange(start as int, j + 1).last() == entries@[j]);
            }
//@loopend 2
            proof { done = done + 1; }
//@atend
        proof {
            // the run [start, start + done) holds every entry with the key; what lies before and after contributes nothing
            let n = entries@.len() as int;
            let e_ = start + done;
            let a = entries@.subrange(0, start as int);
            let run = entries@.subrange(start as int, e_);
            let rest = entries@.subrange(e_, n);
            assert(entries@ =~= a + run + rest);
            assert forall|i: int| 0 <= i < rest.len() implies (#[trigger] rest[i]).0 != search_key by {
                assert(rest[i] == entries@[e_ + i]);
                assert(entries@[start as int].0.0 <= entries@[e_].0.0 && entries@[e_].0.0 <= entries@[e_ + i].0.0);
            }
            self.lemma_found_none(a, search_key, source, target, etv);
            self.lemma_found_none(rest, search_key, source, target, etv);
            self.lemma_found_concat(a, run, search_key, source, target, etv);
            self.lemma_found_concat(a + run, rest, search_key, source, target, etv);
            assert(Seq::<EdgeId>::empty() + self.found(run, search_key, source, target, etv) =~= self.found(run, search_key, source, target, etv));
            assert(self.found(run, search_key, source, target, etv) + Seq::<EdgeId>::empty() =~= self.found(run, search_key, source, target, etv));
        }
//@end

//@fn GraphStore::edges_between ret=r
//@replaceall "result.extend(" => "vec_extend(&mut result, " :: Vec::extend (generic over IntoIterator) has no Verus specification: wrapper whose body is the same call
//@requires
        sorted_by_nbr(buf(self.outgoing@, source.0 as int)),      // the write buffer of the source is kept sorted by create_edge / delete_edge (store_adj, store_edges)
//@ensures
        r@ == self.found(self.frozen_outgoing.nbrs(source.0 as int) + buf(self.outgoing@, source.0 as int), target, source, target,
            match edge_type { Some(t) => Some(*t), None => None }),      //#every_matching_entry_frozen_then_buffered
//@atstart
        let ghost etv: Option<EdgeType> = match edge_type { Some(t) => Some(*t), None => None };
        let ghost segs = self.frozen_outgoing.segments@;
//@loop 1 iter=its
            invariant
                src_idx == source.0, segs == self.frozen_outgoing.segments@, etv == (match edge_type { Some(t) => Some(*t), None => None }),
                its.seq().len() == segs.len(), forall|k: int| 0 <= k < segs.len() ==> *(#[trigger] its.seq()[k]) == segs[k],
                result@ == self.found(FrozenAdjacencyStore::all_nbrs(segs, its.index() as int, src_idx as int), target, source, target, etv),      //#segments_so_far
//@loopstart 1
            proof {
                let k = its.index() as int;
                assert(*seg == segs[k]);
                self.lemma_found_concat(FrozenAdjacencyStore::all_nbrs(segs, k, src_idx as int), segs[k].nbrs(src_idx as int), target, source, target, etv);
            }
//@atend
        proof {
            self.lemma_found_concat(self.frozen_outgoing.nbrs(src_idx as int), buf(self.outgoing@, src_idx as int), target, source, target, etv);
            assert(self.found(Seq::<Entry>::empty(), target, source, target, etv) =~= Seq::<EdgeId>::empty());
            assert(result@ + Seq::<EdgeId>::empty() =~= result@);
        }
//@end

//@fn GraphStore::edge_between ret=r
//@replace "self.outgoing.get(src_idx).map(|v| v.as_slice()).unwrap_or(&[])" => "slice_or_empty(self.outgoing.get(src_idx))" :: Option::map/unwrap_or over slices: wrapper whose body is the same chain
//@replaceall "found.first()" => "vec_first(&found)" :: Vec::first through a wrapper (same call)
//@requires
        sorted_by_nbr(buf(self.outgoing@, source.0 as int)),
//@ensures
        r is Some <==> self.found(self.frozen_outgoing.nbrs(source.0 as int) + buf(self.outgoing@, source.0 as int), target, source, target,
            match edge_type { Some(t) => Some(*t), None => None }).len() > 0,      //#some_iff_a_matching_entry_exists
        r matches Some(e) ==> self.found(self.frozen_outgoing.nbrs(source.0 as int) + buf(self.outgoing@, source.0 as int), target, source, target,
            match edge_type { Some(t) => Some(*t), None => None }).contains(e),      //#returns_a_matching_edge
//@atstart
        let ghost etv: Option<EdgeType> = match edge_type { Some(t) => Some(*t), None => None };
        let ghost segs = self.frozen_outgoing.segments@;
        let ghost fz = self.frozen_outgoing.nbrs(source.0 as int);
        let ghost bf = buf(self.outgoing@, source.0 as int);
        proof { self.lemma_found_concat(fz, bf, target, source, target, etv); }
//@after "let found = self.search_adjacency_slice(buffer_entries"
        proof {
            if found@.len() > 0 {
                let fa = self.found(fz, target, source, target, etv);
                assert((fa + found@)[fa.len() as int] == found@[0]);
            }
        }
//@loop 1 iter=its
            invariant
                src_idx == source.0, segs == self.frozen_outgoing.segments@, etv == (match edge_type { Some(t) => Some(*t), None => None }),
                fz == self.frozen_outgoing.nbrs(source.0 as int), bf == buf(self.outgoing@, source.0 as int),
                self.found(fz + bf, target, source, target, etv) == self.found(fz, target, source, target, etv) + self.found(bf, target, source, target, etv),
                self.found(bf, target, source, target, etv).len() == 0,
                its.seq().len() == segs.len(), forall|k: int| 0 <= k < segs.len() ==> *(#[trigger] its.seq()[k]) == segs[k],
                self.found(FrozenAdjacencyStore::all_nbrs(segs, its.index() as int, src_idx as int), target, source, target, etv).len() == 0,      //#nothing_in_the_segments_so_far
//@loopstart 1
            proof {
                let k = its.index() as int;
                assert(*seg == segs[k]);
                self.lemma_found_concat(FrozenAdjacencyStore::all_nbrs(segs, k, src_idx as int), segs[k].nbrs(src_idx as int), target, source, target, etv);
                // a hit in segment k is a hit in the whole frozen tier: the later segments only append
                self.lemma_found_prefix(segs, k + 1, src_idx as int, target, source, target, etv);
            }
//@end

//@fn GraphStore::create_edge_stub ret=r
//@replace "edge_type: impl Into<EdgeType>" => "edge_type: EdgeType" :: generic Into<EdgeType> argument taken as the EdgeType it is converted to
//@replace "edge_type.into()" => "edge_type" :: same
//@requires
        old(self).no_dangling(), old(self).ids_fresh(), old(self).next_edge_id < u64::MAX,
        old(self).slot_ok(source), old(self).slot_ok(target),      // the bulk loader's contract: both nodes were created first
//@ensures
        r is Ok,      //#never_refuses
        final(self).edge_properties@ == old(self).edge_properties@,      //#sparse_properties_untouched
        r matches Ok(e) ==> final(self).edge_added(old(self), source, target, e),      //#adds_exactly_this_edge
        final(self).no_dangling() && final(self).ids_fresh(),      //#invariants_kept
//@atstart
        proof { axiom_pair_clone(); axiom_vec_len(&self.edge_endpoints); }
        let ghost popped = old(self).free_edge_ids@.len() > 0;
//@atend
        proof {
            broadcast use vstd::seq_lib::group_to_multiset_ensures;
            self.lemma_edge_created(&*old(self), source, target, edge_id, popped);
        }
//@end

//@fn GraphStore::create_edge ret=r
//@replace "edge_type: impl Into<EdgeType>" => "edge_type: EdgeType" :: generic Into<EdgeType> argument taken as the EdgeType it is converted to
//@replace "edge_type.into()" => "edge_type" :: same
//@replace "out_list.binary_search_by_key(&target, |(nid, _)| *nid)" => "search_by_nbr(out_list, &target)" :: slice method with a key closure over a tuple pattern: routed through a wrapper whose body is the same call
//@replace "in_list.binary_search_by_key(&source, |(nid, _)| *nid)" => "search_by_nbr(in_list, &source)" :: same
//@replace "self.edge_type_index<NL>                    .entry(edge_type.clone())<NL>                    .or_insert_with(HashSet::new)" => "map_entry_or_insert_with(&mut self.edge_type_index, edge_type.clone(), HashSet::new)" :: HashMap entry API: wrapper whose body is the original chain
//@replacespan "let version = self.current_version;" .. "self.catalog.on_edge_created(source, src_labels, &edge_type, target, tgt_labels);" => "self.note_edge_created(source, &edge_type, target);" :: catalog bookkeeping outside the projected state (D4; a closure returning borrowed label sets and a static OnceLock): stub
//@requires
        old(self).no_dangling(), old(self).ids_fresh(), old(self).next_edge_id < u64::MAX,
//@ensures
        r matches Ok(e) ==> final(self).edge_added(old(self), source, target, e),      //#adds_exactly_this_edge
        r is Err ==> final(self).adjacency_same(old(self)),      //#refused_changes_nothing
        final(self).edge_properties@ == old(self).edge_properties@,      //#sparse_properties_untouched
        final(self).no_dangling() && final(self).ids_fresh(),      //#invariants_kept
        r matches Ok(e) ==> final(self).edge_type_index@.contains_key(edge_type)
            && final(self).edge_type_index@[edge_type]@ == (if old(self).edge_type_index@.contains_key(edge_type) { old(self).edge_type_index@[edge_type]@ } else { Set::<EdgeId>::empty() }).insert(e),      //#indexed_under_its_type
        r is Ok ==> forall|t: EdgeType| t != edge_type ==> (#[trigger] final(self).edge_type_index@.contains_key(t)) == old(self).edge_type_index@.contains_key(t)
            && (old(self).edge_type_index@.contains_key(t) ==> final(self).edge_type_index@[t] == old(self).edge_type_index@[t]),      //#other_types_index_untouched
        r is Err ==> final(self).edge_type_index@ == old(self).edge_type_index@,      //#refused_leaves_the_type_index
        r is Ok ==> (sorted_by_nbr(old(self).outgoing@[source.0 as int]@) ==> sorted_by_nbr(final(self).outgoing@[source.0 as int]@))
            && (sorted_by_nbr(old(self).incoming@[target.0 as int]@) ==> sorted_by_nbr(final(self).incoming@[target.0 as int]@)),      //#sorted_buffers_stay_sorted
//@closure unwrap_or_else#1 (p: usize) -> (o: usize) ensures o == p
//@closure unwrap_or_else#2 (p: usize) -> (o: usize) ensures o == p
//@atstart
        proof { axiom_pair_clone(); axiom_key_models(); axiom_vec_len(&self.edge_endpoints); }
        let ghost popped = old(self).free_edge_ids@.len() > 0;
//@before "out_list.insert(pos, (target, edge_id));"
            proof {
                Self::lemma_insert_multiset(out_list@, pos as int, (target, edge_id));
                if sorted_by_nbr(out_list@) { Self::lemma_insert_keeps_sorted(out_list@, pos as int, (target, edge_id)); }
            }
//@before "in_list.insert(pos, (source, edge_id));"
            proof {
                Self::lemma_insert_multiset(in_list@, pos as int, (source, edge_id));
                if sorted_by_nbr(in_list@) { Self::lemma_insert_keeps_sorted(in_list@, pos as int, (source, edge_id)); }
            }
//@atend
        proof {
            self.lemma_edge_created(&*old(self), source, target, edge_id, popped);
        }
//@end

//@fn GraphStore::create_edge_with_properties ret=r
//@replace "edge_type: impl Into<EdgeType>" => "edge_type: EdgeType" :: generic Into<EdgeType> argument taken as the EdgeType it is converted to
//@replace "edge_type.into()" => "edge_type" :: same
//@replace "out_list.binary_search_by_key(&target, |(nid, _)| *nid)" => "search_by_nbr(out_list, &target)" :: slice method with a key closure over a tuple pattern: routed through a wrapper whose body is the same call
//@replace "in_list.binary_search_by_key(&source, |(nid, _)| *nid)" => "search_by_nbr(in_list, &source)" :: same
//@replace "self.edge_type_index<NL>                    .entry(edge_type.clone())<NL>                    .or_insert_with(HashSet::new)" => "map_entry_or_insert_with(&mut self.edge_type_index, edge_type.clone(), HashSet::new)" :: HashMap entry API: wrapper whose body is the original chain
//@replacespan "let version = self.current_version;" .. "self.catalog.on_edge_created(source, src_labels, &edge_type, target, tgt_labels);" => "self.note_edge_created(source, &edge_type, target);" :: catalog bookkeeping outside the projected state (D4; a closure returning borrowed label sets and a static OnceLock): stub
//@replacespan "for (key, value) in &properties {" .. "}" => "self.note_edge_columns(idx, &properties);" :: the columnar copy of the properties (unit columnar) is outside the projected state (D4; iteration over the opaque property map): stub
//@requires
        old(self).no_dangling(), old(self).ids_fresh(), old(self).next_edge_id < u64::MAX, old(self).props_fresh(),
//@ensures
        r matches Ok(e) ==> final(self).edge_added(old(self), source, target, e),      //#adds_exactly_this_edge
        r is Err ==> final(self).adjacency_same(old(self)),      //#refused_changes_nothing
        final(self).no_dangling() && final(self).ids_fresh() && final(self).props_fresh(),      //#invariants_kept
        r matches Ok(e) ==> (if properties.empty() { !final(self).edge_properties@.contains_key(e) } else { final(self).edge_properties@.contains_key(e) && final(self).edge_properties@[e] == properties }),      //#carries_exactly_the_given_properties
        r matches Ok(e) ==> forall|x: EdgeId| x != e ==> (#[trigger] final(self).edge_properties@.contains_key(x)) == old(self).edge_properties@.contains_key(x)
            && (old(self).edge_properties@.contains_key(x) ==> final(self).edge_properties@[x] == old(self).edge_properties@[x]),      //#other_edges_properties_untouched
        r is Err ==> final(self).edge_properties@ == old(self).edge_properties@,      //#refused_leaves_the_properties
        r matches Ok(e) ==> final(self).edge_type_index@.contains_key(edge_type)
            && final(self).edge_type_index@[edge_type]@ == (if old(self).edge_type_index@.contains_key(edge_type) { old(self).edge_type_index@[edge_type]@ } else { Set::<EdgeId>::empty() }).insert(e),      //#indexed_under_its_type
        r is Ok ==> forall|t: EdgeType| t != edge_type ==> (#[trigger] final(self).edge_type_index@.contains_key(t)) == old(self).edge_type_index@.contains_key(t)
            && (old(self).edge_type_index@.contains_key(t) ==> final(self).edge_type_index@[t] == old(self).edge_type_index@[t]),      //#other_types_index_untouched
        r is Err ==> final(self).edge_type_index@ == old(self).edge_type_index@,      //#refused_leaves_the_type_index
        r is Ok ==> (sorted_by_nbr(old(self).outgoing@[source.0 as int]@) ==> sorted_by_nbr(final(self).outgoing@[source.0 as int]@))
            && (sorted_by_nbr(old(self).incoming@[target.0 as int]@) ==> sorted_by_nbr(final(self).incoming@[target.0 as int]@)),      //#sorted_buffers_stay_sorted
//@closure unwrap_or_else#1 (p: usize) -> (o: usize) ensures o == p
//@closure unwrap_or_else#2 (p: usize) -> (o: usize) ensures o == p
//@atstart
        proof { axiom_pair_clone(); axiom_key_models(); axiom_vec_len(&self.edge_endpoints); }
        let ghost popped = old(self).free_edge_ids@.len() > 0;
//@before "out_list.insert(pos, (target, edge_id));"
            proof {
                Self::lemma_insert_multiset(out_list@, pos as int, (target, edge_id));
                if sorted_by_nbr(out_list@) { Self::lemma_insert_keeps_sorted(out_list@, pos as int, (target, edge_id)); }
            }
//@before "in_list.insert(pos, (source, edge_id));"
            proof {
                Self::lemma_insert_multiset(in_list@, pos as int, (source, edge_id));
                if sorted_by_nbr(in_list@) { Self::lemma_insert_keeps_sorted(in_list@, pos as int, (source, edge_id)); }
            }
//@atend
        proof {
            self.lemma_edge_created(&*old(self), source, target, edge_id, popped);
        }
//@end
}

} // verus!
fn main() {}
