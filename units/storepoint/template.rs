//@unit storepoint
//@properties C17
//@source storage src/persistence/storage.rs
//@rules D2 R1
#![feature(allocator_api)]
#![allow(unused_imports, unused_variables, unused_mut, dead_code)]
use vstd::prelude::*;
use std::collections::HashMap;
// `format!` with two arguments (A-STR, assumed): this macro_rules shadows std's macro inside the unit and routes the SAME
// arguments, unchanged, to a stand-in whose result is an uninterpreted function of the format string and the arguments;
// two axioms say what that function is for the two key formats of this file, literally.
macro_rules! format {
    ($fmt:literal, $a:expr, $b:expr) => { vx_format2($fmt, $a, $b) };
}
verus!{
//@include common/std_extra.rs
// =====================================================================
// key layout, as mathematics over byte sequences
// =====================================================================
pub open spec fn no_colon(t: Seq<u8>) -> bool { forall|i: int| 0 <= i < t.len() ==> t[i] != 58u8 }
/// sixteen lower-case hexadecimal digits of a number (A-HEX, assumed of `{:016x}`): always 16 bytes, never ':', one-to-one
pub uninterp spec fn hex16(x: u64) -> Seq<u8>;
#[verifier::external_body]
pub proof fn axiom_hex16()
    ensures
        forall|x: u64| (#[trigger] hex16(x)).len() == 16,
        forall|x: u64, y: u64| #[trigger] hex16(x) == #[trigger] hex16(y) ==> x == y,
{}
/// the key of a node / an edge: tenant ':' 'n'|'e' ':' sixteen hex digits
pub open spec fn node_key_spec(t: Seq<u8>, id: u64) -> Seq<u8> { t + seq![58u8, 110u8, 58u8] + hex16(id) }
pub open spec fn edge_key_spec(t: Seq<u8>, id: u64) -> Seq<u8> { t + seq![58u8, 101u8, 58u8] + hex16(id) }
/// C17 for point operations: two accepted tenants (no ':' in the name) never share a key, and a tenant's two ids never do
pub proof fn lemma_node_keys_separate(t1: Seq<u8>, i1: u64, t2: Seq<u8>, i2: u64)
    requires no_colon(t1), no_colon(t2), node_key_spec(t1, i1) == node_key_spec(t2, i2)
    ensures t1 == t2 && i1 == i2
{
    axiom_hex16();
    let k1 = node_key_spec(t1, i1); let k2 = node_key_spec(t2, i2);
    assert(k1.len() == t1.len() + 19 && k2.len() == t2.len() + 19);
    assert(t1.len() == t2.len());
    assert forall|j: int| 0 <= j < t1.len() implies t1[j] == t2[j] by { assert(k1[j] == t1[j] && k2[j] == t2[j]); }
    assert(t1 =~= t2);
    assert forall|j: int| 0 <= j < 16 implies hex16(i1)[j] == hex16(i2)[j] by {
        assert(k1[t1.len() + 3 + j] == hex16(i1)[j]);
        assert(k2[t2.len() + 3 + j] == hex16(i2)[j]);
    }
    assert(hex16(i1) =~= hex16(i2));
}
pub proof fn lemma_edge_keys_separate(t1: Seq<u8>, i1: u64, t2: Seq<u8>, i2: u64)
    requires no_colon(t1), no_colon(t2), edge_key_spec(t1, i1) == edge_key_spec(t2, i2)
    ensures t1 == t2 && i1 == i2
{
    axiom_hex16();
    let k1 = edge_key_spec(t1, i1); let k2 = edge_key_spec(t2, i2);
    assert(k1.len() == t1.len() + 19 && k2.len() == t2.len() + 19);
    assert(t1.len() == t2.len());
    assert forall|j: int| 0 <= j < t1.len() implies t1[j] == t2[j] by { assert(k1[j] == t1[j] && k2[j] == t2[j]); }
    assert(t1 =~= t2);
    assert forall|j: int| 0 <= j < 16 implies hex16(i1)[j] == hex16(i2)[j] by {
        assert(k1[t1.len() + 3 + j] == hex16(i1)[j]);
        assert(k2[t2.len() + 3 + j] == hex16(i2)[j]);
    }
    assert(hex16(i1) =~= hex16(i2));
}

// =====================================================================
// prelude: RocksDB, bincode and the graph types are external (A-EXT); assumed contracts
// =====================================================================
pub struct DbError;
pub struct BincodeError;
pub struct Cf;
impl Cf { pub uninterp spec fn name(&self) -> Seq<char>; }
/// the database as a map (column family name, key) -> value (ghost view).  R1: the interior mutability of RocksDB's `&self`
/// writers is erased -- put/delete take &mut here and the functions that call them are extracted with `&mut self`
pub struct DB { pub m: Ghost<Map<(Seq<char>, Seq<u8>), Seq<u8>>> }
impl DB {
    #[verifier::external_body]
    pub fn cf_handle(&self, name: &str) -> (r: Option<Cf>)
        ensures r matches Some(cf) ==> cf.name() == name@
    { unimplemented!() }
    #[verifier::external_body]
    pub fn put_cf(&mut self, cf: &Cf, key: Vec<u8>, value: Vec<u8>) -> (r: Result<(), DbError>)
        ensures r is Ok ==> final(self).m@ == old(self).m@.insert((cf.name(), key@), value@), r is Err ==> final(self).m@ == old(self).m@
    { unimplemented!() }
    #[verifier::external_body]
    pub fn get_cf(&self, cf: &Cf, key: Vec<u8>) -> (r: Result<Option<Vec<u8>>, DbError>)
        ensures
            r matches Ok(Some(v)) ==> self.m@.contains_key((cf.name(), key@)) && self.m@[(cf.name(), key@)] == v@,
            r matches Ok(None) ==> !self.m@.contains_key((cf.name(), key@)),
    { unimplemented!() }
    #[verifier::external_body]
    pub fn delete_cf(&mut self, cf: &Cf, key: Vec<u8>) -> (r: Result<(), DbError>)
        ensures r is Ok ==> final(self).m@ == old(self).m@.remove((cf.name(), key@)), r is Err ==> final(self).m@ == old(self).m@
    { unimplemented!() }
}
pub mod bincode {
    use super::*;
    #[verifier::external_body]
    pub fn serialize<T>(p: &T) -> (r: Result<Vec<u8>, BincodeError>) { unimplemented!() }
    #[verifier::external_body]
    pub fn deserialize<T>(b: &[u8]) -> (r: Result<T, BincodeError>) { unimplemented!() }
}
pub type PropertyMap = Vec<u8>;   // opaque stand-in: only moved around here
pub struct Label(pub String);
impl Label {
    #[verifier::external_body] pub fn new(s: String) -> (r: Label) ensures r.0 == s { unimplemented!() }
    #[verifier::external_body] pub fn as_str(&self) -> (r: &str) { unimplemented!() }
}
pub struct EdgeType(pub String);
impl EdgeType {
    #[verifier::external_body] pub fn new(s: String) -> (r: EdgeType) ensures r.0 == s { unimplemented!() }
    #[verifier::external_body] pub fn as_str(&self) -> (r: &str) { unimplemented!() }
}
pub mod graph { pub use super::Label; pub use super::EdgeType; }
#[derive(Clone, Copy)]
pub struct NodeId(pub u64);
impl NodeId { pub fn new(id: u64) -> (r: NodeId) ensures r.0 == id { NodeId(id) }  pub fn as_u64(&self) -> (r: u64) ensures r == self.0 { self.0 } }
#[derive(Clone, Copy)]
pub struct EdgeId(pub u64);
impl EdgeId { pub fn new(id: u64) -> (r: EdgeId) ensures r.0 == id { EdgeId(id) }  pub fn as_u64(&self) -> (r: u64) ensures r == self.0 { self.0 } }
/// the label set of a node as far as storage goes: turned into / built from a list of strings (contract-free)
pub struct LabelSet { pub v: Vec<Label> }
#[verifier::external_body]
pub fn labels_to_strings(ls: &LabelSet) -> Vec<String> { unimplemented!() }
#[verifier::external_body]
pub fn strings_to_labels(ss: Vec<String>) -> LabelSet { unimplemented!() }
pub struct Node { pub id: NodeId, pub version: u64, pub labels: LabelSet, pub properties: PropertyMap, pub created_at: i64, pub updated_at: i64 }
pub struct Edge { pub id: EdgeId, pub version: u64, pub source: NodeId, pub target: NodeId, pub edge_type: EdgeType, pub properties: PropertyMap, pub created_at: i64 }
pub enum StorageError { RocksDb(DbError), Serialization(BincodeError), NotFound(String), ColumnFamily(String) }
impl From<DbError> for StorageError { #[verifier::external_body] fn from(e: DbError) -> Self { StorageError::RocksDb(e) } }
impl From<BincodeError> for StorageError { #[verifier::external_body] fn from(e: BincodeError) -> Self { StorageError::Serialization(e) } }
pub type StorageResult<T> = Result<T, StorageError>;
/// the bytes of a tenant name
pub uninterp spec fn tenant_bytes(t: &str) -> Seq<u8>;
pub trait AsBytesSpec { spec fn as_bytes_spec(&self) -> Seq<u8>; }
impl AsBytesSpec for String { uninterp spec fn as_bytes_spec(&self) -> Seq<u8>; }
pub assume_specification[ String::into_bytes ](s: String) -> (r: Vec<u8>)
    ensures r@ == s.as_bytes_spec(),
;
pub uninterp spec fn render2(fmt: Seq<char>, a: Seq<u8>, b: u64) -> Seq<u8>;
#[verifier::external_body]
pub fn vx_format2(fmt: &str, a: &str, b: u64) -> (r: String)
    ensures r.as_bytes_spec() == render2(fmt@, tenant_bytes(a), b)
{ unimplemented!() }
/// what the two key formats of this file render to (A-STR, assumed): the first argument's bytes, the literal text, the
/// second argument as sixteen hexadecimal digits.  Tied to the literals: another format string has no axiom.
#[verifier::external_body]
pub proof fn axiom_key_formats()
    ensures
        forall|t: Seq<u8>, i: u64| #[trigger] render2("{}:n:{:016x}"@, t, i) == node_key_spec(t, i),
        forall|t: Seq<u8>, i: u64| #[trigger] render2("{}:e:{:016x}"@, t, i) == edge_key_spec(t, i),
{}

//@struct StoredNode
//@struct StoredEdge
//@struct PersistentStorage keep=db erase

impl PersistentStorage {
    pub open spec fn nodes_cf() -> Seq<char> { "nodes"@ }
    pub open spec fn edges_cf() -> Seq<char> { "edges"@ }

//@fn PersistentStorage::node_key ret=r
//@ensures
        r@ == node_key_spec(tenant_bytes(tenant), node_id),      //#tenant_colon_n_colon_hex_id
//@atstart
        proof { axiom_key_formats(); }
//@end

//@fn PersistentStorage::edge_key ret=r
//@ensures
        r@ == edge_key_spec(tenant_bytes(tenant), edge_id),      //#tenant_colon_e_colon_hex_id
//@atstart
        proof { axiom_key_formats(); }
//@end

//@fn PersistentStorage::put_node selfmut ret=r
//@replace "node.labels.iter().map(|l| l.as_str().to_string()).collect()" => "labels_to_strings(&node.labels)" :: iterator chain over the label set (value content is outside this contract): wrapper
//@closure ok_or_else#1 () -> (e: StorageError)
//@ensures
        r is Ok ==> exists|v: Seq<u8>| final(self).db.m@ == old(self).db.m@.insert((Self::nodes_cf(), node_key_spec(tenant_bytes(tenant), node.id.0)), v),      //#writes_exactly_the_node_s_key_in_the_nodes_family
        r is Err ==> final(self).db.m@ == old(self).db.m@,      //#refused_writes_nothing
//@end

//@fn PersistentStorage::put_edge selfmut ret=r
//@closure ok_or_else#1 () -> (e: StorageError)
//@ensures
        r is Ok ==> exists|v: Seq<u8>| final(self).db.m@ == old(self).db.m@.insert((Self::edges_cf(), edge_key_spec(tenant_bytes(tenant), edge.id.0)), v),      //#writes_exactly_the_edge_s_key_in_the_edges_family
        r is Err ==> final(self).db.m@ == old(self).db.m@,      //#refused_writes_nothing
//@end

//@fn PersistentStorage::get_node ret=r
//@replace "stored.labels.into_iter()<NL>                        .map(|s| crate::graph::Label::new(s))<NL>                        .collect()" => "strings_to_labels(stored.labels)" :: iterator chain building the label set (value content is outside this contract): wrapper
//@closure ok_or_else#1 () -> (e: StorageError)
//@ensures
        r matches Ok(Some(n)) ==> self.db.m@.contains_key((Self::nodes_cf(), node_key_spec(tenant_bytes(tenant), node_id))),      //#found_under_the_node_s_own_key
        r matches Ok(None) ==> !self.db.m@.contains_key((Self::nodes_cf(), node_key_spec(tenant_bytes(tenant), node_id))),      //#absent_means_no_entry_under_that_key
//@end

//@fn PersistentStorage::get_edge ret=r
//@closure ok_or_else#1 () -> (e: StorageError)
//@ensures
        r matches Ok(Some(e)) ==> self.db.m@.contains_key((Self::edges_cf(), edge_key_spec(tenant_bytes(tenant), edge_id))),      //#found_under_the_edge_s_own_key
        r matches Ok(None) ==> !self.db.m@.contains_key((Self::edges_cf(), edge_key_spec(tenant_bytes(tenant), edge_id))),      //#absent_means_no_entry_under_that_key
//@end

//@fn PersistentStorage::delete_node selfmut ret=r
//@closure ok_or_else#1 () -> (e: StorageError)
//@ensures
        r is Ok ==> final(self).db.m@ == old(self).db.m@.remove((Self::nodes_cf(), node_key_spec(tenant_bytes(tenant), node_id))),      //#removes_exactly_the_node_s_key
        r is Err ==> final(self).db.m@ == old(self).db.m@,      //#refused_removes_nothing
//@end

//@fn PersistentStorage::delete_edge selfmut ret=r
//@closure ok_or_else#1 () -> (e: StorageError)
//@ensures
        r is Ok ==> final(self).db.m@ == old(self).db.m@.remove((Self::edges_cf(), edge_key_spec(tenant_bytes(tenant), edge_id))),      //#removes_exactly_the_edge_s_key
        r is Err ==> final(self).db.m@ == old(self).db.m@,      //#refused_removes_nothing
//@end
}

} // verus!
fn main() {}
