//@unit store_delnode
//@properties C06
//@source store src/graph/store.rs
//@source types src/graph/types.rs
//@rules D2 R2 R20
#![feature(allocator_api)]
#![allow(unused_imports, unused_variables, unused_mut, dead_code)]
use vstd::prelude::*;
use std::collections::{HashMap, HashSet};
verus!{
global size_of usize == 8;
//@include common/std_extra.rs
//@include common/hashmap_get_mut.rs
// =====================================================================
// prelude: stand-ins (D3/D4) for everything set_node_property touches besides the version chains
// =====================================================================
#[verifier::external_body] #[derive(PartialEq, Eq, Hash)] pub struct Label { s: String }
impl Label { #[verifier::external_body] pub fn as_str(&self) -> &str { unimplemented!() } }
impl Clone for Label { #[verifier::external_body] fn clone(&self) -> Self { unimplemented!() } }
#[verifier::external_body] #[derive(Debug)] pub struct PropertyValue { x: u8 }
impl PropertyValue { #[verifier::external_body] pub fn is_null(&self) -> bool { unimplemented!() } }
impl Clone for PropertyValue { #[verifier::external_body] fn clone(&self) -> Self { unimplemented!() } }
#[verifier::external_body] pub struct LabelSet { x: u8 }
impl LabelSet { #[verifier::external_body] pub fn iter(&self) -> LabelIter { unimplemented!() }
  /// the labels of the set, each once, in iteration order
  pub uninterp spec fn lv(&self) -> Seq<Label>;
  /// stands for `&set` as an iterable: the labels, each once (D4)
  #[verifier::external_body] pub fn as_vec(&self) -> (r: &Vec<Label>) ensures r@ == self.lv() { unimplemented!() } }
#[verifier::external_body] pub struct LabelIter { x: u8 }
impl LabelIter { #[verifier::external_body] pub fn cloned(self) -> LabelIter { unimplemented!() }
  #[verifier::external_body] pub fn collect(self) -> Vec<Label> { unimplemented!() } }
pub enum IndexEvent { NodeDeleted { tenant_id: String, id: NodeId, labels: Vec<Label>, properties: PropertyMap }, PropertySet { tenant_id: String, id: NodeId, labels: Vec<Label>, key: String, old_value: Option<PropertyValue>, new_value: PropertyValue } }
#[verifier::external_body] #[verifier::reject_recursive_types(T)] pub struct UnboundedSender<T> { x: u8, t: core::marker::PhantomData<T> }
pub mod graph { pub mod event { pub use super::super::IndexEvent; } }
impl<T> UnboundedSender<T> { #[verifier::external_body] pub fn send(&self, e: T) -> Result<(), ()> { unimplemented!() } }
pub struct Node { pub version: u64, pub updated_at: i64, pub labels: LabelSet, pub properties: PropertyMap, pub data: NodeData }
#[verifier::external_body] pub struct PropertyMap { m: u8 }
impl Clone for PropertyMap { #[verifier::external_body] fn clone(&self) -> (r: Self) ensures r == *self { unimplemented!() } }
/// read-only map methods code may call on a property map: contract-free
impl PropertyMap {
    #[verifier::external_body] pub fn is_empty(&self) -> bool { unimplemented!() }
    #[verifier::external_body] pub fn len(&self) -> usize { unimplemented!() }
    #[verifier::external_body] pub fn contains_key(&self, k: &str) -> bool { unimplemented!() }
}
#[verifier::external_body] pub struct NodeData { d: u8 }
impl Clone for Node { #[verifier::external_body] fn clone(&self) -> (r: Self) ensures r == *self { unimplemented!() } }
impl Node {
    #[verifier::external_body] pub fn set_property(&mut self, k: String, v: PropertyValue) -> (r: Option<PropertyValue>) ensures final(self).version == old(self).version { unimplemented!() }
    #[verifier::external_body] pub fn remove_property(&mut self, k: &str) ensures final(self).version == old(self).version { unimplemented!() }
}
#[verifier::external_body] pub fn now_millis() -> i64 { unimplemented!() }
#[verifier::external_body] pub struct IndexManager { x: u8 }
impl IndexManager {
    #[verifier::external_body] pub fn has_any_unique_constraints(&self) -> bool { unimplemented!() }
    #[verifier::external_body] pub fn has_unique_constraint(&self, l: &Label, k: &str) -> bool { unimplemented!() }
    #[verifier::external_body] pub fn unique_constraint_holder(&self, l: &Label, k: &str, v: &PropertyValue) -> Option<NodeId> { unimplemented!() }
    #[verifier::external_body] pub fn constraint_insert(&self, l: &Label, k: &str, v: PropertyValue, n: NodeId) { unimplemented!() }
}
#[verifier::external_body] pub struct ColumnStore { x: u8 }
#[verifier::external_body] pub struct GraphCatalog { c: u8 }
impl GraphCatalog { #[verifier::external_body] pub fn on_label_removed(&mut self, l: &Label) { unimplemented!() } }
#[verifier::external_body] pub struct TenantManager { t: u8 }
pub type Entry = (NodeId, EdgeId);
#[verifier::external_body] pub struct FrozenAdjacencyStore { f: u8 }
impl FrozenAdjacencyStore {
    /// the frozen tier as unit store_adj proves it: per node a sequence of entries, handed out in order
    pub uninterp spec fn nbrs(&self, i: int) -> Seq<Entry>;
    #[verifier::external_body] pub fn neighbors_collected(&self, node_idx: usize) -> (r: Vec<Entry>) ensures r@ == self.nbrs(node_idx as int) { unimplemented!() }
}
pub open spec fn ids_of(es: Seq<Entry>) -> Seq<EdgeId> { es.map_values(|e: Entry| e.1) }
/// `entries.iter().map(|&(_, eid)| eid).collect()` (A-STD; wrapper body is the original chain): the edge ids, in order
#[verifier::external_body]
pub fn entry_ids(entries: &Vec<Entry>) -> (r: Vec<EdgeId>)
    ensures r@ == ids_of(entries@)
{ entries.iter().map(|&(_, eid)| eid).collect() }
#[verifier::external_body]
pub proof fn axiom_key_models()
    ensures vstd::std_specs::hash::obeys_key_model::<Label>(), vstd::std_specs::hash::obeys_key_model::<NodeId>()
{}
/// `ids.extend(std::mem::take(buffer).into_iter().map(|(_, eid)| eid));` (A-STD; wrapper body is the original statement):
/// the buffer is emptied, its edge ids are appended
#[verifier::external_body]
pub fn extend_with_taken_ids(ids: &mut Vec<EdgeId>, buffer: &mut Vec<Entry>)
    ensures final(buffer)@.len() == 0, final(ids)@ == old(ids)@ + ids_of(old(buffer)@)
{ ids.extend(std::mem::take(buffer).into_iter().map(|(_, eid)| eid)); }
/// `a.iter().chain(b.iter())` materialised (A-STD): a's elements then b's
#[verifier::external_body]
pub fn chained_ids(a: &Vec<EdgeId>, b: &Vec<EdgeId>) -> (r: Vec<EdgeId>)
    ensures r@ == a@ + b@
{ a.iter().chain(b.iter()).copied().collect() }
impl ColumnStore {
    #[verifier::external_body] pub fn clear_row(&mut self, idx: usize) { unimplemented!() }
    #[verifier::external_body] pub fn set_property(&mut self, idx: usize, key: &str, value: PropertyValue) { unimplemented!() }
    #[verifier::external_body] pub fn remove_property(&mut self, idx: usize, key: &str) { unimplemented!() }
}

/// `v.get_mut(i)` on a Vec (A-STD; vstd has no final-value specification for slice::get_mut; wrapper body is the original expression)
#[verifier::external_body]
pub fn vec_get_mut<T>(v: &mut Vec<T>, i: usize) -> (r: Option<&mut T>)
    ensures match r {
        Some(x) => (i as int) < old(v)@.len() && *x == old(v)@[i as int] && final(v)@ == old(v)@.update(i as int, *final(x)),
        None => (i as int) >= old(v)@.len() && final(v)@ == old(v)@,
    }
{ v.get_mut(i) }
//@struct NodeId from=types derive=Clone,Copy,PartialEq,Eq,Hash,Structural
impl NodeId {
//@fn NodeId::as_u64 from=types ret=r
//@ensures
        r == self.0,   //#projection
//@end
}
impl std::fmt::Display for NodeId { #[verifier::external_body] fn fmt(&self, f: &mut std::fmt::Formatter<'_>) -> std::fmt::Result { unimplemented!() } }
impl vstd::std_specs::fmt::DisplaySpecImpl for NodeId { open spec fn fmt_req(&self, f: &std::fmt::Formatter<'_>) -> bool { true } }
impl vstd::std_specs::fmt::DebugSpecImpl for PropertyValue { open spec fn fmt_req(&self, f: &std::fmt::Formatter<'_>) -> bool { true } }
//@struct EdgeId from=types derive=Clone,Copy,PartialEq,Eq,Hash,Structural
//@item type TxnId
//@enum GraphError
//@item type GraphResult
//@struct GraphStore keep=nodes,current_version,property_index,node_columns,index_sender,free_node_ids,label_index,catalog,frozen_outgoing,frozen_incoming,outgoing,incoming erase

// ---- versioned reads (as in unit store_mvcc) ----
pub open spec fn chain_sorted(c: Seq<Node>) -> bool { forall|i: int, j: int| 0 <= i <= j < c.len() ==> c[i].version <= c[j].version }
pub open spec fn read_idx(c: Seq<Node>, v: u64) -> int
    decreases c.len()
{
    if c.len() == 0 { -1 } else if c.last().version <= v { c.len() - 1 } else { read_idx(c.drop_last(), v) }
}
pub open spec fn read(c: Seq<Node>, v: u64) -> Option<Node> { if read_idx(c, v) >= 0 { Some(c[read_idx(c, v)]) } else { None } }
pub proof fn lemma_read_idx(c: Seq<Node>, v: u64)
    ensures
        -1 <= read_idx(c, v) < c.len(),
        read_idx(c, v) >= 0 ==> c[read_idx(c, v)].version <= v,
        forall|j: int| read_idx(c, v) < j < c.len() ==> c[j].version > v,
    decreases c.len()
{
    if c.len() > 0 && c.last().version > v {
        lemma_read_idx(c.drop_last(), v);
        assert forall|j: int| read_idx(c, v) < j < c.len() implies c[j].version > v by {
            if j < c.len() - 1 { assert(c.drop_last()[j] == c[j]); }
        }
    }
}
pub proof fn lemma_read_ignores_newer_last(c: Seq<Node>, n: Node, v: u64)
    requires n.version > v
    ensures read(c.push(n), v) == read(c, v)
{
    assert(c.push(n).drop_last() =~= c);
    lemma_read_idx(c, v);
    if read_idx(c, v) >= 0 { assert(c.push(n)[read_idx(c, v)] == c[read_idx(c, v)]); }
}

impl GraphStore {
    #[verifier::external_body] pub fn invalidate_statistics_cache(&self) { unimplemented!() }
    /// get_node (unit store_mvcc): the newest version stamped at or below the current version
    #[verifier::external_body]
    pub fn get_node(&self, id: NodeId) -> (r: Option<&Node>)
        ensures r matches Some(n) ==> (id.0 as int) < self.nodes@.len() && read(self.nodes@[id.0 as int]@, self.current_version) == Some(*n)
    { unimplemented!() }
    #[verifier::external_body] pub fn handle_index_event(&self, event: IndexEvent, tm: Option<std::sync::Arc<TenantManager>>) { unimplemented!() }
    /// node n is listed under label l
    pub open spec fn listed(&self, l: Label, n: NodeId) -> bool { self.label_index@.contains_key(l) && self.label_index@[l]@.contains(n) }
    /// "delete_edge has been called for this edge id" -- ghost bookkeeping of the calls delete_node makes
    pub uninterp spec fn asked_to_delete(&self, e: EdgeId) -> bool;
    /// delete_edge (unit store_adj; assumed here): records the request; does not touch the version chains or the frozen tier,
    /// keeps the number of buffers and only ever shortens a buffer
    #[verifier::external_body]
    pub fn delete_edge(&mut self, id: EdgeId) -> (r: GraphResult<u8>)
        ensures
            final(self).nodes@ == old(self).nodes@ && final(self).current_version == old(self).current_version,
            final(self).asked_to_delete(id), forall|e: EdgeId| old(self).asked_to_delete(e) ==> #[trigger] final(self).asked_to_delete(e),
            final(self).frozen_outgoing == old(self).frozen_outgoing && final(self).frozen_incoming == old(self).frozen_incoming,
            final(self).free_node_ids@ == old(self).free_node_ids@, final(self).label_index@ == old(self).label_index@,
            final(self).outgoing@.len() == old(self).outgoing@.len() && final(self).incoming@.len() == old(self).incoming@.len(),
            forall|i: int| 0 <= i < old(self).outgoing@.len() ==> (#[trigger] final(self).outgoing@[i])@.len() <= old(self).outgoing@[i]@.len(),
            forall|i: int| 0 <= i < old(self).incoming@.len() ==> (#[trigger] final(self).incoming@[i])@.len() <= old(self).incoming@[i]@.len(),
    { unimplemented!() }
    #[verifier::external_body] pub fn update_hierarchies_for_property(&self, id: NodeId, k: &str, v: &PropertyValue) { unimplemented!() }
    #[verifier::external_body] fn apply_property_set(&self, id: NodeId, labels: &LabelSet, k: &str, old: Option<&PropertyValue>, v: &PropertyValue) { unimplemented!() }
    pub open spec fn stamped(&self) -> bool {
        (forall|id: int| 0 <= id < self.nodes@.len() ==> chain_sorted(#[trigger] self.nodes@[id]@))
        && forall|id: int, k: int| 0 <= id < self.nodes@.len() && 0 <= k < self.nodes@[id]@.len() ==> (#[trigger] self.nodes@[id]@[k]).version <= self.current_version
    }

//@fn GraphStore::delete_node ret=r
//@requires
        // every node slot has its adjacency buffers (create_node* resize outgoing/incoming together with nodes; A-PROJ)
        old(self).outgoing@.len() >= old(self).nodes@.len() && old(self).incoming@.len() >= old(self).nodes@.len(),
//@ensures
        r is Ok ==> forall|k: int| 0 <= k < old(self).frozen_outgoing.nbrs(id.0 as int).len() ==> final(self).asked_to_delete((#[trigger] old(self).frozen_outgoing.nbrs(id.0 as int)[k]).1),      //#every_frozen_outgoing_edge_is_deleted
        r is Ok ==> forall|k: int| 0 <= k < old(self).outgoing@[id.0 as int]@.len() ==> final(self).asked_to_delete((#[trigger] old(self).outgoing@[id.0 as int]@[k]).1),      //#every_buffered_outgoing_edge_is_deleted
        r is Ok ==> forall|k: int| 0 <= k < old(self).frozen_incoming.nbrs(id.0 as int).len() ==> final(self).asked_to_delete((#[trigger] old(self).frozen_incoming.nbrs(id.0 as int)[k]).1),      //#every_frozen_incoming_edge_is_deleted
        r is Ok ==> forall|k: int| 0 <= k < old(self).incoming@[id.0 as int]@.len() ==> final(self).asked_to_delete((#[trigger] old(self).incoming@[id.0 as int]@[k]).1),      //#every_buffered_incoming_edge_is_deleted
        r is Ok ==> final(self).outgoing@[id.0 as int]@.len() == 0 && final(self).incoming@[id.0 as int]@.len() == 0,      //#its_write_buffers_are_emptied
        r is Ok ==> final(self).free_node_ids@ == old(self).free_node_ids@.push(id.0),      //#its_id_goes_on_the_free_list
        r is Ok ==> (id.0 as int) < old(self).nodes@.len() && (read(old(self).nodes@[id.0 as int]@, old(self).current_version) matches Some(n0)
            && forall|k: int| 0 <= k < n0.labels.lv().len() ==> !final(self).listed(#[trigger] n0.labels.lv()[k], id)),      //#no_longer_listed_under_its_labels
        forall|l: Label, n: NodeId| n != id ==> #[trigger] final(self).listed(l, n) == old(self).listed(l, n),      //#other_nodes_listing_untouched
        r is Err ==> final(self).label_index@ == old(self).label_index@,      //#refused_leaves_the_label_index
        r is Err ==> final(self).outgoing@ == old(self).outgoing@ && final(self).incoming@ == old(self).incoming@ && final(self).free_node_ids@ == old(self).free_node_ids@,      //#refused_changes_nothing
//@loop 1 iter=it1
            invariant self.nodes@ == old(self).nodes@,
                self.outgoing@ == old(self).outgoing@ && self.incoming@ == old(self).incoming@,
                self.frozen_outgoing == old(self).frozen_outgoing && self.frozen_incoming == old(self).frozen_incoming,
                self.free_node_ids@ == old(self).free_node_ids@.push(id.0),
                (id.0 as int) < self.nodes@.len() && self.nodes@[id.0 as int]@.len() > 0, idx == id.0 as int,
                it1.seq().len() == latest_node.labels.lv().len(), forall|k: int| 0 <= k < it1.seq().len() ==> *(#[trigger] it1.seq()[k]) == latest_node.labels.lv()[k],
                forall|k: int| 0 <= k < it1.index() ==> !self.listed(#[trigger] latest_node.labels.lv()[k], id),      //#unlisted_under_the_labels_so_far
                forall|l: Label, n: NodeId| n != id ==> #[trigger] self.listed(l, n) == old(self).listed(l, n),      //#other_nodes_listing_untouched
//@before "if let Some(node_set) = self.label_index.get_mut(label) {"
            proof { axiom_key_models(); }
            let ghost before = *self;
//@after "self.catalog.on_label_removed(label);"
            proof {
                assert forall|k: int| 0 <= k < it1.index() + 1 implies !self.listed(#[trigger] latest_node.labels.lv()[k], id) by {
                    if k < it1.index() { assert(!before.listed(latest_node.labels.lv()[k], id)); }
                }
                assert forall|l: Label, n: NodeId| n != id implies #[trigger] self.listed(l, n) == old(self).listed(l, n) by {
                    assert(before.listed(l, n) == old(self).listed(l, n));
                }
            }
//@loop 2 iter=it2
            invariant
                idx == id.0 as int, idx < self.outgoing@.len() && idx < self.incoming@.len(),
                self.outgoing@[idx as int]@.len() == 0 && self.incoming@[idx as int]@.len() == 0,
                self.free_node_ids@ == old(self).free_node_ids@.push(id.0),
                all_edges__@ == outgoing_edges@ + incoming_edges@, self.label_index@ == li2,
                forall|k: int| 0 <= k < it2.index() ==> self.asked_to_delete(#[trigger] all_edges__@[k]),      //#asked_for_the_ids_so_far
//@afterloop 1
        let ghost after1 = *self;
//@before "let mut outgoing_edges: Vec<EdgeId>"
        let ghost fo = self.frozen_outgoing.nbrs(idx as int);
        let ghost fi = self.frozen_incoming.nbrs(idx as int);
        let ghost bo = self.outgoing@[idx as int]@;
        let ghost bi = self.incoming@[idx as int]@;
        let ghost li2 = self.label_index@;
//@atend
        proof {
            assert(self.label_index@ == after1.label_index@);
            assert forall|l: Label, n: NodeId| n != id implies #[trigger] self.listed(l, n) == old(self).listed(l, n) by {
                assert(after1.listed(l, n) == old(self).listed(l, n));
            }
            assert forall|k: int| 0 <= k < latest_node.labels.lv().len() implies !self.listed(#[trigger] latest_node.labels.lv()[k], id) by {
                assert(!after1.listed(latest_node.labels.lv()[k], id));
            }
            assert(outgoing_edges@ == ids_of(fo) + ids_of(bo));
            assert(incoming_edges@ == ids_of(fi) + ids_of(bi));
            let all = all_edges__@;
            assert forall|k: int| 0 <= k < fo.len() implies self.asked_to_delete((#[trigger] fo[k]).1) by { assert(all[k] == fo[k].1); }
            assert forall|k: int| 0 <= k < bo.len() implies self.asked_to_delete((#[trigger] bo[k]).1) by { assert(all[fo.len() + k] == bo[k].1); }
            assert forall|k: int| 0 <= k < fi.len() implies self.asked_to_delete((#[trigger] fi[k]).1) by { assert(all[fo.len() + bo.len() + k] == fi[k].1); }
            assert forall|k: int| 0 <= k < bi.len() implies self.asked_to_delete((#[trigger] bi[k]).1) by { assert(all[fo.len() + bo.len() + fi.len() + k] == bi[k].1); }
        }
//@replace "in &latest_node.labels {" => "in latest_node.labels.as_vec().iter() {" :: HashSet<Label> iteration through the stand-in (D4)
//@replace "crate::graph::event::IndexEvent::NodeDeleted" => "IndexEvent::NodeDeleted" :: path only
//@replace "self.frozen_outgoing.neighbors_collected(idx)<NL>            .iter().map(|&(_, eid)| eid).collect();" => "entry_ids(&self.frozen_outgoing.neighbors_collected(idx));" :: iterator chain map/collect over a tuple pattern: wrapper whose body is the same chain
//@replace "self.frozen_incoming.neighbors_collected(idx)<NL>            .iter().map(|&(_, eid)| eid).collect();" => "entry_ids(&self.frozen_incoming.neighbors_collected(idx));" :: same
//@replace "for edge_id in outgoing_edges.iter().chain(incoming_edges.iter()) {" => "let all_edges__ = chained_ids(&outgoing_edges, &incoming_edges); for edge_id in all_edges__.iter() {" :: the Chain adapter is outside Verus: the same sequence, materialised
//@atstart
        proof { axiom_key_models(); }
//@end
}

} // verus!
fn main() {}
