//@unit raft_log
//@properties C31
//@source storage src/raft/storage.rs
//@rules D2 R1
#![feature(allocator_api)]
#![allow(unused_imports, unused_variables, unused_mut, dead_code)]
use vstd::prelude::*;
verus!{
//@include common/std_extra.rs
// =====================================================================
// lemmas (proof-only, hand-written)
// =====================================================================
//@include common/filter_by.rs
/// log_wf: indices strictly increasing along the log (hence one entry per index)
pub open spec fn inc(s: Seq<LogEntry>) -> bool {
    forall|i: int, j: int| 0 <= i < j < s.len() ==> s[i].index < s[j].index
}
pub open spec fn below(i: u64) -> spec_fn(LogEntry) -> bool { |e: LogEntry| e.index < i }
pub open spec fn above(i: u64) -> spec_fn(LogEntry) -> bool { |e: LogEntry| e.index > i }
pub open spec fn at_index(i: u64) -> spec_fn(LogEntry) -> bool { |e: LogEntry| e.index == i }

// a filtered increasing sequence is increasing, and is a subsequence
pub proof fn lemma_filter_inc(s: Seq<LogEntry>, p: spec_fn(LogEntry) -> bool)
    requires inc(s)
    ensures inc(s.filter(p)),
        forall|k: int| 0 <= k < s.filter(p).len() ==> p(#[trigger] s.filter(p)[k]) && s.contains(s.filter(p)[k]),
    decreases s.len()
{
    reveal(Seq::filter);
    if s.len() == 0 { } else {
        let t = s.drop_last();
        assert(inc(t));
        lemma_filter_inc(t, p);
        let f = t.filter(p);
        assert forall|k: int| 0 <= k < f.len() implies (#[trigger] f[k]).index < s.last().index by {
            assert(t.contains(f[k]));
            let w = choose|w: int| 0 <= w < t.len() && t[w] == f[k];
            assert(s[w] == t[w]);
        }
        assert forall|k: int| 0 <= k < s.filter(p).len() implies s.contains(#[trigger] s.filter(p)[k]) by {
            if k < f.len() {
                assert(t.contains(f[k]));
                let w = choose|w: int| 0 <= w < t.len() && t[w] == f[k];
                assert(s[w] == f[k]);
            } else {
                assert(s[s.len() - 1] == s.last());
            }
        }
    }
}

// the history argument: every public mutator preserves inc, so by induction on
// the operation sequence the log never holds two entries with one index.
pub proof fn lemma_one_entry_per_index(s: Seq<LogEntry>, a: int, b: int)
    requires inc(s), 0 <= a < s.len(), 0 <= b < s.len(), s[a].index == s[b].index
    ensures a == b
{
    if a < b { assert(s[a].index < s[b].index); }
    if b < a { assert(s[b].index < s[a].index); }
}

// =====================================================================
// prelude (assumed): std functions vstd does not specify; types not extracted
// =====================================================================
pub enum RaftError { Storage(String) }
pub type RaftResult<T> = Result<T, RaftError>;

pub broadcast proof fn lemma_filter_by_b<T>(s: Seq<T>, keep: Seq<bool>, pred: spec_fn(T) -> bool)
    requires keep.len() == s.len(), forall|i: int| 0 <= i < s.len() ==> keep[i] == pred(s[i])
    ensures #[trigger] filter_by(s, keep) == #[trigger] s.filter(pred)
{
    lemma_filter_by(s, keep, pred);
}
/// `v.iter().filter(p).cloned().collect::<Vec<_>>()` (A-STD: the Cloned adapter is outside Verus; the wrapper's body is the
/// original chain): the elements satisfying p, in order (existential verdicts: closure ensures are one-directional)
pub open spec fn verdicts<'a, T: 'a, P: FnMut(&&'a T) -> bool>(p: P, s: Seq<T>, keep: Seq<bool>) -> bool {
    keep.len() == s.len() && forall|i: int| #![trigger s[i]] #![trigger keep[i]] 0 <= i < s.len() ==> exists|r: &&'a T| **r == s[i] && p.ensures((r,), keep[i])
}
#[verifier::external_body]
pub fn vec_filter_cloned<'a, T: Clone, P: FnMut(&&'a T) -> bool>(v: &'a Vec<T>, p: P) -> (r: Vec<T>)
    requires forall|x: &&T| p.requires((x,))
    ensures exists|keep: Seq<bool>| #[trigger] verdicts(p, v@, keep) && r@ == filter_by(v@, keep)
{ v.iter().filter(p).cloned().collect() }

// derived Clone of LogEntry: structural (assumed, A-STD)
impl Clone for LogEntry {
    #[verifier::external_body]
    fn clone(&self) -> (r: Self)
        ensures r == *self
    { LogEntry { index: self.index, term: self.term, data: self.data.clone() } }
}

// =====================================================================
// extracted from /repo/src/raft/storage.rs
// =====================================================================
//@struct LogEntry
//@struct RaftStorage keep=log,snapshot_metadata erase

impl RaftStorage {
    pub open spec fn wf(&self) -> bool { inc(self.log@) }
    pub open spec fn logv(&self) -> Seq<LogEntry> { self.log@ }
    pub open spec fn snap(&self) -> Option<(u64, u64)> { self.snapshot_metadata }

//@fn RaftStorage::append_entries selfmut ret=r
//@requires
        old(self).wf(),
        inc(entries@),
//@ensures
        r.is_ok(),                                                      //#ok
        entries@.len() == 0 ==> final(self).logv() == old(self).logv(), //#empty_noop
        entries@.len() > 0 ==> final(self).logv()
            == old(self).logv().filter(below(entries@[0].index)) + entries@,  //#replace_suffix
        final(self).wf(),                                               //#log_wf
        final(self).snap() == old(self).snap(),                         //#snap_frame
//@closure retain#1 (e: &LogEntry) -> (b: bool) ensures b == (@BODY)
//@after ".retain("
            proof {
                let s = old(self).log@;
                let keep = choose|keep: Seq<bool>| keep.len() == s.len()
                    && (forall|i: int| 0 <= i < keep.len() ==> #[trigger] keep[i] == (s[i].index < from))
                    && log@ == filter_by(s, keep);
                lemma_filter_by(s, keep, below(from));
                lemma_filter_inc(s, below(from));
            }
//@name E "for (\w+) in entries"
//@beforeloop 1
        let ghost log0 = log@;
//@loop 1 iter=it
            invariant log@ == log0 + it.seq().take(it.index() as int)   //#pushed_prefix
//@end

//@fn RaftStorage::get_entry ret=r
//@requires
        self.wf(),
//@ensures
        r.is_some() ==> self.logv().contains(r.unwrap()) && r.unwrap().index == index,   //#some_is_member
//@closure find#1 (e: &&LogEntry) -> (b: bool) ensures b == (@BODY)
//@end

//@fn RaftStorage::get_last_log_index_term ret=r
//@ensures
        self.logv().len() > 0 ==> r == (self.logv().last().index, self.logv().last().term),   //#newest_entry
        self.logv().len() == 0 ==> r == (match self.snap() { Some(p) => p, None => (0u64, 0u64) }),  //#snapshot_when_empty
//@end

//@fn RaftStorage::delete_entries_from selfmut ret=r
//@requires
        old(self).wf(),
//@ensures
        r.is_ok(),                                                          //#ok
        final(self).logv() == old(self).logv().filter(below(index)),        //#truncates_from
        final(self).snap() == old(self).snap(),                             //#snap_frame
        final(self).wf(),                                                   //#log_wf
//@closure retain#1 (e: &LogEntry) -> (b: bool) ensures b == (@BODY)
//@after ".retain("
        proof {
            let s = old(self).log@;
            let keep = choose|keep: Seq<bool>| keep.len() == s.len()
                && (forall|i: int| 0 <= i < keep.len() ==> #[trigger] keep[i] == (s[i].index < index))
                && log@ == filter_by(s, keep);
            lemma_filter_by(s, keep, below(index));
            lemma_filter_inc(s, below(index));
        }
//@end

//@fn RaftStorage::create_snapshot selfmut ret=r
//@requires
        old(self).wf(),
//@ensures
        r.is_ok(),                                                          //#ok
        final(self).snap() == Some((index, term)),                          //#records_snapshot
        final(self).logv() == old(self).logv().filter(above(index)),        //#keeps_tail
        final(self).wf(),                                                   //#log_wf
//@closure retain#1 (e: &LogEntry) -> (b: bool) ensures b == (@BODY)
//@after ".retain("
        proof {
            let s = old(self).log@;
            let keep = choose|keep: Seq<bool>| keep.len() == s.len()
                && (forall|i: int| 0 <= i < keep.len() ==> #[trigger] keep[i] == (s[i].index > index))
                && log@ == filter_by(s, keep);
            lemma_filter_by(s, keep, above(index));
            lemma_filter_inc(s, above(index));
        }
//@end

//@fn RaftStorage::get_entries ret=r
//@ensures
        r@ == self.logv().filter(|e: LogEntry| e.index >= start && e.index < end),     //#exactly_the_entries_in_range_in_order
//@replace "log.iter()<NL>            .filter(" => "vec_filter_cloned(log, " :: iterator chain with the Cloned adapter: routed through a wrapper whose body is the same chain
//@replace ")<NL>            .cloned()<NL>            .collect()" => ")" :: (same chain)
//@closure vec_filter_cloned#1 (e: &&LogEntry) -> (b: bool) ensures b == (@BODY)
//@atstart
        broadcast use lemma_filter_by_b;
//@end

//@fn RaftStorage::get_snapshot_metadata ret=r
//@ensures
        r == self.snap(),   //#returns_snapshot
//@end
}

} // verus!
fn main() {}
