//@unit persist
//@properties C16 C18 C32
//@source pm src/persistence/mod.rs
//@source tenant src/persistence/tenant.rs
//@source wal src/persistence/wal.rs
//@source sm src/raft/state_machine.rs
//@rules D2 R1 R19
#![feature(allocator_api)]
#![allow(unused_imports, unused_variables, unused_mut, dead_code)]
use vstd::prelude::*;
use vstd::std_specs::fmt::DisplaySpec;
use std::collections::HashMap;
verus!{
//@include common/std_extra.rs

// =====================================================================
// prelude: the graph types as far as persistence looks at them (D3/D4), RocksDB storage, the WAL and bincode as
// external subsystems under ASSUMED contracts (A-EXT)
// =====================================================================
#[verifier::external_type_specification]
#[verifier::external_body]
pub struct ExIoError(std::io::Error);

#[derive(Clone, Copy)]
pub struct NodeId(pub u64);
impl NodeId {
    pub fn new(id: u64) -> (r: NodeId) ensures r.0 == id { NodeId(id) }
    pub fn as_u64(&self) -> (r: u64) ensures r == self.0 { self.0 }
}
#[derive(Clone, Copy)]
pub struct EdgeId(pub u64);
impl EdgeId {
    pub fn new(id: u64) -> (r: EdgeId) ensures r.0 == id { EdgeId(id) }
    pub fn as_u64(&self) -> (r: u64) ensures r == self.0 { self.0 }
}
/// HashMap<String, PropertyValue>: only moved, cloned and serialised here
#[verifier::external_body]
pub struct PropertyMap { m: u8 }
impl Clone for PropertyMap {
    #[verifier::external_body]
    fn clone(&self) -> (r: Self) ensures r == *self { unimplemented!() }
}
/// read-only HashMap methods code may call on a property map: contract-free (their results are unconstrained)
impl PropertyMap {
    #[verifier::external_body] pub fn is_empty(&self) -> bool { unimplemented!() }
    #[verifier::external_body] pub fn len(&self) -> usize { unimplemented!() }
    #[verifier::external_body] pub fn contains_key(&self, k: &str) -> bool { unimplemented!() }
}
/// R19: `dst.extend(src.iter().map(|(k, v)| (k.clone(), v.clone())))` on property maps (wrapper; body = the original statement):
/// dst gains src's entries, src's value winning on a shared key -- some function of the two maps, in general NOT src
pub uninterp spec fn props_extended(dst: PropertyMap, src: PropertyMap) -> PropertyMap;
#[verifier::external_body]
pub fn map_extend_cloned(dst: &mut PropertyMap, src: &PropertyMap)
    ensures *final(dst) == props_extended(*old(dst), *src)
{ unimplemented!() }
/// a label / an edge type is determined by its text
pub uninterp spec fn label_of(t: Seq<char>) -> Label;
pub uninterp spec fn edge_type_of(t: Seq<char>) -> EdgeType;
#[verifier::external_body]
pub struct Label { s: String }
impl Label {
    pub uninterp spec fn text(&self) -> Seq<char>;
    #[verifier::external_body] pub fn new(s: String) -> (r: Label) ensures r.text() == s@, r == label_of(s@) { unimplemented!() }
    #[verifier::external_body] pub fn as_str(&self) -> (r: &str) ensures r@ == self.text() { unimplemented!() }
}
#[verifier::external_body]
pub struct EdgeType { s: String }
impl EdgeType {
    pub uninterp spec fn text(&self) -> Seq<char>;
    #[verifier::external_body] pub fn new(s: String) -> (r: EdgeType) ensures r.text() == s@, r == edge_type_of(s@) { unimplemented!() }
    #[verifier::external_body] pub fn as_str(&self) -> (r: &str) ensures r@ == self.text() { unimplemented!() }
}
/// HashSet<Label>: a stand-in with the one method persistence calls (contract-free)
pub struct LabelSet { pub v: Vec<Label> }
impl LabelSet { pub fn iter(&self) -> std::slice::Iter<'_, Label> { self.v.iter() } }
pub struct Node { pub id: NodeId, pub version: u64, pub labels: LabelSet, pub properties: PropertyMap, pub created_at: i64, pub updated_at: i64 }
pub struct Edge { pub id: EdgeId, pub version: u64, pub source: NodeId, pub target: NodeId, pub edge_type: EdgeType, pub properties: PropertyMap, pub created_at: i64 }
pub uninterp spec fn add_label_spec(ls: LabelSet, l: Label) -> LabelSet;
pub uninterp spec fn single_label(l: Label) -> LabelSet;
pub uninterp spec fn empty_props() -> PropertyMap;
impl Node {
    #[verifier::external_body]
    pub fn new(id: NodeId, label: Label) -> (r: Node)
        ensures r.id == id, r.labels == single_label(label), r.properties == empty_props()
    { unimplemented!() }
    #[verifier::external_body]
    pub fn add_label(&mut self, label: Label)
        ensures final(self).id == old(self).id, final(self).properties == old(self).properties,
            final(self).labels == add_label_spec(old(self).labels, label)
    { unimplemented!() }
}
impl Edge {
    #[verifier::external_body]
    pub fn new(id: EdgeId, source: NodeId, target: NodeId, edge_type: EdgeType) -> (r: Edge)
        ensures r.id == id, r.source == source, r.target == target, r.edge_type == edge_type, r.properties == empty_props()
    { unimplemented!() }
}

/// what storage keeps of a node / an edge (wall-clock fields and the in-memory version are not part of the recovered graph)
pub struct NodeRec { pub id: u64, pub labels: LabelSet, pub props: PropertyMap }
pub struct EdgeRec { pub id: u64, pub source: u64, pub target: u64, pub edge_type: EdgeType, pub props: PropertyMap }
pub open spec fn rec_n(n: Node) -> NodeRec { NodeRec { id: n.id.0, labels: n.labels, props: n.properties } }
pub open spec fn rec_e(e: Edge) -> EdgeRec { EdgeRec { id: e.id.0, source: e.source.0, target: e.target.0, edge_type: e.edge_type, props: e.properties } }
pub type Key = (Seq<char>, u64);

pub struct StorageError { pub x: u8 }
pub type StorageResult<T> = Result<T, StorageError>;
/// `ns` lists exactly the entries of tenant t in m: each listed once, nothing else, nothing missing
pub open spec fn lists_nodes(ns: Seq<Node>, m: Map<Key, NodeRec>, t: Seq<char>) -> bool {
    &&& ns.len() == keys_of(m.dom(), t).len()
    &&& forall|i: int| 0 <= i < ns.len() ==> m.contains_key((t, (#[trigger] ns[i]).id.0)) && m[(t, ns[i].id.0)] == rec_n(ns[i])
    &&& forall|i: int, j: int| 0 <= i < j < ns.len() ==> ns[i].id.0 != ns[j].id.0
}
pub open spec fn lists_edges(es: Seq<Edge>, m: Map<Key, EdgeRec>, t: Seq<char>) -> bool {
    &&& es.len() == keys_of(m.dom(), t).len()
    &&& forall|i: int| 0 <= i < es.len() ==> m.contains_key((t, (#[trigger] es[i]).id.0)) && m[(t, es[i].id.0)] == rec_e(es[i])
    &&& forall|i: int, j: int| 0 <= i < j < es.len() ==> es[i].id.0 != es[j].id.0
}
/// the keys of one tenant
pub open spec fn keys_of(d: Set<Key>, t: Seq<char>) -> Set<Key> { d.filter(|k: Key| k.0 == t) }

/// RocksDB-backed storage as a pair of maps (tenant, id) -> record (ASSUMED contract; C17 checks the tenant separation
/// of the two scans separately)
pub struct PersistentStorage { pub nodes: Ghost<Map<Key, NodeRec>>, pub edges: Ghost<Map<Key, EdgeRec>> }
impl PersistentStorage {
    #[verifier::external_body]
    pub fn put_node(&mut self, tenant: &str, node: &Node) -> (r: StorageResult<()>)
        ensures
            final(self).edges@ == old(self).edges@,
            r is Ok ==> final(self).nodes@ == old(self).nodes@.insert((tenant@, node.id.0), rec_n(*node)),
            r is Err ==> final(self).nodes@ == old(self).nodes@,
    { unimplemented!() }
    #[verifier::external_body]
    pub fn put_edge(&mut self, tenant: &str, edge: &Edge) -> (r: StorageResult<()>)
        ensures
            final(self).nodes@ == old(self).nodes@,
            r is Ok ==> final(self).edges@ == old(self).edges@.insert((tenant@, edge.id.0), rec_e(*edge)),
            r is Err ==> final(self).edges@ == old(self).edges@,
    { unimplemented!() }
    #[verifier::external_body]
    pub fn get_node(&self, tenant: &str, node_id: u64) -> (r: StorageResult<Option<Node>>)
        ensures
            r matches Ok(Some(n)) ==> self.nodes@.contains_key((tenant@, node_id)) && rec_n(n) == self.nodes@[(tenant@, node_id)] && n.id.0 == node_id,
            r matches Ok(None) ==> !self.nodes@.contains_key((tenant@, node_id)),
    { unimplemented!() }
    #[verifier::external_body]
    pub fn get_edge(&self, tenant: &str, edge_id: u64) -> (r: StorageResult<Option<Edge>>)
        ensures
            r matches Ok(Some(e)) ==> self.edges@.contains_key((tenant@, edge_id)) && rec_e(e) == self.edges@[(tenant@, edge_id)] && e.id.0 == edge_id,
            r matches Ok(None) ==> !self.edges@.contains_key((tenant@, edge_id)),
    { unimplemented!() }
    #[verifier::external_body]
    pub fn delete_node(&mut self, tenant: &str, node_id: u64) -> (r: StorageResult<()>)
        ensures
            final(self).edges@ == old(self).edges@,
            r is Ok ==> final(self).nodes@ == old(self).nodes@.remove((tenant@, node_id)),
            r is Err ==> final(self).nodes@ == old(self).nodes@,
    { unimplemented!() }
    #[verifier::external_body]
    pub fn delete_edge(&mut self, tenant: &str, edge_id: u64) -> (r: StorageResult<()>)
        ensures
            final(self).nodes@ == old(self).nodes@,
            r is Ok ==> final(self).edges@ == old(self).edges@.remove((tenant@, edge_id)),
            r is Err ==> final(self).edges@ == old(self).edges@,
    { unimplemented!() }
    #[verifier::external_body]
    pub fn scan_nodes(&self, tenant: &str) -> (r: StorageResult<Vec<Node>>)
        ensures r matches Ok(ns) ==> lists_nodes(ns@, self.nodes@, tenant@)
    { unimplemented!() }
    #[verifier::external_body]
    pub fn scan_edges(&self, tenant: &str) -> (r: StorageResult<Vec<Edge>>)
        ensures r matches Ok(es) ==> lists_edges(es@, self.edges@, tenant@)
    { unimplemented!() }
}

//@enum WalEntry from=wal
pub struct WalError { pub x: u8 }
pub type WalResult<T> = Result<T, WalError>;
/// the write-ahead log: append-only (ASSUMED).  Recovery never reads it, so its contents do not enter any contract.
pub struct Wal { pub log: Ghost<Seq<WalEntry>> }
impl Wal {
    #[verifier::external_body]
    pub fn append(&mut self, entry: WalEntry) -> (r: WalResult<u64>)
    { unimplemented!() }
}
pub mod bincode {
    use super::*;
    pub struct Error { pub x: u8 }
    #[verifier::external_body]
    pub fn serialize<T>(p: &T) -> (r: Result<Vec<u8>, Error>) { unimplemented!() }
}

//@enum TenantError from=tenant
pub type TenantResult<T> = Result<T, TenantError>;
//@struct ResourceQuotas from=tenant
//@struct ResourceUsage from=tenant
impl Clone for ResourceUsage {
    #[verifier::external_body]
    fn clone(&self) -> (r: Self) ensures r == *self { unimplemented!() }
}

/// two strs with the same characters are the same str (extensionality; vstd does not export it) -- needed because a
/// `match` on string literals compares strs, not their views
#[verifier::external_body]
pub proof fn axiom_str_ext(a: &str, b: &str)
    requires a@ == b@
    ensures a == b
{}
pub proof fn lemma_resource_match(r: &str)
    ensures
        r@ == "nodes"@ ==> r == "nodes", r@ == "edges"@ ==> r == "edges", r@ == "memory"@ ==> r == "memory",
        r@ == "storage"@ ==> r == "storage", r@ == "connections"@ ==> r == "connections",
{
    if r@ == "nodes"@ { axiom_str_ext(r, "nodes"); }
    if r@ == "edges"@ { axiom_str_ext(r, "edges"); }
    if r@ == "memory"@ { axiom_str_ext(r, "memory"); }
    if r@ == "storage"@ { axiom_str_ext(r, "storage"); }
    if r@ == "connections"@ { axiom_str_ext(r, "connections"); }
}
// the literal resource names (Verus needs the characters of a literal revealed before it can tell two literals apart)
pub proof fn lemma_resource_names()
    ensures
        "nodes"@ != "edges"@, "nodes"@ != "memory"@, "nodes"@ != "storage"@, "nodes"@ != "connections"@,
        "edges"@ != "memory"@, "edges"@ != "storage"@, "edges"@ != "connections"@,
        "memory"@ != "storage"@, "memory"@ != "connections"@, "storage"@ != "connections"@,
{
    reveal_strlit("nodes"); reveal_strlit("edges"); reveal_strlit("memory"); reveal_strlit("storage"); reveal_strlit("connections");
    assert("nodes"@[0] == 'n' && "edges"@[0] == 'e' && "memory"@[0] == 'm' && "storage"@[0] == 's' && "connections"@[0] == 'c');
}
/// the quota decision as mathematics: a resource is within quota iff it has no limit or usage is strictly below it
pub open spec fn within_quota(u: ResourceUsage, q: ResourceQuotas, resource: Seq<char>) -> bool {
    if resource == "nodes"@ { q.max_nodes matches Some(m) ==> u.node_count < m }
    else if resource == "edges"@ { q.max_edges matches Some(m) ==> u.edge_count < m }
    else if resource == "memory"@ { q.max_memory_bytes matches Some(m) ==> u.memory_bytes < m }
    else if resource == "connections"@ { q.max_connections matches Some(m) ==> u.active_connections < m }
    else { true }
}
impl ResourceUsage {
//@fn ResourceUsage::check_quota from=tenant ret=r props=C18
//@ensures
        r is Ok <==> within_quota(*self, *quotas, resource@),      //#ok_iff_within_quota
        r matches Err(e) ==> e is QuotaExceeded,                   //#refusal_is_quota_exceeded
//@atstart
        proof { lemma_resource_names(); lemma_resource_match(resource); }
//@end
}

// =====================================================================
// TenantManager: HashMap<String, _> looked up by &str (A-HASH for String keys, assumed)
// =====================================================================
pub uninterp spec fn string_of(s: Seq<char>) -> String;
/// a String is determined by its characters; lookups by &str find the entry whose key has those characters
#[verifier::external_body]
pub proof fn axiom_string_keys()
    ensures
        vstd::std_specs::hash::obeys_key_model::<String>(),
        forall|s: Seq<char>| (#[trigger] string_of(s))@ == s,
        forall|x: String| #[trigger] string_of(x@) == x,
{}
#[verifier::external_body]
pub proof fn axiom_borrowed_str_key<V>()
    ensures
        forall|m: Map<String, V>, k: &str| #[trigger] vstd::std_specs::hash::contains_borrowed_key(m, k) <==> m.contains_key(string_of(k@)),
        forall|m: Map<String, V>, k: &str, v: V| #[trigger] vstd::std_specs::hash::maps_borrowed_key_to_value(m, k, v) <==> (m.contains_key(string_of(k@)) && m[string_of(k@)] == v),
{}
//@include common/hashmap_get_mut.rs
//@struct Tenant from=tenant keep=id,quotas,enabled
//@struct TenantManager from=tenant erase

impl TenantManager {
    pub open spec fn usage_of(&self, t: Seq<char>) -> Option<ResourceUsage> {
        if self.usage@.contains_key(string_of(t)) { Some(self.usage@[string_of(t)]) } else { None }
    }
    pub open spec fn tenant_of(&self, t: Seq<char>) -> Option<Tenant> {
        if self.tenants@.contains_key(string_of(t)) { Some(self.tenants@[string_of(t)]) } else { None }
    }
    /// may `resource` of tenant t grow by one?  (the meaning of check_quota)
    pub open spec fn admits(&self, t: Seq<char>, resource: Seq<char>) -> bool {
        self.tenant_of(t) matches Some(tn) && (tn.enabled && (self.usage_of(t) matches Some(u) && within_quota(u, tn.quotas, resource)))
    }

    /// usage after `amount` more / fewer of `resource`
    pub open spec fn bump(u: ResourceUsage, resource: Seq<char>, amount: int) -> ResourceUsage {
        if resource == "nodes"@ { ResourceUsage { node_count: (u.node_count + amount) as usize, ..u } }
        else if resource == "edges"@ { ResourceUsage { edge_count: (u.edge_count + amount) as usize, ..u } }
        else if resource == "memory"@ { ResourceUsage { memory_bytes: (u.memory_bytes + amount) as usize, ..u } }
        else if resource == "storage"@ { ResourceUsage { storage_bytes: (u.storage_bytes + amount) as usize, ..u } }
        else if resource == "connections"@ { ResourceUsage { active_connections: (u.active_connections + amount) as usize, ..u } }
        else { u }
    }
    pub open spec fn field(u: ResourceUsage, resource: Seq<char>) -> int {
        if resource == "nodes"@ { u.node_count as int }
        else if resource == "edges"@ { u.edge_count as int }
        else if resource == "memory"@ { u.memory_bytes as int }
        else if resource == "storage"@ { u.storage_bytes as int }
        else if resource == "connections"@ { u.active_connections as int }
        else { 0 }
    }

//@fn TenantManager::increment_usage from=tenant selfmut ret=r props=C18
//@requires
        old(self).usage_of(tenant_id@) matches Some(u) ==> Self::field(u, resource@) + amount <= usize::MAX,
//@ensures
        final(self).tenants@ == old(self).tenants@,                                         //#tenants_frame
        r is Ok <==> old(self).usage_of(tenant_id@) is Some,                                //#ok_iff_known
        r is Err ==> final(self).usage@ == old(self).usage@,                                //#err_changes_nothing
        r is Ok ==> final(self).usage@ == old(self).usage@.insert(string_of(tenant_id@),
            Self::bump(old(self).usage_of(tenant_id@)->Some_0, resource@, amount as int)),      //#adds_amount
//@atstart
        proof { axiom_string_keys(); axiom_borrowed_str_key::<ResourceUsage>(); lemma_resource_names(); lemma_resource_match(resource); }
//@end

//@fn TenantManager::decrement_usage from=tenant selfmut ret=r props=C18
//@ensures
        final(self).tenants@ == old(self).tenants@,                                         //#tenants_frame
        r is Ok <==> old(self).usage_of(tenant_id@) is Some,                                //#ok_iff_known
        r is Err ==> final(self).usage@ == old(self).usage@,                                //#err_changes_nothing
        r is Ok ==> final(self).usage@ == old(self).usage@.insert(string_of(tenant_id@),
            Self::bump(old(self).usage_of(tenant_id@)->Some_0, resource@,
                -(if Self::field(old(self).usage_of(tenant_id@)->Some_0, resource@) < amount { Self::field(old(self).usage_of(tenant_id@)->Some_0, resource@) } else { amount as int }))),      //#subtracts_saturating
//@atstart
        proof { axiom_string_keys(); axiom_borrowed_str_key::<ResourceUsage>(); lemma_resource_names(); lemma_resource_match(resource); }
//@end


//@fn TenantManager::set_usage from=tenant selfmut ret=r props=C18 optional
//@ensures
        final(self).tenants@ == old(self).tenants@,                                         //#tenants_frame
        r is Ok <==> old(self).usage_of(tenant_id@) is Some,                                //#ok_iff_known
        r is Err ==> final(self).usage@ == old(self).usage@,                                //#err_changes_nothing
        r is Ok ==> final(self).usage@ == old(self).usage@.insert(string_of(tenant_id@),
            ResourceUsage { node_count, edge_count, ..old(self).usage_of(tenant_id@)->Some_0 }),      //#sets_both_counts
//@atstart
        proof { axiom_string_keys(); axiom_borrowed_str_key::<ResourceUsage>(); }
//@end

//@fn TenantManager::get_usage from=tenant ret=r props=C18
//@ensures
        r is Ok <==> self.usage_of(tenant_id@) is Some,                                     //#ok_iff_known
        r matches Ok(u) ==> Some(u) == self.usage_of(tenant_id@),                           //#returns_the_counters
//@atstart
        proof { axiom_string_keys(); axiom_borrowed_str_key::<ResourceUsage>(); }
//@end

//@fn TenantManager::check_quota from=tenant ret=r props=C18
//@ensures
        r is Ok <==> self.admits(tenant_id@, resource@),      //#ok_iff_admitted
//@atstart
        proof { axiom_string_keys(); axiom_borrowed_str_key::<Tenant>(); axiom_borrowed_str_key::<ResourceUsage>(); }
//@end
}

// =====================================================================
// PersistenceManager: every acknowledged operation has exactly its effect on what recovery reads; refused ones have none
// =====================================================================
//@enum PersistenceError from=pm
impl From<StorageError> for PersistenceError { #[verifier::external_body] fn from(e: StorageError) -> (r: Self) ensures r is Storage { unimplemented!() } }
impl From<WalError> for PersistenceError { #[verifier::external_body] fn from(e: WalError) -> (r: Self) ensures r is Wal { unimplemented!() } }
impl From<TenantError> for PersistenceError { #[verifier::external_body] fn from(e: TenantError) -> (r: Self) ensures r == PersistenceError::Tenant(e) { unimplemented!() } }
impl From<bincode::Error> for PersistenceError { #[verifier::external_body] fn from(e: bincode::Error) -> (r: Self) ensures r is Serialization { unimplemented!() } }
//@struct PersistenceManager from=pm keep=storage,wal,tenants erase

pub proof fn lemma_keys_insert(d: Set<Key>, t: Seq<char>, id: u64, t2: Seq<char>)
    ensures
        keys_of(d.insert((t, id)), t) == keys_of(d, t).insert((t, id)),
        t2 != t ==> keys_of(d.insert((t, id)), t2) == keys_of(d, t2),
        !d.contains((t, id)) ==> keys_of(d.insert((t, id)), t).len() == keys_of(d, t).len() + 1,
        d.contains((t, id)) ==> keys_of(d.insert((t, id)), t).len() == keys_of(d, t).len(),
{
    assert(keys_of(d.insert((t, id)), t) =~= keys_of(d, t).insert((t, id)));
    if t2 != t { assert(keys_of(d.insert((t, id)), t2) =~= keys_of(d, t2)); }
    if d.contains((t, id)) { assert(d.insert((t, id)) =~= d); }
}
pub proof fn lemma_keys_remove(d: Set<Key>, t: Seq<char>, id: u64, t2: Seq<char>)
    ensures
        keys_of(d.remove((t, id)), t) == keys_of(d, t).remove((t, id)),
        t2 != t ==> keys_of(d.remove((t, id)), t2) == keys_of(d, t2),
        d.contains((t, id)) ==> keys_of(d.remove((t, id)), t).len() == keys_of(d, t).len() - 1,
        !d.contains((t, id)) ==> keys_of(d.remove((t, id)), t).len() == keys_of(d, t).len(),
{
    assert(keys_of(d.remove((t, id)), t) =~= keys_of(d, t).remove((t, id)));
    if t2 != t { assert(keys_of(d.remove((t, id)), t2) =~= keys_of(d, t2)); }
    if !d.contains((t, id)) { assert(d.remove((t, id)) =~= d); }
}

impl PersistenceManager {
    /// the usage counters of tenant t equal what is stored for t
    pub open spec fn counts_ok(n: Map<Key, NodeRec>, e: Map<Key, EdgeRec>, u: Map<String, ResourceUsage>, t: Seq<char>) -> bool {
        u.contains_key(string_of(t)) ==>
            u[string_of(t)].node_count == keys_of(n.dom(), t).len() && u[string_of(t)].edge_count == keys_of(e.dom(), t).len()
    }
    pub open spec fn inv_of(n: Map<Key, NodeRec>, e: Map<Key, EdgeRec>, u: Map<String, ResourceUsage>) -> bool {
        forall|t: Seq<char>| #[trigger] Self::counts_ok(n, e, u, t)
    }
    pub proof fn lemma_inv_same_keys(n: Map<Key, NodeRec>, e: Map<Key, EdgeRec>, n2: Map<Key, NodeRec>, e2: Map<Key, EdgeRec>, u: Map<String, ResourceUsage>)
        requires Self::inv_of(n, e, u), n2.dom() =~= n.dom(), e2.dom() =~= e.dom()
        ensures Self::inv_of(n2, e2, u)
    {
        assert forall|t: Seq<char>| #[trigger] Self::counts_ok(n2, e2, u, t) by { assert(Self::counts_ok(n, e, u, t)); }
    }
    pub open spec fn inv(&self) -> bool { Self::inv_of(self.storage.nodes@, self.storage.edges@, self.tenants.usage@) }
    /// nothing that recovery or the quota logic reads has changed
    pub open spec fn same_state(&self, o: &PersistenceManager) -> bool {
        self.storage.nodes@ == o.storage.nodes@ && self.storage.edges@ == o.storage.edges@
            && self.tenants.usage@ == o.tenants.usage@ && self.tenants.tenants@ == o.tenants.tenants@
    }

//@fn PersistenceManager::persist_create_node from=pm selfmut ret=r props=C16,C18,C32
//@requires
        old(self).inv(),
        old(self).tenants.usage_of(tenant@) matches Some(u) ==> u.node_count < usize::MAX,
//@ensures
        r is Ok ==> final(self).storage.nodes@ == old(self).storage.nodes@.insert((tenant@, node.id.0), rec_n(*node))
            && final(self).storage.edges@ == old(self).storage.edges@,                               //#ok_stores_the_node
        r is Ok ==> old(self).tenants.admits(tenant@, "nodes"@),                                     //#ok_only_within_quota
        r is Err ==> final(self).same_state(old(self)),                                              //#refused_leaves_nothing
        final(self).inv(),                                                                           //#usage_equals_stored
        final(self).tenants.tenants@ == old(self).tenants.tenants@,                                  //#tenants_frame
//@atend
        proof {
            axiom_string_keys();
            let (n0, e0, u0) = (old(self).storage.nodes@, old(self).storage.edges@, old(self).tenants.usage@);
            assert forall|t: Seq<char>| #[trigger] Self::counts_ok(self.storage.nodes@, self.storage.edges@, self.tenants.usage@, t) by {
                lemma_keys_insert(n0.dom(), tenant@, node.id.0, t);
                assert(Self::counts_ok(n0, e0, u0, t));
                assert(self.storage.nodes@.dom() =~= n0.dom().insert((tenant@, node.id.0)));
            }
        }
//@end

//@fn PersistenceManager::persist_create_edge from=pm selfmut ret=r props=C16,C18,C32
//@requires
        old(self).inv(),
        old(self).tenants.usage_of(tenant@) matches Some(u) ==> u.edge_count < usize::MAX,
//@ensures
        r is Ok ==> final(self).storage.edges@ == old(self).storage.edges@.insert((tenant@, edge.id.0), rec_e(*edge))
            && final(self).storage.nodes@ == old(self).storage.nodes@,                               //#ok_stores_the_edge
        r is Ok ==> old(self).tenants.admits(tenant@, "edges"@),                                     //#ok_only_within_quota
        r is Err ==> final(self).same_state(old(self)),                                              //#refused_leaves_nothing
        final(self).inv(),                                                                           //#usage_equals_stored
        final(self).tenants.tenants@ == old(self).tenants.tenants@,                                  //#tenants_frame
//@atstart
        proof { lemma_resource_names(); }
//@atend
        proof {
            axiom_string_keys();
            let (n0, e0, u0) = (old(self).storage.nodes@, old(self).storage.edges@, old(self).tenants.usage@);
            assert forall|t: Seq<char>| #[trigger] Self::counts_ok(self.storage.nodes@, self.storage.edges@, self.tenants.usage@, t) by {
                lemma_keys_insert(e0.dom(), tenant@, edge.id.0, t);
                assert(Self::counts_ok(n0, e0, u0, t));
                assert(self.storage.edges@.dom() =~= e0.dom().insert((tenant@, edge.id.0)));
            }
        }
//@end

//@fn PersistenceManager::persist_delete_node from=pm selfmut ret=r props=C16,C18,C32
//@requires
        old(self).inv(),
//@ensures
        r is Ok ==> final(self).storage.nodes@ == old(self).storage.nodes@.remove((tenant@, node_id))
            && final(self).storage.edges@ == old(self).storage.edges@,                               //#ok_removes_the_node
        r is Err ==> final(self).same_state(old(self)),                                              //#refused_leaves_nothing
        final(self).inv(),                                                                           //#usage_equals_stored
        final(self).tenants.tenants@ == old(self).tenants.tenants@,                                  //#tenants_frame
//@atend
        proof {
            axiom_string_keys();
            let (n0, e0, u0) = (old(self).storage.nodes@, old(self).storage.edges@, old(self).tenants.usage@);
            assert forall|t: Seq<char>| #[trigger] Self::counts_ok(self.storage.nodes@, self.storage.edges@, self.tenants.usage@, t) by {
                lemma_keys_remove(n0.dom(), tenant@, node_id, t);
                assert(Self::counts_ok(n0, e0, u0, t));
                assert(self.storage.nodes@.dom() =~= n0.dom().remove((tenant@, node_id)));
                lemma_resource_names();
            }
        }
//@end

//@fn PersistenceManager::persist_delete_edge from=pm selfmut ret=r props=C16,C18,C32
//@requires
        old(self).inv(),
//@ensures
        r is Ok ==> final(self).storage.edges@ == old(self).storage.edges@.remove((tenant@, edge_id))
            && final(self).storage.nodes@ == old(self).storage.nodes@,                               //#ok_removes_the_edge
        r is Err ==> final(self).same_state(old(self)),                                              //#refused_leaves_nothing
        final(self).inv(),                                                                           //#usage_equals_stored
        final(self).tenants.tenants@ == old(self).tenants.tenants@,                                  //#tenants_frame
//@atend
        proof {
            axiom_string_keys();
            let (n0, e0, u0) = (old(self).storage.nodes@, old(self).storage.edges@, old(self).tenants.usage@);
            assert forall|t: Seq<char>| #[trigger] Self::counts_ok(self.storage.nodes@, self.storage.edges@, self.tenants.usage@, t) by {
                lemma_keys_remove(e0.dom(), tenant@, edge_id, t);
                assert(Self::counts_ok(n0, e0, u0, t));
                assert(self.storage.edges@.dom() =~= e0.dom().remove((tenant@, edge_id)));
                lemma_resource_names();
            }
        }
//@end

//@fn PersistenceManager::persist_update_node_properties_versioned from=pm selfmut ret=r props=C16,C32
//@requires
        old(self).inv(),
//@ensures
        r is Ok ==> final(self).storage.nodes@ == (if old(self).storage.nodes@.contains_key((tenant@, node_id)) {
                old(self).storage.nodes@.insert((tenant@, node_id), NodeRec { props: *properties, ..old(self).storage.nodes@[(tenant@, node_id)] })
            } else { old(self).storage.nodes@ }),                                                    //#ok_update_reaches_storage
        final(self).storage.edges@ == old(self).storage.edges@,                                      //#edges_frame
        r is Err ==> final(self).same_state(old(self)),                                              //#refused_leaves_nothing
        final(self).inv(),                                                                           //#usage_equals_stored
        final(self).tenants.tenants@ == old(self).tenants.tenants@ && final(self).tenants.usage@ == old(self).tenants.usage@,   //#tenants_frame
//@atend
        proof {
            Self::lemma_inv_same_keys(old(self).storage.nodes@, old(self).storage.edges@, self.storage.nodes@, self.storage.edges@, self.tenants.usage@);
        }
//@end

//@fn PersistenceManager::persist_update_node_properties from=pm selfmut ret=r props=C16,C32
//@requires
        old(self).inv(),
//@ensures
        r is Ok ==> final(self).storage.nodes@ == (if old(self).storage.nodes@.contains_key((tenant@, node_id)) {
                old(self).storage.nodes@.insert((tenant@, node_id), NodeRec { props: *properties, ..old(self).storage.nodes@[(tenant@, node_id)] })
            } else { old(self).storage.nodes@ }),                                                    //#ok_update_reaches_storage
        final(self).storage.edges@ == old(self).storage.edges@,                                      //#edges_frame
        r is Err ==> final(self).same_state(old(self)),                                              //#refused_leaves_nothing
        final(self).inv(),                                                                           //#usage_equals_stored
        final(self).tenants.tenants@ == old(self).tenants.tenants@ && final(self).tenants.usage@ == old(self).tenants.usage@,   //#tenants_frame
//@end

//@fn PersistenceManager::persist_update_edge_properties from=pm selfmut ret=r props=C16,C32
//@requires
        old(self).inv(),
//@ensures
        r is Ok ==> final(self).storage.edges@ == (if old(self).storage.edges@.contains_key((tenant@, edge_id)) {
                old(self).storage.edges@.insert((tenant@, edge_id), EdgeRec { props: *properties, ..old(self).storage.edges@[(tenant@, edge_id)] })
            } else { old(self).storage.edges@ }),                                                    //#ok_update_reaches_storage
        final(self).storage.nodes@ == old(self).storage.nodes@,                                      //#nodes_frame
        r is Err ==> final(self).same_state(old(self)),                                              //#refused_leaves_nothing
        final(self).inv(),                                                                           //#usage_equals_stored
        final(self).tenants.tenants@ == old(self).tenants.tenants@ && final(self).tenants.usage@ == old(self).tenants.usage@,   //#tenants_frame
//@atend
        proof {
            Self::lemma_inv_same_keys(old(self).storage.nodes@, old(self).storage.edges@, self.storage.nodes@, self.storage.edges@, self.tenants.usage@);
        }
//@end

//@fn PersistenceManager::recover from=pm selfmut ret=r props=C16,C18,C32
//@ensures
        r matches Ok((ns, es)) ==> lists_nodes(ns@, old(self).storage.nodes@, tenant@)
            && lists_edges(es@, old(self).storage.edges@, tenant@),                                  //#returns_exactly_what_is_stored
        final(self).storage.nodes@ == old(self).storage.nodes@
            && final(self).storage.edges@ == old(self).storage.edges@,                               //#storage_untouched
        r is Ok ==> Self::counts_ok(final(self).storage.nodes@, final(self).storage.edges@, final(self).tenants.usage@, tenant@),   //#usage_equals_recovered
        old(self).inv() ==> final(self).inv(),                                                       //#usage_equals_stored
        r is Err ==> final(self).same_state(old(self)),                                              //#refused_leaves_nothing
        final(self).tenants.tenants@ == old(self).tenants.tenants@,                                  //#tenants_frame
//@atend
        proof {
            axiom_string_keys();
            let (n0, e0, u0) = (old(self).storage.nodes@, old(self).storage.edges@, old(self).tenants.usage@);
            if old(self).inv() {
                assert forall|t: Seq<char>| #[trigger] Self::counts_ok(n0, e0, self.tenants.usage@, t) by {
                    assert(Self::counts_ok(n0, e0, u0, t));
                }
            }
        }
//@end
}

// =====================================================================
// the replicated state machine: a request has exactly its persistence effect, or none (C32)
// =====================================================================
//@enum Request from=sm
//@enum Response from=sm
impl std::fmt::Display for PersistenceError {
    #[verifier::external_body]
    fn fmt(&self, f: &mut std::fmt::Formatter<'_>) -> std::fmt::Result { unimplemented!() }
}
impl vstd::std_specs::fmt::DisplaySpecImpl for PersistenceError {
    open spec fn fmt_req(&self, f: &std::fmt::Formatter<'_>) -> bool { true }
}
//@struct GraphStateMachine from=sm keep=persistence erase

/// the labels of a node built from a request's label list: the first (or the default label), then the others added in order
pub open spec fn fold_labels(ls: Seq<String>, k: nat) -> LabelSet
    decreases k
{
    if k <= 1 { single_label(label_of(if ls.len() > 0 { ls[0]@ } else { Seq::<char>::empty() })) }
    else { add_label_spec(fold_labels(ls, (k - 1) as nat), label_of(ls[k - 1]@)) }
}
pub open spec fn request_labels(ls: Seq<String>) -> LabelSet { fold_labels(ls, if ls.len() > 1 { ls.len() } else { 1 }) }
/// the record of the node / edge a create request describes
pub open spec fn requested_node(node_id: u64, labels: Vec<String>, properties: PropertyMap) -> NodeRec {
    NodeRec { id: node_id, labels: request_labels(labels@), props: properties }
}
pub open spec fn requested_edge(edge_id: u64, source: u64, target: u64, edge_type: String, properties: PropertyMap) -> EdgeRec {
    EdgeRec { id: edge_id, source, target, edge_type: edge_type_of(edge_type@), props: properties }
}
/// the effect of a request on what recovery reads, when it is acknowledged
pub open spec fn effect(n: Map<Key, NodeRec>, e: Map<Key, EdgeRec>, request: Request) -> (Map<Key, NodeRec>, Map<Key, EdgeRec>) {
    match request {
        Request::CreateNode { tenant, node_id, labels, properties } => (n.insert((tenant@, node_id), requested_node(node_id, labels, properties)), e),
        Request::CreateEdge { tenant, edge_id, source, target, edge_type, properties } =>
            (n, e.insert((tenant@, edge_id), requested_edge(edge_id, source, target, edge_type, properties))),
        Request::DeleteNode { tenant, node_id } => (n.remove((tenant@, node_id)), e),
        Request::DeleteEdge { tenant, edge_id } => (n, e.remove((tenant@, edge_id))),
        Request::UpdateNodeProperties { tenant, node_id, properties, version } =>
            (if n.contains_key((tenant@, node_id)) { n.insert((tenant@, node_id), NodeRec { props: properties, ..n[(tenant@, node_id)] }) } else { n }, e),
        Request::UpdateEdgeProperties { tenant, edge_id, properties, version } =>
            (n, if e.contains_key((tenant@, edge_id)) { e.insert((tenant@, edge_id), EdgeRec { props: properties, ..e[(tenant@, edge_id)] }) } else { e }),
        Request::ExecuteQuery { tenant, query } => (n, e),
    }
}
/// what the caller (the Raft layer / the graph store) guarantees about ids: creations use fresh ids, deletions existing ones
pub open spec fn ids_sane(p: &PersistenceManager, request: Request) -> bool {
    match request {
        Request::CreateNode { tenant, node_id, labels, properties } => !p.storage.nodes@.contains_key((tenant@, node_id))
            && (p.tenants.usage_of(tenant@) matches Some(u) ==> u.node_count < usize::MAX),
        Request::CreateEdge { tenant, edge_id, source, target, edge_type, properties } => !p.storage.edges@.contains_key((tenant@, edge_id))
            && (p.tenants.usage_of(tenant@) matches Some(u) ==> u.edge_count < usize::MAX),
        Request::DeleteNode { tenant, node_id } => p.storage.nodes@.contains_key((tenant@, node_id)),
        Request::DeleteEdge { tenant, edge_id } => p.storage.edges@.contains_key((tenant@, edge_id)),
        _ => true,
    }
}
pub open spec fn acknowledged(r: Response) -> bool { !(r is Error) }

impl GraphStateMachine {
//@fn GraphStateMachine::apply from=sm selfmut ret=r props=C32
//@requires
        old(self).persistence.inv(),
        ids_sane(&old(self).persistence, request),
//@ensures
        acknowledged(r) ==> (final(self).persistence.storage.nodes@, final(self).persistence.storage.edges@)
            == effect(old(self).persistence.storage.nodes@, old(self).persistence.storage.edges@, request),      //#acknowledged_has_exactly_its_effect
        !acknowledged(r) ==> final(self).persistence.same_state(&old(self).persistence),                         //#refused_has_no_effect
        final(self).persistence.inv(),                                                                           //#usage_equals_stored
        final(self).persistence.tenants.tenants@ == old(self).persistence.tenants.tenants@,                      //#tenants_frame
//@loop 1 iter=it
                    invariant
                        node.id.0 == node_id,
                        it.seq().len() == (if labels@.len() > 0 { labels@.len() - 1 } else { 0 }),
                        forall|j: int| 0 <= j < it.seq().len() ==> *it.seq()[j] == labels@[j + 1],
                        node.labels == fold_labels(labels@, (1 + it.index()) as nat),              //#labels_so_far
//@end
}

/// C32: replicas that agree on what recovery reads and on the quota state, and acknowledge the same request, still agree
/// afterwards -- the effect is a function of the state and the request (I/O failures are the only other input: a replica
/// that refuses a request because its disk failed keeps its old state and is no longer a replica of the others)
pub proof fn lemma_replicas_agree(n: Map<Key, NodeRec>, e: Map<Key, EdgeRec>, request: Request, a: (Map<Key, NodeRec>, Map<Key, EdgeRec>), b: (Map<Key, NodeRec>, Map<Key, EdgeRec>))
    requires a == effect(n, e, request), b == effect(n, e, request)
    ensures a == b
{}
}
fn main(){}
