// Kani unit `storekeys_kani` (C17): the byte-level meaning of the four string expressions whose results the
// Verus unit `storekeys` assumes.  The two key functions are extracted verbatim from src/persistence/storage.rs
// (they are private associated functions without `self`); the two expressions are copied by the extractor from
// the function bodies they occur in.  Bounded: tenant ids of <= 2 bytes over {a, b, ':'}, every u64 id.
#![allow(dead_code, unused_imports)]
pub mod keys {
//@extract src/persistence/storage.rs PersistentStorage::node_key pub
//@extract src/persistence/storage.rs PersistentStorage::edge_key pub
}

//@require_text src/persistence/storage.rs PersistentStorage::scan_nodes let prefix = format!("{}:", tenant);
//@require_text src/persistence/storage.rs PersistentStorage::scan_edges let prefix = format!("{}:", tenant);
//@require_text src/persistence/tenant.rs TenantManager::create_tenant if id.contains(':') {
#[cfg(kani)]
mod proofs {
    use super::keys::*;

    fn any_tenant() -> String {
        let n: usize = kani::any(); kani::assume(n <= 2);
        let mut s = String::new();
        let mut i = 0;
        while i < n {
            let c = match kani::any::<u8>() % 3 { 0 => 'a', 1 => 'b', _ => ':' };
            s.push(c);
            i += 1;
        }
        s
    }
    fn hex_digit(v: u64) -> u8 { let d = (v & 0xf) as u8; if d < 10 { b'0' + d } else { b'a' + (d - 10) } }

    fn key_layout(key: &[u8], t: &str, kind: u8, id: u64) {
        let tb = t.as_bytes();
        assert!(key.len() == tb.len() + 3 + 16);
        let mut i = 0;
        while i < tb.len() { assert!(key[i] == tb[i]); i += 1; }
        assert!(key[tb.len()] == b':' && key[tb.len() + 1] == kind && key[tb.len() + 2] == b':');
        // 16 lower-case hex digits, most significant first: the id is recoverable and keys sort by id
        let k: usize = kani::any(); kani::assume(k < 16);
        assert!(key[tb.len() + 3 + k] == hex_digit(id >> (4 * (15 - k))));
    }
    #[kani::proof]
    #[kani::unwind(20)]
    fn node_key_layout() {
        let t = any_tenant(); let id: u64 = kani::any();
        let key = node_key(&t, id);
        key_layout(&key, &t, b'n', id);
    }
    #[kani::proof]
    #[kani::unwind(20)]
    fn edge_key_layout() {
        let t = any_tenant(); let id: u64 = kani::any();
        let key = edge_key(&t, id);
        key_layout(&key, &t, b'e', id);
    }
    /// the scan prefix expression of scan_nodes / scan_edges
    #[kani::proof]
    #[kani::unwind(8)]
    fn scan_prefix_layout() {
        let tenant_s = any_tenant();
        let tenant: &str = &tenant_s;
        let prefix = format!("{}:", tenant);
        let pb = prefix.as_bytes(); let tb = tenant.as_bytes();
        assert!(pb.len() == tb.len() + 1 && pb[tb.len()] == b':');
        let mut i = 0;
        while i < tb.len() { assert!(pb[i] == tb[i]); i += 1; }
    }
    /// the validator expression of create_tenant
    #[kani::proof]
    #[kani::unwind(8)]
    fn id_has_colon_meaning() {
        let id = any_tenant();
        let mut any_colon = false;
        let b = id.as_bytes();
        let mut i = 0;
        while i < b.len() { if b[i] == b':' { any_colon = true; } i += 1; }
        assert!(id.contains(':') == any_colon);
        kani::cover!(any_colon);
    }

    // @PLAYBACK@
}
