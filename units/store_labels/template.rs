//@unit store_labels
//@properties C06
//@source store src/graph/store.rs
//@source types src/graph/types.rs
//@rules D2 R2
#![feature(allocator_api)]
#![allow(unused_imports, unused_variables, unused_mut, dead_code)]
use vstd::prelude::*;
use std::collections::{HashMap, HashSet};
verus!{
global size_of usize == 8;
//@include common/std_extra.rs
//@include common/hashmap_get_mut.rs

// =====================================================================
// prelude: stand-ins (D3/D4) for what node creation and relabelling touch besides the label index and the slots
// =====================================================================
#[verifier::external_body] #[derive(PartialEq, Eq, Hash)] pub struct Label { s: String }
impl Clone for Label { #[verifier::external_body] fn clone(&self) -> (r: Self) ensures r == *self { unimplemented!() } }
#[verifier::external_body] pub struct PropertyMap { m: u8 }
impl Clone for PropertyMap { #[verifier::external_body] fn clone(&self) -> (r: Self) ensures r == *self { unimplemented!() } }
impl PropertyMap { #[verifier::external_body] pub fn is_empty(&self) -> bool { unimplemented!() } }
pub type Entry = (NodeId, EdgeId);
/// a node version as far as labels go (src/graph/node.rs; its three label methods are ASSUMED to do what their one-line
/// bodies say: with_labels collects the labels, add_label inserts, remove_label removes and reports whether it was there)
pub struct Node { pub id: NodeId, pub version: u64, pub labels: HashSet<Label>, pub properties: PropertyMap }
impl Node {
    #[verifier::external_body]
    pub fn with_labels_of(id: NodeId, labels: &Vec<Label>) -> (r: Node)
        ensures r.id == id, r.labels@ == labels@.to_set()
    { unimplemented!() }
    #[verifier::external_body]
    pub fn add_label(&mut self, label: Label)
        ensures final(self).labels@ == old(self).labels@.insert(label), final(self).id == old(self).id, final(self).version == old(self).version, final(self).properties == old(self).properties
    { unimplemented!() }
    #[verifier::external_body]
    pub fn remove_label(&mut self, label: &Label) -> (r: bool)
        ensures r == old(self).labels@.contains(*label), final(self).labels@ == old(self).labels@.remove(*label), final(self).id == old(self).id, final(self).version == old(self).version, final(self).properties == old(self).properties
    { unimplemented!() }
}
impl Clone for Node { #[verifier::external_body] fn clone(&self) -> (r: Self) ensures r == *self { unimplemented!() } }
#[verifier::external_body] pub struct GraphCatalog { c: u8 }
impl GraphCatalog { #[verifier::external_body] pub fn on_label_added(&mut self, l: &Label) { unimplemented!() } }
#[verifier::external_body]
pub proof fn axiom_key_models()
    ensures vstd::std_specs::hash::obeys_key_model::<Label>(), vstd::std_specs::hash::obeys_key_model::<NodeId>()
{}
/// `m.entry(k).or_insert_with(f)` (A-STD; wrapper body is the original expression): a mutable reference to the value
/// under k, inserted first (as f()) when k was absent; nothing else changes
#[verifier::external_body]
pub fn map_entry_or_insert_with<'a, K: Eq + std::hash::Hash, V, F: FnOnce() -> V>(m: &'a mut HashMap<K, V>, k: K, f: F) -> (r: &'a mut V)
    requires f.requires(())
    ensures
        old(m)@.contains_key(k) ==> *r == old(m)@[k],
        !old(m)@.contains_key(k) ==> f.ensures((), *r),
        final(m)@ == old(m)@.insert(k, *final(r)),
{ m.entry(k).or_insert_with(f) }
/// `self.nodes.get_mut(idx).and_then(|v| v.last_mut())` (A-STD; wrapper body is the original chain): the newest version of
/// the chain in slot idx, if the slot exists and is not empty; writing through it changes that element only
#[verifier::external_body]
pub fn newest_version_mut(nodes: &mut Vec<Vec<Node>>, idx: usize) -> (r: Option<&mut Node>)
    ensures match r {
        Some(n) => (idx as int) < old(nodes)@.len() && old(nodes)@[idx as int]@.len() > 0 && *n == old(nodes)@[idx as int]@.last()
            && final(nodes)@.len() == old(nodes)@.len()
            && final(nodes)@[idx as int]@ == old(nodes)@[idx as int]@.drop_last().push(*final(n))
            && (forall|k: int| 0 <= k < old(nodes)@.len() && k != idx ==> (#[trigger] final(nodes)@[k]) == old(nodes)@[k]),
        None => ((idx as int) >= old(nodes)@.len() || old(nodes)@[idx as int]@.len() == 0) && final(nodes)@ == old(nodes)@,
    }
{ nodes.get_mut(idx).and_then(|v| v.last_mut()) }
pub assume_specification<T, A: core::alloc::Allocator>[ Vec::<T, A>::capacity ](v: &Vec<T, A>) -> (r: usize);
pub assume_specification<T, A: core::alloc::Allocator>[ Vec::<T, A>::reserve_exact ](v: &mut Vec<T, A>, additional: usize)
    ensures final(v)@ == old(v)@;
/// `v.resize(n, Vec::new())` for a vector of vectors (A-STD; wrapper body is the original call): grows with empty vectors
#[verifier::external_body]
pub fn resize_with_empty<T>(v: &mut Vec<Vec<T>>, n: usize)
    requires n >= old(v)@.len()
    ensures final(v)@.len() == n, forall|k: int| 0 <= k < old(v)@.len() ==> (#[trigger] final(v)@[k]) == old(v)@[k],
        forall|k: int| old(v)@.len() <= k < n ==> (#[trigger] final(v)@[k])@.len() == 0
{ unimplemented!() }

//@struct NodeId from=types derive=Clone,Copy,PartialEq,Eq,Hash,Structural
impl NodeId {
//@fn NodeId::as_u64 from=types ret=r
//@ensures
        r == self.0,   //#projection
//@end
//@fn NodeId::new from=types ret=r
//@ensures
        r.0 == id,   //#projection
//@end
}
//@struct EdgeId from=types derive=Clone,Copy,PartialEq,Eq,Hash,Structural
//@item type TxnId
//@enum GraphError
//@item type GraphResult
//@struct GraphStore keep=nodes,current_version,free_node_ids,next_node_id,label_index,catalog,outgoing,incoming

impl GraphStore {
    #[verifier::external_body] pub fn invalidate_statistics_cache(&self) { unimplemented!() }
    /// index events (property indexes, vector indexes) are outside the projected state
    #[verifier::external_body] pub fn note_node_created(&self, node: &Node) { unimplemented!() }
    #[verifier::external_body] pub fn note_label_added(&self, tenant_id: &str, node_id: NodeId, label: &Label) { unimplemented!() }

    /// node n is listed under label l
    pub open spec fn listed(&self, l: Label, n: NodeId) -> bool { self.label_index@.contains_key(l) && self.label_index@[l]@.contains(n) }
    /// the newest version of node n, if it has one
    pub open spec fn newest(&self, n: NodeId) -> Option<Node> {
        if (n.0 as int) < self.nodes@.len() && self.nodes@[n.0 as int]@.len() > 0 { Some(self.nodes@[n.0 as int]@.last()) } else { None }
    }
    /// C06, nodes by label: a node is listed under exactly the labels its newest version carries
    pub open spec fn labels_agree(&self) -> bool {
        forall|l: Label, n: NodeId| #[trigger] self.listed(l, n) <==> (self.newest(n) matches Some(v) && v.labels@.contains(l))
    }
    /// the node ids still to be handed out have no version: those on the free list (each once, below the counter) and those
    /// from the counter upwards; ids start at 1
    pub open spec fn node_ids_fresh(&self) -> bool {
        &&& self.next_node_id >= 1
        &&& forall|k: int| 0 <= k < self.free_node_ids@.len() ==> self.newest(NodeId(#[trigger] self.free_node_ids@[k])) is None && 1 <= self.free_node_ids@[k] < self.next_node_id
        &&& forall|a: int, b: int| 0 <= a < b < self.free_node_ids@.len() ==> self.free_node_ids@[a] != self.free_node_ids@[b]
        &&& forall|x: u64| x >= self.next_node_id ==> (#[trigger] self.newest(NodeId(x))) is None
    }
    /// every node slot has its two adjacency buffers
    pub open spec fn slots_ok(&self) -> bool { self.outgoing@.len() >= self.nodes@.len() && self.incoming@.len() >= self.nodes@.len() }

//@fn GraphStore::create_node_with_labels ret=r
//@replace "labels: impl IntoIterator<Item = Label>" => "labels: Vec<Label>" :: generic IntoIterator argument taken as the Vec it is collected into
//@replace "let labels: Vec<Label> = labels.into_iter().collect();" => "" :: same
//@replace "Node::with_labels(node_id, labels.iter().cloned())" => "Node::with_labels_of(node_id, &labels)" :: the Cloned adapter is outside Verus: stand-in constructor taking the labels by reference
//@replace "self.label_index<NL>                .entry(label.clone())<NL>                .or_insert_with(HashSet::new)" => "map_entry_or_insert_with(&mut self.label_index, label.clone(), HashSet::new)" :: HashMap entry API: wrapper whose body is the original chain
//@replace "self.nodes.resize(idx + 1, Vec::new());" => "resize_with_empty(&mut self.nodes, idx + 1);" :: Vec::resize with a Vec value (needs Clone of Vec<Node>): wrapper, same call
//@replace "self.outgoing.resize(idx + 1, Vec::new());" => "resize_with_empty(&mut self.outgoing, idx + 1);" :: same
//@replace "self.incoming.resize(idx + 1, Vec::new());" => "resize_with_empty(&mut self.incoming, idx + 1);" :: same
//@replacespan "if let Some(sender) = &self.index_sender {" .. "None,<NL>            );<NL>        }" => "self.note_node_created(&node);" :: index events outside the projected state (D4): stub
//@requires
        old(self).labels_agree(), old(self).node_ids_fresh(), old(self).slots_ok(), old(self).next_node_id < u64::MAX,
        old(self).outgoing@.len() == old(self).nodes@.len() && old(self).incoming@.len() == old(self).nodes@.len(),
//@ensures
        old(self).newest(r) is None,      //#the_id_had_no_node
        final(self).newest(r) matches Some(v) && v.id == r && v.version == old(self).current_version && v.labels@ == labels@.to_set()
            && final(self).nodes@[r.0 as int]@.len() == 1,      //#one_version_with_exactly_the_given_labels
        forall|n: NodeId| n != r ==> #[trigger] final(self).newest(n) == old(self).newest(n),      //#other_nodes_untouched
        final(self).labels_agree() && final(self).node_ids_fresh() && final(self).slots_ok(),      //#invariants_kept
        (r.0 as int) < final(self).outgoing@.len() && (r.0 as int) < final(self).incoming@.len() && r.0 != 0,      //#has_its_adjacency_slots
        forall|k: int| 0 <= k < old(self).outgoing@.len() ==> (#[trigger] final(self).outgoing@[k]) == old(self).outgoing@[k],      //#existing_outgoing_buffers_untouched
        forall|k: int| 0 <= k < old(self).incoming@.len() ==> (#[trigger] final(self).incoming@[k]) == old(self).incoming@[k],      //#existing_incoming_buffers_untouched
//@atstart
        proof { axiom_key_models(); }
//@loop 1 iter=it
            invariant
                self.nodes@ == old(self).nodes@, self.outgoing@ == old(self).outgoing@, self.incoming@ == old(self).incoming@,
                self.current_version == old(self).current_version, idx == node_id.0, node_id.0 == node_id_u64,
                it.seq().len() == labels@.len(), forall|k: int| 0 <= k < labels@.len() ==> *(#[trigger] it.seq()[k]) == labels@[k],
                forall|l: Label, n: NodeId| #[trigger] self.listed(l, n) <==> (old(self).listed(l, n) || (n == node_id && labels@.take(it.index() as int).contains(l))),      //#listed_under_the_labels_so_far
//@before "map_entry_or_insert_with(&mut self.label_index, label.clone(), HashSet::new)"
            proof { axiom_key_models(); }
            let ghost before = *self;
            let ghost i = it.index() as int;
//@after "self.catalog.on_label_added(label);"
            proof {
                assert(labels@.take(i + 1) =~= labels@.take(i).push(labels@[i]));
                let k = labels@[i];
                assert(*label == k);
                assert(self.label_index@.contains_key(k));
                assert(self.label_index@[k]@ == (if before.label_index@.contains_key(k) { before.label_index@[k]@ } else { Set::<NodeId>::empty() }).insert(node_id));
                assert(forall|l2: Label| l2 != k ==> self.label_index@.contains_key(l2) == before.label_index@.contains_key(l2));
                assert(forall|l2: Label| l2 != k && before.label_index@.contains_key(l2) ==> self.label_index@[l2] == before.label_index@[l2]);
                assert forall|l: Label, n: NodeId| #[trigger] self.listed(l, n) <==> (old(self).listed(l, n) || (n == node_id && labels@.take(i + 1).contains(l))) by {
                    assert(before.listed(l, n) <==> (old(self).listed(l, n) || (n == node_id && labels@.take(i).contains(l))));
                    if l == labels@[i] {
                        assert(labels@.take(i + 1)[i] == l);
                    } else {
                        assert(self.label_index@.contains_key(l) == before.label_index@.contains_key(l));
                        if labels@.take(i + 1).contains(l) {
                            let j = choose|j: int| 0 <= j < i + 1 && (#[trigger] labels@.take(i + 1)[j]) == l;
                            assert(labels@.take(i)[j] == l);
                        }
                        if labels@.take(i).contains(l) {
                            let j = choose|j: int| 0 <= j < i && (#[trigger] labels@.take(i)[j]) == l;
                            assert(labels@.take(i + 1)[j] == l);
                        }
                    }
                }
            }
//@afterloop 1
        proof { assert(labels@.take(labels@.len() as int) =~= labels@); }
        let ghost mid = *self;
//@tail out
        proof {
            assert(old(self).newest(node_id) is None);
            assert forall|n: NodeId| n != node_id implies #[trigger] self.newest(n) == old(self).newest(n) by {
                if (n.0 as int) < old(self).nodes@.len() { assert(self.nodes@[n.0 as int] == old(self).nodes@[n.0 as int]); }
                else if (n.0 as int) < self.nodes@.len() { assert(self.nodes@[n.0 as int]@.len() == 0); }
            }
            assert(self.nodes@[node_id.0 as int]@.len() == 1);
            assert forall|l: Label, n: NodeId| #[trigger] self.listed(l, n) <==> (self.newest(n) matches Some(v) && v.labels@.contains(l)) by {
                assert(self.listed(l, n) == mid.listed(l, n));
                assert(old(self).listed(l, n) <==> (old(self).newest(n) matches Some(v) && v.labels@.contains(l)));
                if n != node_id { assert(self.newest(n) == old(self).newest(n)); }
            }
            assert forall|k: int| 0 <= k < self.free_node_ids@.len() implies self.newest(NodeId(#[trigger] self.free_node_ids@[k])) is None && 1 <= self.free_node_ids@[k] < self.next_node_id by {
                assert(self.free_node_ids@[k] == old(self).free_node_ids@[k]);
                assert(NodeId(self.free_node_ids@[k]) != node_id);
            }
            assert forall|x: u64| x >= self.next_node_id implies (#[trigger] self.newest(NodeId(x))) is None by {
                assert(NodeId(x) != node_id);
            }
        }
//@end

//@fn GraphStore::remove_label_from_node ret=r
//@replace "self<NL>            .nodes<NL>            .get_mut(idx)<NL>            .and_then(|v| v.last_mut())" => "newest_version_mut(&mut self.nodes, idx)" :: get_mut/and_then/last_mut chain handing out &mut: wrapper whose body is the original chain
//@requires
        old(self).labels_agree(),
//@ensures
        r is Ok ==> final(self).labels_agree(),      //#index_still_agrees_with_the_nodes
        r matches Ok(b) ==> b == (old(self).newest(node_id) matches Some(v) && v.labels@.contains(*label)),      //#reports_whether_it_was_carried
        r is Ok ==> (final(self).newest(node_id) matches Some(v) && old(self).newest(node_id) matches Some(v0) && v.labels@ == v0.labels@.remove(*label)),      //#the_label_is_gone_from_the_node
        r is Err ==> final(self).nodes@ == old(self).nodes@ && final(self).label_index@ == old(self).label_index@,      //#refused_changes_nothing
        forall|n: NodeId| n != node_id ==> #[trigger] final(self).newest(n) == old(self).newest(n),      //#other_nodes_untouched
//@atstart
        proof { axiom_key_models(); }
//@before "return Ok(false);"
            proof {
                let v0 = old(self).nodes@[idx as int]@.last();
                assert(old(self).newest(node_id) == Some(v0));
                assert(self.newest(node_id) == Some(self.nodes@[idx as int]@.last()));
                assert(self.nodes@[idx as int]@.last().labels@ =~= v0.labels@);
                assert forall|n: NodeId| n != node_id implies #[trigger] self.newest(n) == old(self).newest(n) by {
                    if (n.0 as int) < self.nodes@.len() { assert(self.nodes@[n.0 as int] == old(self).nodes@[n.0 as int]); }
                }
                assert forall|l: Label, n: NodeId| #[trigger] self.listed(l, n) <==> (self.newest(n) matches Some(v) && v.labels@.contains(l)) by {
                    assert(old(self).listed(l, n) <==> (old(self).newest(n) matches Some(v) && v.labels@.contains(l)));
                    if n != node_id { assert(self.newest(n) == old(self).newest(n)); }
                }
            }
//@before "if let Some(members) = self.label_index.get_mut(label) {"
        proof {
            let v0 = old(self).nodes@[idx as int]@.last();
            assert(old(self).newest(node_id) == Some(v0));
            assert(self.newest(node_id) == Some(self.nodes@[idx as int]@.last()));
            assert forall|n: NodeId| n != node_id implies #[trigger] self.newest(n) == old(self).newest(n) by {
                if (n.0 as int) < self.nodes@.len() { assert(self.nodes@[n.0 as int] == old(self).nodes@[n.0 as int]); }
            }
        }
        let ghost mid = *self;
//@atend
        proof {
            assert forall|l: Label, n: NodeId| #[trigger] self.listed(l, n) <==> (self.newest(n) matches Some(v) && v.labels@.contains(l)) by {
                assert(old(self).listed(l, n) <==> (old(self).newest(n) matches Some(v) && v.labels@.contains(l)));
                assert(self.newest(n) == mid.newest(n));
                if n != node_id { assert(mid.newest(n) == old(self).newest(n)); }
            }
        }
//@end

//@fn GraphStore::add_label_to_node ret=r
//@replace "label: impl Into<Label>" => "label: Label" :: generic Into<Label> argument taken as the Label it is converted to
//@replace "label.into()" => "label" :: same
//@replace "self.nodes.get_mut(idx).and_then(|v| v.last_mut())" => "newest_version_mut(&mut self.nodes, idx)" :: get_mut/and_then/last_mut chain handing out &mut: wrapper whose body is the original chain
//@replace "self.label_index<NL>            .entry(label.clone())<NL>            .or_insert_with(HashSet::new)" => "map_entry_or_insert_with(&mut self.label_index, label.clone(), HashSet::new)" :: HashMap entry API: wrapper whose body is the original chain
//@replacespan "let event = crate::graph::event::IndexEvent::LabelAdded {" .. "self.handle_index_event(event, None);<NL>        }" => "self.note_label_added(tenant_id, node_id, &label);" :: index events outside the projected state (D4): stub
//@requires
        old(self).labels_agree(),
//@ensures
        r is Ok ==> final(self).labels_agree(),      //#index_still_agrees_with_the_nodes
        r is Ok ==> (final(self).newest(node_id) matches Some(v) && old(self).newest(node_id) matches Some(v0) && v.labels@ == v0.labels@.insert(label)),      //#the_node_carries_the_label
        r is Err ==> final(self).nodes@ == old(self).nodes@ && final(self).label_index@ == old(self).label_index@,      //#refused_changes_nothing
        forall|n: NodeId| n != node_id ==> #[trigger] final(self).newest(n) == old(self).newest(n),      //#other_nodes_untouched
//@atstart
        proof { axiom_key_models(); }
//@before "map_entry_or_insert_with(&mut self.label_index, label.clone(), HashSet::new)"
        proof {
            assert(old(self).newest(node_id) == Some(old(self).nodes@[idx as int]@.last()));
            assert(self.newest(node_id) == Some(self.nodes@[idx as int]@.last()));
            assert forall|n: NodeId| n != node_id implies #[trigger] self.newest(n) == old(self).newest(n) by {
                if (n.0 as int) < self.nodes@.len() { assert(self.nodes@[n.0 as int] == old(self).nodes@[n.0 as int]); }
            }
        }
        let ghost mid = *self;
//@atend
        proof {
            assert forall|l: Label, n: NodeId| #[trigger] self.listed(l, n) <==> (self.newest(n) matches Some(v) && v.labels@.contains(l)) by {
                assert(old(self).listed(l, n) <==> (old(self).newest(n) matches Some(v) && v.labels@.contains(l)));
                assert(self.newest(n) == mid.newest(n));
                if n != node_id { assert(mid.newest(n) == old(self).newest(n)); }
            }
        }
//@end
}

} // verus!
fn main() {}
