// R15 wrappers (A-STD): provided Iterator methods over a slice iterator, which Verus cannot be given a specification for.
// Each wrapper's body is the original expression `v.iter().METHOD(p)`.  Verdicts are existential because an exec
// closure's ensures is one-directional.
pub open spec fn it_sat<'a, T: 'a, P: FnMut(&'a T) -> bool>(p: P, x: T, b: bool) -> bool { exists|r: &'a T| *r == x && p.ensures((r,), b) }
#[verifier::external_body]
pub fn it_position<'a, T, P: FnMut(&'a T) -> bool>(v: &'a Vec<T>, p: P) -> (r: Option<usize>)
    requires forall|x: &T| p.requires((x,))
    ensures match r {
        Some(i) => i < v@.len() && it_sat(p, v@[i as int], true) && forall|j: int| 0 <= j < i ==> it_sat(p, #[trigger] v@[j], false),
        None => forall|j: int| 0 <= j < v@.len() ==> it_sat(p, #[trigger] v@[j], false),
    }
{ v.iter().position(p) }
#[verifier::external_body]
pub fn it_any<'a, T, P: FnMut(&'a T) -> bool>(v: &'a Vec<T>, p: P) -> (r: bool)
    requires forall|x: &T| p.requires((x,))
    ensures
        r ==> exists|j: int| 0 <= j < v@.len() && it_sat(p, #[trigger] v@[j], true),
        !r ==> forall|j: int| 0 <= j < v@.len() ==> it_sat(p, #[trigger] v@[j], false),
{ v.iter().any(p) }
#[verifier::external_body]
pub fn it_all<'a, T, P: FnMut(&'a T) -> bool>(v: &'a Vec<T>, p: P) -> (r: bool)
    requires forall|x: &T| p.requires((x,))
    ensures
        r ==> forall|j: int| 0 <= j < v@.len() ==> it_sat(p, #[trigger] v@[j], true),
        !r ==> exists|j: int| 0 <= j < v@.len() && it_sat(p, #[trigger] v@[j], false),
{ v.iter().all(p) }
