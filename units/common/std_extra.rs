// ASSUMED (A-STD): a few std combinators vstd leaves unspecified, so that code
// which starts using them stays within the verifier's reach.
pub assume_specification<T, U, F: FnOnce(T) -> U>[ Option::<T>::map_or ](o: Option<T>, default: U, f: F) -> (r: U)
    requires o matches Some(x) ==> f.requires((x,)),
    ensures match o { None => r == default, Some(x) => f.ensures((x,), r) },
;
pub assume_specification<T, F: FnOnce(T) -> bool>[ Option::<T>::is_some_and ](o: Option<T>, f: F) -> (r: bool)
    requires o matches Some(x) ==> f.requires((x,)),
    ensures match o { None => !r, Some(x) => f.ensures((x,), r) },
;
pub assume_specification<'a, T: Copy>[ Option::<&'a T>::copied ](o: Option<&'a T>) -> (r: Option<T>)
    ensures r == (match o { Some(x) => Some(*x), None => None }),
;
pub assume_specification[ str::trim ](s: &str) -> (r: &str)
    ensures exists|a: int, b: int| 0 <= a <= b <= s@.len() && r@ == s@.subrange(a, b),
;
// used only with element types whose Clone is a bitwise copy (u8, pairs of id newtypes)
pub assume_specification<T: Clone>[ <[T]>::to_vec ](s: &[T]) -> (r: Vec<T>)
    ensures r@ == s@,
;
/// <[T]>::partition_point (std docs): an index in 0..=len; if the verdicts the predicate admits split the slice into a
/// true prefix and a false suffix, it is the length of the prefix (otherwise std leaves the result unspecified)
pub open spec fn verdicts_partitioned(keep: Seq<bool>, r: int) -> bool {
    (forall|i: int| 0 <= i < r ==> #[trigger] keep[i]) && (forall|i: int| r <= i < keep.len() ==> !#[trigger] keep[i])
}
pub assume_specification<T, P: FnMut(&T) -> bool>[ <[T]>::partition_point ](s: &[T], pred: P) -> (r: usize)
    requires forall|i: int| 0 <= i < s@.len() ==> #[trigger] pred.requires((&s@[i],)),
    ensures
        r <= s@.len(),
        exists|keep: Seq<bool>| keep.len() == s@.len()
            && (forall|i: int| 0 <= i < s@.len() ==> pred.ensures((&s@[i],), #[trigger] keep[i]))
            && ((exists|p: int| 0 <= p <= keep.len() && #[trigger] verdicts_partitioned(keep, p)) ==> verdicts_partitioned(keep, r as int));
/// char::is_ascii_whitespace (std docs): U+0020 SPACE, U+0009 TAB, U+000A LF, U+000C FORM FEED, U+000D CR -- and nothing else
pub open spec fn is_ascii_whitespace_spec(c: &char) -> bool { *c == ' ' || *c == '\t' || *c == '\n' || *c == '\x0C' || *c == '\r' }
#[verifier::when_used_as_spec(is_ascii_whitespace_spec)]
pub assume_specification[ char::is_ascii_whitespace ](c: &char) -> (r: bool)
    ensures r == is_ascii_whitespace_spec(c);
