// filter_by: filtering a sequence by a parallel sequence of booleans (the shape
// in which both the assumed `Vec::retain` spec and vstd's iterator `filter`
// model expose the closure's verdicts), and its equality with Seq::filter.
pub open spec fn filter_by<T>(s: Seq<T>, keep: Seq<bool>) -> Seq<T>
    decreases s.len()
{
    if s.len() == 0 || keep.len() != s.len() { Seq::empty() }
    else {
        let rest = filter_by(s.drop_last(), keep.drop_last());
        if keep.last() { rest.push(s.last()) } else { rest }
    }
}
pub proof fn lemma_filter_by<T>(s: Seq<T>, keep: Seq<bool>, pred: spec_fn(T) -> bool)
    requires keep.len() == s.len(), forall|i: int| 0 <= i < s.len() ==> keep[i] == pred(s[i])
    ensures filter_by(s, keep) == s.filter(pred)
    decreases s.len()
{
    reveal(Seq::filter);
    if s.len() == 0 { } else { lemma_filter_by(s.drop_last(), keep.drop_last(), pred); }
}
// ASSUMED (A-STD): Vec::retain keeps exactly the elements for which the closure
// answered true, in order.  Stated with an existential verdict sequence because
// an exec closure's `ensures` is one-directional in Verus.
pub assume_specification<T, A: core::alloc::Allocator, F: FnMut(&T) -> bool>[ Vec::<T, A>::retain ](v: &mut Vec<T, A>, f: F)
    requires forall|x: &T| #[trigger] f.requires((x,)),
    ensures
        exists|keep: Seq<bool>| keep.len() == old(v)@.len()
            && (forall|i: int| 0 <= i < keep.len() ==> f.ensures((&old(v)@[i],), #[trigger] keep[i]))
            && final(v)@ == filter_by(old(v)@, keep),
;
