// ASSUMED (A-STD): HashMap::get_mut returns a mutable reference to the value
// stored under the key (if any); writing through it changes that value only:
// the key set and every other key's value are unchanged.  ("k2 is not the
// looked-up key" is phrased as: the singleton map {k2} does not contain the
// borrowed key.)
pub assume_specification<'a, K: Eq + core::hash::Hash, V, S: core::hash::BuildHasher, A: core::alloc::Allocator, Q: core::hash::Hash + Eq + ?Sized>[ HashMap::<K, V, S, A>::get_mut::<Q> ](m: &'a mut HashMap<K, V, S, A>, k: &Q) -> (r: Option<&'a mut V>)
    where K: core::borrow::Borrow<Q>
    ensures
        vstd::std_specs::hash::obeys_key_model::<K>() && vstd::std_specs::hash::builds_valid_hashers::<S>() ==> match r {
            Some(v) => vstd::std_specs::hash::contains_borrowed_key(old(m)@, k)
                && vstd::std_specs::hash::maps_borrowed_key_to_value(old(m)@, k, *v)
                && vstd::std_specs::hash::maps_borrowed_key_to_value(final(m)@, k, *final(v))
                && final(m)@.dom() == old(m)@.dom()
                && (forall|k2: K| !vstd::std_specs::hash::contains_borrowed_key(Map::<K, V>::empty().insert(k2, *v), k)
                        ==> (#[trigger] final(m)@[k2]) == old(m)@[k2]),
            None => !vstd::std_specs::hash::contains_borrowed_key(old(m)@, k) && final(m)@ == old(m)@,
        }
;
