//@unit store_txn
//@properties C09
//@source store src/graph/store.rs
//@source types src/graph/types.rs
//@rules D2 R2
#![feature(allocator_api)]
#![allow(unused_imports, unused_variables, unused_mut, dead_code)]
use vstd::prelude::*;
use std::collections::{HashMap, HashSet};
verus!{
//@include common/std_extra.rs
broadcast use vstd::std_specs::iter::group_iter_axioms;
// =====================================================================
// prelude (assumed / stand-ins for what is not extracted)
// =====================================================================
//@include common/hashmap_get_mut.rs
pub struct Node { pub version: u64 }
pub struct Edge { pub version: u64 }
// A-HASH: derived Hash/Eq of the id newtypes obey the key model
#[verifier::external_body]
pub proof fn axiom_nodeid_key_model()
    ensures vstd::std_specs::hash::obeys_key_model::<NodeId>()
{}
#[verifier::external_body]
pub proof fn axiom_edgeid_key_model()
    ensures vstd::std_specs::hash::obeys_key_model::<EdgeId>()
{}
// derived Clone of Transaction: structural (A-STD)
impl Clone for Transaction {
    #[verifier::external_body]
    fn clone(&self) -> (r: Self)
        ensures r == *self
    { unimplemented!() }
}

// =====================================================================
// extracted types
// =====================================================================
//@struct NodeId from=types derive=Clone,Copy,PartialEq,Eq,Hash,Structural
//@struct EdgeId from=types derive=Clone,Copy,PartialEq,Eq,Hash,Structural
impl NodeId {
//@fn NodeId::as_u64 from=types ret=r
//@ensures
        r == self.0,   //#projection
//@end
}
impl EdgeId {
//@fn EdgeId::as_u64 from=types ret=r
//@ensures
        r == self.0,   //#projection
//@end
}
//@enum GraphError
//@item type GraphResult
//@enum IsolationLevel derive=Clone,Copy,PartialEq,Eq,Structural
//@item type TxnId
//@enum TxnStatus derive=Clone,Copy,PartialEq,Eq,Structural
//@struct Transaction
//@struct GraphStore keep=current_version,next_txn_id,active_transactions,node_last_commit,edge_last_commit

// =====================================================================
// spec vocabulary
// =====================================================================
pub open spec fn node_conflict(s: GraphStore, t: Transaction) -> bool {
    exists|n: NodeId| t.node_write_set@.contains(n) && s.node_last_commit@.contains_key(n)
        && #[trigger] s.node_last_commit@[n] > t.start_version
}
pub open spec fn edge_conflict(s: GraphStore, t: Transaction) -> bool {
    exists|e: EdgeId| t.edge_write_set@.contains(e) && s.edge_last_commit@.contains_key(e)
        && #[trigger] s.edge_last_commit@[e] > t.start_version
}
/// the store's conflict test, in the store's own vocabulary
pub open spec fn conflict(s: GraphStore, t: Transaction) -> bool { node_conflict(s, t) || edge_conflict(s, t) }

pub open spec fn others_unchanged(a: GraphStore, b: GraphStore, id: TxnId) -> bool {
    a.active_transactions@.dom() == b.active_transactions@.dom()
    && forall|k: TxnId| k != id && a.active_transactions@.contains_key(k) ==> #[trigger] b.active_transactions@[k] == a.active_transactions@[k]
}
pub open spec fn commits_unchanged(a: GraphStore, b: GraphStore) -> bool {
    a.node_last_commit@ == b.node_last_commit@ && a.edge_last_commit@ == b.edge_last_commit@
}
pub open spec fn same_txn_except_status(a: Transaction, b: Transaction) -> bool {
    a.id == b.id && a.isolation == b.isolation && a.start_version == b.start_version
    && a.node_write_set@ == b.node_write_set@ && a.edge_write_set@ == b.edge_write_set@
}
/// store invariant needed by the history argument
pub open spec fn txn_wf(s: GraphStore) -> bool {
    &&& forall|k: TxnId| s.active_transactions@.contains_key(k) ==> k < s.next_txn_id
    &&& forall|k: TxnId| s.active_transactions@.contains_key(k) ==> (#[trigger] s.active_transactions@[k]).start_version <= s.current_version
    &&& forall|k: TxnId| s.active_transactions@.contains_key(k) ==>
            ((#[trigger] s.active_transactions@[k]).commit_version matches Some(v) ==> v <= s.current_version)
    &&& forall|n: NodeId| s.node_last_commit@.contains_key(n) ==> #[trigger] s.node_last_commit@[n] <= s.current_version
    &&& forall|e: EdgeId| s.edge_last_commit@.contains_key(e) ==> #[trigger] s.edge_last_commit@[e] <= s.current_version
}

// ---------------------------------------------------------------------
// abstract first-committer-wins model (the property statement's words) and the
// refinement lemma: the contract of commit_transaction implies the abstract rule
// ---------------------------------------------------------------------
pub struct Commit { pub version: u64, pub txn: TxnId, pub nodes: Set<NodeId>, pub edges: Set<EdgeId> }
/// history H of successful commits, oldest first
pub open spec fn hist_wf(h: Seq<Commit>, cv: u64) -> bool {
    &&& forall|i: int, j: int| 0 <= i < j < h.len() ==> h[i].version < h[j].version
    &&& forall|i: int| 0 <= i < h.len() ==> 0 < (#[trigger] h[i]).version <= cv
}
/// refinement relation: last_commit[x] is the newest commit that wrote x (absent if none)
pub open spec fn refines(s: GraphStore, h: Seq<Commit>) -> bool {
    &&& hist_wf(h, s.current_version)
    &&& forall|n: NodeId| #![trigger s.node_last_commit@.contains_key(n)]
            s.node_last_commit@.contains_key(n) <==> exists|i: int| 0 <= i < h.len() && (#[trigger] h[i]).nodes.contains(n)
    &&& forall|n: NodeId, i: int| 0 <= i < h.len() && (#[trigger] h[i]).nodes.contains(n) ==> h[i].version <= #[trigger] s.node_last_commit@[n]
    &&& forall|n: NodeId| s.node_last_commit@.contains_key(n) ==>
            exists|i: int| 0 <= i < h.len() && (#[trigger] h[i]).nodes.contains(n) && h[i].version == s.node_last_commit@[n]
    &&& forall|e: EdgeId| #![trigger s.edge_last_commit@.contains_key(e)]
            s.edge_last_commit@.contains_key(e) <==> exists|i: int| 0 <= i < h.len() && (#[trigger] h[i]).edges.contains(e)
    &&& forall|e: EdgeId, i: int| 0 <= i < h.len() && (#[trigger] h[i]).edges.contains(e) ==> h[i].version <= #[trigger] s.edge_last_commit@[e]
    &&& forall|e: EdgeId| s.edge_last_commit@.contains_key(e) ==>
            exists|i: int| 0 <= i < h.len() && (#[trigger] h[i]).edges.contains(e) && h[i].version == s.edge_last_commit@[e]
}
/// "some entity it wrote was committed by a transaction after it began"
pub open spec fn abstract_conflict(h: Seq<Commit>, t: Transaction) -> bool {
    exists|i: int| 0 <= i < h.len() && (#[trigger] h[i]).version > t.start_version
        && (exists|n: NodeId| t.node_write_set@.contains(n) && h[i].nodes.contains(n)
            || exists|e: EdgeId| t.edge_write_set@.contains(e) && h[i].edges.contains(e))
}
/// the store's conflict test is exactly the statement's rule
pub proof fn lemma_fcw(s: GraphStore, h: Seq<Commit>, t: Transaction)
    requires refines(s, h)
    ensures conflict(s, t) <==> abstract_conflict(h, t)
{
    if node_conflict(s, t) {
        let n = choose|n: NodeId| t.node_write_set@.contains(n) && s.node_last_commit@.contains_key(n) && #[trigger] s.node_last_commit@[n] > t.start_version;
        let i = choose|i: int| 0 <= i < h.len() && (#[trigger] h[i]).nodes.contains(n) && h[i].version == s.node_last_commit@[n];
        assert(h[i].version > t.start_version && t.node_write_set@.contains(n) && h[i].nodes.contains(n));
    }
    if edge_conflict(s, t) {
        let e = choose|e: EdgeId| t.edge_write_set@.contains(e) && s.edge_last_commit@.contains_key(e) && #[trigger] s.edge_last_commit@[e] > t.start_version;
        let i = choose|i: int| 0 <= i < h.len() && (#[trigger] h[i]).edges.contains(e) && h[i].version == s.edge_last_commit@[e];
        assert(h[i].version > t.start_version && t.edge_write_set@.contains(e) && h[i].edges.contains(e));
    }
    if abstract_conflict(h, t) {
        let i = choose|i: int| 0 <= i < h.len() && (#[trigger] h[i]).version > t.start_version
            && (exists|n: NodeId| t.node_write_set@.contains(n) && h[i].nodes.contains(n)
                || exists|e: EdgeId| t.edge_write_set@.contains(e) && h[i].edges.contains(e));
        if exists|n: NodeId| t.node_write_set@.contains(n) && h[i].nodes.contains(n) {
            let n = choose|n: NodeId| t.node_write_set@.contains(n) && h[i].nodes.contains(n);
            assert(s.node_last_commit@.contains_key(n));
            assert(h[i].version <= s.node_last_commit@[n]);
            assert(node_conflict(s, t));
        } else {
            let e = choose|e: EdgeId| t.edge_write_set@.contains(e) && h[i].edges.contains(e);
            assert(s.edge_last_commit@.contains_key(e));
            assert(h[i].version <= s.edge_last_commit@[e]);
            assert(edge_conflict(s, t));
        }
    }
}
/// a successful commit (per commit_transaction's contract) extends the history and keeps the refinement;
/// its version is strictly greater than every earlier commit's
pub proof fn lemma_commit_extends_history(a: GraphStore, b: GraphStore, h: Seq<Commit>, id: TxnId, v: u64)
    requires
        refines(a, h), a.current_version < u64::MAX,
        a.active_transactions@.contains_key(id),
        commit_ok_post(a, b, id, v),
    ensures
        refines(b, h.push(Commit { version: v, txn: id, nodes: a.active_transactions@[id].node_write_set@, edges: a.active_transactions@[id].edge_write_set@ })),
        forall|i: int| 0 <= i < h.len() ==> (#[trigger] h[i]).version < v,
{
    let t = a.active_transactions@[id];
    let c = Commit { version: v, txn: id, nodes: t.node_write_set@, edges: t.edge_write_set@ };
    let h2 = h.push(c);
    assert(forall|i: int| 0 <= i < h.len() ==> h2[i] == h[i]);
    assert(h2[h.len() as int] == c);
    assert forall|n: NodeId| b.node_last_commit@.contains_key(n) implies
        exists|i: int| 0 <= i < h2.len() && (#[trigger] h2[i]).nodes.contains(n) && h2[i].version == b.node_last_commit@[n] by {
        if t.node_write_set@.contains(n) {
            assert(h2[h.len() as int].nodes.contains(n));
        } else {
            let i = choose|i: int| 0 <= i < h.len() && (#[trigger] h[i]).nodes.contains(n) && h[i].version == a.node_last_commit@[n];
            assert(h2[i].nodes.contains(n));
        }
    }
    assert forall|n: NodeId| (#[trigger] b.node_last_commit@.contains_key(n)) <==> exists|i: int| 0 <= i < h2.len() && (#[trigger] h2[i]).nodes.contains(n) by {
        if exists|i: int| 0 <= i < h2.len() && (#[trigger] h2[i]).nodes.contains(n) {
            let i = choose|i: int| 0 <= i < h2.len() && (#[trigger] h2[i]).nodes.contains(n);
            if i < h.len() { assert(h[i].nodes.contains(n)); }
        }
        if b.node_last_commit@.contains_key(n) {
            if t.node_write_set@.contains(n) { assert(h2[h.len() as int].nodes.contains(n)); }
            else {
                let i = choose|i: int| 0 <= i < h.len() && (#[trigger] h[i]).nodes.contains(n);
                assert(h2[i].nodes.contains(n));
            }
        }
    }
    assert forall|n: NodeId, i: int| 0 <= i < h2.len() && (#[trigger] h2[i]).nodes.contains(n) implies h2[i].version <= #[trigger] b.node_last_commit@[n] by {
        if i < h.len() {
            assert(h[i].nodes.contains(n));
            assert(h[i].version <= a.node_last_commit@[n]);
        }
    }
    assert forall|e: EdgeId| b.edge_last_commit@.contains_key(e) implies
        exists|i: int| 0 <= i < h2.len() && (#[trigger] h2[i]).edges.contains(e) && h2[i].version == b.edge_last_commit@[e] by {
        if t.edge_write_set@.contains(e) {
            assert(h2[h.len() as int].edges.contains(e));
        } else {
            let i = choose|i: int| 0 <= i < h.len() && (#[trigger] h[i]).edges.contains(e) && h[i].version == a.edge_last_commit@[e];
            assert(h2[i].edges.contains(e));
        }
    }
    assert forall|e: EdgeId| (#[trigger] b.edge_last_commit@.contains_key(e)) <==> exists|i: int| 0 <= i < h2.len() && (#[trigger] h2[i]).edges.contains(e) by {
        if exists|i: int| 0 <= i < h2.len() && (#[trigger] h2[i]).edges.contains(e) {
            let i = choose|i: int| 0 <= i < h2.len() && (#[trigger] h2[i]).edges.contains(e);
            if i < h.len() { assert(h[i].edges.contains(e)); }
        }
        if b.edge_last_commit@.contains_key(e) {
            if t.edge_write_set@.contains(e) { assert(h2[h.len() as int].edges.contains(e)); }
            else {
                let i = choose|i: int| 0 <= i < h.len() && (#[trigger] h[i]).edges.contains(e);
                assert(h2[i].edges.contains(e));
            }
        }
    }
    assert forall|e: EdgeId, i: int| 0 <= i < h2.len() && (#[trigger] h2[i]).edges.contains(e) implies h2[i].version <= #[trigger] b.edge_last_commit@[e] by {
        if i < h.len() {
            assert(h[i].edges.contains(e));
            assert(h[i].version <= a.edge_last_commit@[e]);
        }
    }
}

/// a ghost set that collects exactly the elements of a by-reference sequence equals the sequence's unref().to_set()
pub proof fn lemma_prefix_set_is_unref_set<T>(s: Seq<&T>, d: Set<T>)
    requires forall|x: T| d.contains(x) <==> exists|i: int| 0 <= i < s.len() && *#[trigger] s[i] == x
    ensures d =~= s.unref().to_set()
{
    assert forall|x: T| d.contains(x) <==> s.unref().to_set().contains(x) by {
        if d.contains(x) {
            let i = choose|i: int| 0 <= i < s.len() && *#[trigger] s[i] == x;
            assert(s.unref()[i] == x);
        }
        if s.unref().contains(x) {
            let i = choose|i: int| 0 <= i < s.unref().len() && s.unref()[i] == x;
            assert(*s[i] == x);
        }
    }
}
pub proof fn lemma_empty_unref_set<T>()
    ensures forall|s: Seq<&T>| s.len() == 0 ==> #[trigger] s.unref().to_set() =~= Set::<T>::empty()
{
    assert forall|s: Seq<&T>| s.len() == 0 implies #[trigger] s.unref().to_set() =~= Set::<T>::empty() by {
        assert forall|x: T| !s.unref().to_set().contains(x) by {
            if s.unref().contains(x) { let i = choose|i: int| 0 <= i < s.unref().len() && s.unref()[i] == x; }
        }
    }
}

/// postcondition of a successful commit, as one predicate (also stated clause by clause on the function)
pub open spec fn commit_ok_post(a: GraphStore, b: GraphStore, id: TxnId, v: u64) -> bool {
    let t = a.active_transactions@[id];
    &&& v == a.current_version + 1
    &&& b.current_version == v
    &&& b.next_txn_id == a.next_txn_id
    &&& others_unchanged(a, b, id)
    &&& same_txn_except_status(t, b.active_transactions@[id])
    &&& b.active_transactions@[id].status == TxnStatus::Committed
    &&& b.active_transactions@[id].commit_version == Some(v)
    &&& forall|n: NodeId| #![trigger b.node_last_commit@.contains_key(n)]
            b.node_last_commit@.contains_key(n) <==> (a.node_last_commit@.contains_key(n) || t.node_write_set@.contains(n))
    &&& forall|n: NodeId| #![trigger b.node_last_commit@[n]] b.node_last_commit@.contains_key(n) ==>
            b.node_last_commit@[n] == (if t.node_write_set@.contains(n) { v } else { a.node_last_commit@[n] })
    &&& forall|e: EdgeId| #![trigger b.edge_last_commit@.contains_key(e)]
            b.edge_last_commit@.contains_key(e) <==> (a.edge_last_commit@.contains_key(e) || t.edge_write_set@.contains(e))
    &&& forall|e: EdgeId| #![trigger b.edge_last_commit@[e]] b.edge_last_commit@.contains_key(e) ==>
            b.edge_last_commit@[e] == (if t.edge_write_set@.contains(e) { v } else { a.edge_last_commit@[e] })
}

impl GraphStore {
    pub uninterp spec fn spec_node_at(&self, id: NodeId, version: u64) -> Option<&Node>;
    pub uninterp spec fn spec_edge_at(&self, id: EdgeId, version: u64) -> Option<Edge>;
    // callees outside the unit (contract proved in unit store_mvcc): result named by an uninterpreted function
    #[verifier::external_body]
    pub fn get_node_at_version(&self, id: NodeId, version: u64) -> (r: Option<&Node>)
        ensures r == self.spec_node_at(id, version)
    { unimplemented!() }
    #[verifier::external_body]
    pub fn get_edge_at_version(&self, id: EdgeId, version: u64) -> (r: Option<Edge>)
        ensures r == self.spec_edge_at(id, version)
    { unimplemented!() }

//@fn GraphStore::begin_transaction ret=r
//@requires
        txn_wf(*old(self)),
        old(self).next_txn_id < u64::MAX,
//@ensures
        r == old(self).next_txn_id,                                         //#fresh_id
        !old(self).active_transactions@.contains_key(r),                    //#id_unused
        final(self).active_transactions@ == old(self).active_transactions@.insert(r, final(self).active_transactions@[r]),   //#only_adds_r
        final(self).active_transactions@[r].status == TxnStatus::Active,    //#starts_active
        final(self).active_transactions@[r].start_version == old(self).current_version,   //#start_is_current
        final(self).active_transactions@[r].isolation == isolation,         //#isolation_recorded
        final(self).active_transactions@[r].commit_version.is_none(),       //#no_commit_version
        final(self).active_transactions@[r].node_write_set@ == Set::<NodeId>::empty()
            && final(self).active_transactions@[r].edge_write_set@ == Set::<EdgeId>::empty(),   //#empty_write_sets
        final(self).current_version == old(self).current_version,           //#version_frame
        commits_unchanged(*old(self), *final(self)),                        //#commits_frame
        final(self).next_txn_id == old(self).next_txn_id + 1,               //#next_id
        txn_wf(*final(self)),                                               //#keeps_wf
//@before "let txn_id = self.next_txn_id;"
        proof { axiom_nodeid_key_model(); axiom_edgeid_key_model(); }
//@end

//@fn GraphStore::get_node_for_txn ret=r
//@ensures
        !self.active_transactions@.contains_key(txn_id) ==> r.is_none(),          //#unknown_txn_none
        self.active_transactions@.contains_key(txn_id) ==> r == self.spec_node_at(node_id,
            if self.active_transactions@[txn_id].isolation == IsolationLevel::ReadCommitted { self.current_version }
            else { self.active_transactions@[txn_id].start_version }),            //#reads_at_prescribed_version
//@end

//@fn GraphStore::get_edge_for_txn ret=r
//@ensures
        !self.active_transactions@.contains_key(txn_id) ==> r.is_none(),          //#unknown_txn_none
        self.active_transactions@.contains_key(txn_id) ==> r == self.spec_edge_at(edge_id,
            if self.active_transactions@[txn_id].isolation == IsolationLevel::ReadCommitted { self.current_version }
            else { self.active_transactions@[txn_id].start_version }),            //#reads_at_prescribed_version
//@end

//@fn GraphStore::txn_write_node
//@requires
        txn_wf(*old(self)),
//@ensures
        others_unchanged(*old(self), *final(self), txn_id),                 //#others_frame
        old(self).active_transactions@.contains_key(txn_id) ==> {
            let a = old(self).active_transactions@[txn_id]; let b = final(self).active_transactions@[txn_id];
            b.node_write_set@ == a.node_write_set@.insert(node_id) && b.edge_write_set@ == a.edge_write_set@
            && b.status == a.status && b.start_version == a.start_version && b.isolation == a.isolation && b.commit_version == a.commit_version && b.id == a.id
        },                                                                  //#adds_to_write_set
        final(self).current_version == old(self).current_version && final(self).next_txn_id == old(self).next_txn_id,   //#version_frame
        commits_unchanged(*old(self), *final(self)),                        //#commits_frame
        txn_wf(*final(self)),                                               //#keeps_wf
//@before "if let Some(txn)"
        proof { axiom_nodeid_key_model(); axiom_edgeid_key_model(); }
//@end

//@fn GraphStore::txn_write_edge
//@requires
        txn_wf(*old(self)),
//@ensures
        others_unchanged(*old(self), *final(self), txn_id),                 //#others_frame
        old(self).active_transactions@.contains_key(txn_id) ==> {
            let a = old(self).active_transactions@[txn_id]; let b = final(self).active_transactions@[txn_id];
            b.edge_write_set@ == a.edge_write_set@.insert(edge_id) && b.node_write_set@ == a.node_write_set@
            && b.status == a.status && b.start_version == a.start_version && b.isolation == a.isolation && b.commit_version == a.commit_version && b.id == a.id
        },                                                                  //#adds_to_write_set
        final(self).current_version == old(self).current_version && final(self).next_txn_id == old(self).next_txn_id,   //#version_frame
        commits_unchanged(*old(self), *final(self)),                        //#commits_frame
        txn_wf(*final(self)),                                               //#keeps_wf
//@before "if let Some(txn)"
        proof { axiom_nodeid_key_model(); axiom_edgeid_key_model(); }
//@end

//@fn GraphStore::commit_transaction ret=r noisolation r9=txn.node_write_set;txn.edge_write_set
//@requires
        txn_wf(*old(self)),
        old(self).current_version < u64::MAX,
//@closure ok_or_else#1 () -> (e: GraphError) ensures e == (@BODY)
//@ensures
        !old(self).active_transactions@.contains_key(txn_id) ==>
            r == Err::<u64, GraphError>(GraphError::TransactionNotFound(txn_id)),                                  //#unknown_is_not_found
        old(self).active_transactions@.contains_key(txn_id) && old(self).active_transactions@[txn_id].status != TxnStatus::Active ==>
            r == Err::<u64, GraphError>(GraphError::TransactionNotActive(txn_id)),                                 //#finished_cannot_commit
        (r matches Err(GraphError::TransactionNotFound(_)) || r matches Err(GraphError::TransactionNotActive(_))) ==>
            final(self).active_transactions@ == old(self).active_transactions@,                                    //#refused_changes_nothing
        old(self).active_transactions@.contains_key(txn_id) && old(self).active_transactions@[txn_id].status == TxnStatus::Active ==>
            (r.is_ok() <==> !conflict(*old(self), old(self).active_transactions@[txn_id])),                        //#commits_exactly_when_no_conflict
        old(self).active_transactions@.contains_key(txn_id) && old(self).active_transactions@[txn_id].status == TxnStatus::Active && r.is_err() ==>
            r matches Err(GraphError::WriteConflict(_)),                                                           //#conflict_error_kind
        r.is_err() ==> final(self).current_version == old(self).current_version
            && commits_unchanged(*old(self), *final(self)) && final(self).next_txn_id == old(self).next_txn_id
            && others_unchanged(*old(self), *final(self), txn_id),                                                 //#failed_commit_changes_no_version
        r matches Err(GraphError::WriteConflict(_)) ==>
            final(self).active_transactions@[txn_id].status == TxnStatus::Aborted
            && same_txn_except_status(old(self).active_transactions@[txn_id], final(self).active_transactions@[txn_id])
            && final(self).active_transactions@[txn_id].commit_version == old(self).active_transactions@[txn_id].commit_version,   //#conflict_aborts
        r matches Ok(v) ==> commit_ok_post(*old(self), *final(self), txn_id, v),                                   //#successful_commit_effect
        r matches Ok(v) ==> v > old(self).current_version,                                                         //#versions_strictly_increase
        txn_wf(*final(self)),                                                                                      //#keeps_wf
//@before "let txn = self.active_transactions"
        proof { axiom_nodeid_key_model(); axiom_edgeid_key_model(); }
//@loop 1 iter=it1
            invariant
                *self == *old(self),                                                                     //#l1_no_change
                txn == old(self).active_transactions@[txn_id], old(self).active_transactions@.contains_key(txn_id),   //#l1_txn
                forall|i: int| 0 <= i < it1.index() ==> !(self.node_last_commit@.contains_key(*it1.seq()[i])
                    && #[trigger] self.node_last_commit@[*it1.seq()[i]] > txn.start_version),             //#l1_no_conflict_so_far
//@loop 2 iter=it2
            invariant
                *self == *old(self),                                                                     //#l2_no_change
                txn == old(self).active_transactions@[txn_id], old(self).active_transactions@.contains_key(txn_id),   //#l2_txn
                !node_conflict(*old(self), txn),                                                          //#l2_nodes_clear
                forall|i: int| 0 <= i < it2.index() ==> !(self.edge_last_commit@.contains_key(*it2.seq()[i])
                    && #[trigger] self.edge_last_commit@[*it2.seq()[i]] > txn.start_version),             //#l2_no_conflict_so_far
//@beforeloop 3
        let ghost mut done_n = Set::<NodeId>::empty();
        proof { lemma_empty_unref_set::<NodeId>(); }
//@loop 3 iter=it3
            invariant
                self.current_version == old(self).current_version + 1 && commit_version == self.current_version,     //#l3_version
                self.active_transactions@ == old(self).active_transactions@ && self.next_txn_id == old(self).next_txn_id
                    && self.edge_last_commit@ == old(self).edge_last_commit@,                                            //#l3_frame
                it3.seq().unref().to_set() == txn.node_write_set@,   //#l3_iter_covers_set
                it3.index() == it3.seq().len() ==> done_n =~= txn.node_write_set@,   //#l3_done_all_at_exit
                forall|n: NodeId| done_n.contains(n) <==> exists|i: int| 0 <= i < it3.index() && *#[trigger] it3.seq()[i] == n,                   //#l3_done
                forall|n: NodeId| #![trigger self.node_last_commit@.contains_key(n)] self.node_last_commit@.contains_key(n) <==>
                    (old(self).node_last_commit@.contains_key(n) || done_n.contains(n)),                                 //#l3_dom
                forall|n: NodeId| #![trigger self.node_last_commit@[n]] self.node_last_commit@.contains_key(n) ==>
                    self.node_last_commit@[n] == (if done_n.contains(n) { commit_version } else { old(self).node_last_commit@[n] }),   //#l3_values
//@after "self.node_last_commit.insert("
            proof { done_n = done_n.insert(nid); }
            assert(it3.index() + 1 == it3.seq().len() ==> done_n =~= txn.node_write_set@) by {
                if it3.index() + 1 == it3.seq().len() { lemma_prefix_set_is_unref_set(it3.seq(), done_n); }
            }
//@beforeloop 4
        assert(done_n =~= txn.node_write_set@);
        let ghost mut done_e = Set::<EdgeId>::empty();
        proof { lemma_empty_unref_set::<EdgeId>(); }
//@loop 4 iter=it4
            invariant
                self.current_version == old(self).current_version + 1 && commit_version == self.current_version,     //#l4_version
                self.active_transactions@ == old(self).active_transactions@ && self.next_txn_id == old(self).next_txn_id,   //#l4_frame
                forall|n: NodeId| #![trigger self.node_last_commit@.contains_key(n)] self.node_last_commit@.contains_key(n) <==>
                    (old(self).node_last_commit@.contains_key(n) || txn.node_write_set@.contains(n)),                    //#l4_node_dom
                forall|n: NodeId| #![trigger self.node_last_commit@[n]] self.node_last_commit@.contains_key(n) ==>
                    self.node_last_commit@[n] == (if txn.node_write_set@.contains(n) { commit_version } else { old(self).node_last_commit@[n] }),   //#l4_node_values
                it4.seq().unref().to_set() == txn.edge_write_set@,   //#l4_iter_covers_set
                it4.index() == it4.seq().len() ==> done_e =~= txn.edge_write_set@,   //#l4_done_all_at_exit
                forall|e: EdgeId| done_e.contains(e) <==> exists|i: int| 0 <= i < it4.index() && *#[trigger] it4.seq()[i] == e,                   //#l4_done
                forall|e: EdgeId| #![trigger self.edge_last_commit@.contains_key(e)] self.edge_last_commit@.contains_key(e) <==>
                    (old(self).edge_last_commit@.contains_key(e) || done_e.contains(e)),                                 //#l4_dom
                forall|e: EdgeId| #![trigger self.edge_last_commit@[e]] self.edge_last_commit@.contains_key(e) ==>
                    self.edge_last_commit@[e] == (if done_e.contains(e) { commit_version } else { old(self).edge_last_commit@[e] }),   //#l4_values
//@after "self.edge_last_commit.insert("
            proof { done_e = done_e.insert(eid); }
            assert(it4.index() + 1 == it4.seq().len() ==> done_e =~= txn.edge_write_set@) by {
                if it4.index() + 1 == it4.seq().len() { lemma_prefix_set_is_unref_set(it4.seq(), done_e); }
            }
//@before "if let Some(t) = self.active_transactions.get_mut"
        assert(done_e =~= txn.edge_write_set@);
//@end

//@fn GraphStore::abort_transaction ret=r
//@requires
        txn_wf(*old(self)),
//@ensures
        !old(self).active_transactions@.contains_key(txn_id) ==>
            r == Err::<(), GraphError>(GraphError::TransactionNotFound(txn_id)),                                   //#unknown_is_not_found
        old(self).active_transactions@.contains_key(txn_id) && old(self).active_transactions@[txn_id].status != TxnStatus::Active ==>
            r == Err::<(), GraphError>(GraphError::TransactionNotActive(txn_id)),                                  //#finished_cannot_abort
        old(self).active_transactions@.contains_key(txn_id) && old(self).active_transactions@[txn_id].status == TxnStatus::Active ==>
            r.is_ok() && final(self).active_transactions@[txn_id].status == TxnStatus::Aborted
            && same_txn_except_status(old(self).active_transactions@[txn_id], final(self).active_transactions@[txn_id])
            && final(self).active_transactions@[txn_id].commit_version == old(self).active_transactions@[txn_id].commit_version,   //#active_becomes_aborted
        r.is_err() ==> final(self).active_transactions@ == old(self).active_transactions@,                         //#refused_changes_nothing
        others_unchanged(*old(self), *final(self), txn_id),                                                        //#others_frame
        final(self).current_version == old(self).current_version && final(self).next_txn_id == old(self).next_txn_id
            && commits_unchanged(*old(self), *final(self)),                                                        //#version_frame
        txn_wf(*final(self)),                                                                                      //#keeps_wf
//@closure ok_or_else#1 () -> (e: GraphError) ensures e == (@BODY)
//@before "let txn = self.active_transactions"
        proof { axiom_nodeid_key_model(); axiom_edgeid_key_model(); }
//@end
}

} // verus!
fn main() {}
