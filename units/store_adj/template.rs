//@unit store_adj
//@properties C06
//@source store src/graph/store.rs
//@source types src/graph/types.rs
//@rules D2 R2 R15
#![feature(allocator_api)]
#![allow(unused_imports, unused_variables, unused_mut, dead_code)]
use vstd::prelude::*;
use vstd::multiset::Multiset;
use std::collections::{HashMap, HashSet};
verus!{
global size_of usize == 8;
//@include common/std_extra.rs

// =====================================================================
// extracted types
// =====================================================================
//@struct NodeId from=types derive=Clone,Copy,PartialEq,Eq,Hash,PartialOrd,Ord,Structural
//@struct EdgeId from=types derive=Clone,Copy,PartialEq,Eq,Hash,Structural
impl NodeId {
//@fn NodeId::as_u64 from=types ret=r
//@ensures
        r == self.0,   //#projection
//@end
//@fn NodeId::new from=types ret=r
//@ensures
        r.0 == id,   //#projection
//@end
}
impl EdgeId {
//@fn EdgeId::as_u64 from=types ret=r
//@ensures
        r == self.0,   //#projection
//@end
}
pub type Entry = (NodeId, EdgeId);
//@struct FrozenAdjacency
//@struct FrozenAdjacencyStore
//@struct GraphStore keep=outgoing,incoming,frozen_outgoing,frozen_incoming,edge_endpoints,edge_type_ids,edge_properties,edge_version_log,free_edge_ids,edge_type_index,catalog
//@item type TxnId
//@enum GraphError
//@item type GraphResult

// =====================================================================
// prelude: stand-ins for what delete_edge touches besides the adjacency (D3/D4), assumed std
// =====================================================================
#[verifier::external_body]
#[derive(PartialEq, Eq, Hash)]
pub struct EdgeType { t: u8 }
#[verifier::external_body]
pub struct PropertyMap { m: u8 }
#[verifier::external_body]
pub struct EdgeVersionEntry { e: u8 }
#[verifier::external_body]
pub struct Label { l: u8 }
#[verifier::external_body]
pub struct GraphCatalog { c: u8 }
impl GraphCatalog {
    #[verifier::external_body]
    pub fn on_edge_deleted(&mut self, source: NodeId, src_labels: &Vec<Label>, edge_type: &EdgeType, target: NodeId, tgt_labels: &Vec<Label>) { unimplemented!() }
}
pub struct Edge { pub id: EdgeId, pub version: u64, pub source: NodeId, pub target: NodeId, pub edge_type: EdgeType, pub properties: PropertyMap, pub created_at: i64 }
#[verifier::external_body]
pub proof fn axiom_key_models()
    ensures vstd::std_specs::hash::obeys_key_model::<EdgeId>(), vstd::std_specs::hash::obeys_key_model::<EdgeType>()
{}
//@include common/hashmap_get_mut.rs
//@include common/filter_by.rs
//@include common/iter_wrappers.rs
/// `v.get_mut(i)` on a Vec (A-STD; vstd has no final-value specification for slice::get_mut; wrapper body is the original
/// expression): a mutable reference to element i if it exists; nothing else changes
#[verifier::external_body]
pub fn vec_get_mut<T>(v: &mut Vec<T>, i: usize) -> (r: Option<&mut T>)
    ensures match r {
        Some(x) => (i as int) < old(v)@.len() && *x == old(v)@[i as int] && final(v)@ == old(v)@.update(i as int, *final(x)),
        None => (i as int) >= old(v)@.len() && final(v)@ == old(v)@,
    }
{ v.get_mut(i) }

/// `adj.iter().map(|v| v.len()).sum()` (A-STD; wrapper body is the original chain): the total number of entries
pub open spec fn total_entries(adj: Seq<Vec<Entry>>, k: int) -> int
    decreases k
{
    if k <= 0 { 0 } else { total_entries(adj, k - 1) + adj[k - 1]@.len() }
}
#[verifier::external_body]
pub fn sum_lens(adj: &[Vec<Entry>]) -> (r: usize)
    ensures r == total_entries(adj@, adj@.len() as int)
{ adj.iter().map(|v| v.len()).sum() }
/// `edges[start..].sort_by_key(|(nid, _)| *nid)` (A-STD; wrapper body is the original statement): the tail from `start`
/// is rearranged (same multiset), stably ordered by neighbour; the part before `start` is untouched
pub open spec fn sorted_by_nbr(s: Seq<Entry>) -> bool { forall|i: int, j: int| 0 <= i <= j < s.len() ==> s[i].0.0 <= s[j].0.0 }
#[verifier::external_body]
pub fn sort_tail_by_neighbor(edges: &mut Vec<Entry>, start: usize)
    requires start <= old(edges)@.len()
    ensures
        final(edges)@.len() == old(edges)@.len(),
        final(edges)@.subrange(0, start as int) == old(edges)@.subrange(0, start as int),
        final(edges)@.subrange(start as int, final(edges)@.len() as int).to_multiset() == old(edges)@.subrange(start as int, old(edges)@.len() as int).to_multiset(),
        sorted_by_nbr(final(edges)@.subrange(start as int, final(edges)@.len() as int)),
{ edges[start..].sort_by_key(|(nid, _)| *nid); }

/// rayon::join(a, b) (A-RAYON, assumed): both closures run, each once; their results are returned as a pair
pub mod rayon {
    use super::*;
    #[verifier::external_body]
    pub fn join<A: FnOnce() -> RA, B: FnOnce() -> RB, RA, RB>(a: A, b: B) -> (r: (RA, RB))
        requires a.requires(()), b.requires(())
        ensures a.ensures((), r.0), b.ensures((), r.1)
    { unimplemented!() }
}
/// `vs.par_iter_mut().for_each(|v| { v.clear(); v.shrink_to_fit(); })` (A-RAYON; wrapper body is the original statement):
/// every inner vector is emptied
#[verifier::external_body]
pub fn par_clear_all(vs: &mut Vec<Vec<Entry>>)
    ensures final(vs)@.len() == old(vs)@.len(), forall|k: int| 0 <= k < final(vs)@.len() ==> (#[trigger] final(vs)@[k])@.len() == 0
{ unimplemented!() }
pub assume_specification<T, A: core::alloc::Allocator>[ Vec::<T, A>::shrink_to_fit ](v: &mut Vec<T, A>)
    ensures final(v)@ == old(v)@;
pub proof fn lemma_total_zero(adj: Seq<Vec<Entry>>, k: int)
    requires 0 <= k <= adj.len(), forall|j: int| 0 <= j < adj.len() ==> (#[trigger] adj[j])@.len() == 0
    ensures total_entries(adj, k) == 0
    decreases k
{
    if k > 0 { lemma_total_zero(adj, k - 1); }
}
pub proof fn lemma_total_mono(adj: Seq<Vec<Entry>>, a: int, b: int)
    requires 0 <= a <= b <= adj.len()
    ensures total_entries(adj, a) <= total_entries(adj, b)
    decreases b - a
{
    if a < b { lemma_total_mono(adj, a, b - 1); }
}
/// cloning an entry (a pair of Copy ids) yields the same entry (A-STD: derived Clone of a Copy type is a copy)
#[verifier::external_body]
pub proof fn axiom_entry_clone()
    ensures forall|a: Entry, b: Entry| #[trigger] vstd::pervasive::cloned(a, b) ==> a == b
{}
#[verifier::external_body]
pub proof fn axiom_vec_len<T>(v: &Vec<T>)
    ensures v@.len() <= usize::MAX
{}
/// a slice never holds more than isize::MAX elements (language guarantee; A-VECLEN)
#[verifier::external_body]
pub proof fn axiom_slice_len<T>(s: &[T])
    ensures s@.len() <= isize::MAX
{}
// =====================================================================
// specification
// =====================================================================
impl FrozenAdjacency {
    /// the CSR shape: one offset per node plus a sentinel, non-decreasing, the sentinel is the number of entries
    pub open spec fn wf(&self) -> bool {
        &&& self.offsets@.len() >= 1
        &&& forall|i: int, j: int| 0 <= i <= j < self.offsets@.len() ==> self.offsets@[i] <= self.offsets@[j]
        &&& self.offsets@.last() as int == self.edges@.len()
    }
    pub open spec fn nodes(&self) -> int { self.offsets@.len() - 1 }
    /// the entries of node i (empty beyond the tracked nodes)
    pub open spec fn nbrs(&self, i: int) -> Seq<Entry> {
        if 0 <= i && i + 1 < self.offsets@.len() { self.edges@.subrange(self.offsets@[i] as int, self.offsets@[i + 1] as int) } else { Seq::empty() }
    }

//@fn FrozenAdjacency::from_vec_of_vec ret=r
//@requires
        total_entries(adj@, adj@.len() as int) <= u32::MAX,      // `offset: u32` and `len() as u32`: a real precondition of the CSR layout
//@ensures
        r.wf(),                                                                                     //#csr_shape
        r.nodes() == adj@.len(),                                                                    //#one_slot_per_node
        forall|i: int| 0 <= i < adj@.len() ==> (#[trigger] r.nbrs(i)).to_multiset() == adj@[i]@.to_multiset(),   //#each_node_keeps_its_entries
        forall|i: int| 0 <= i < adj@.len() ==> sorted_by_nbr(#[trigger] r.nbrs(i)),                 //#sorted_by_neighbour
        r.edges@.len() == total_entries(adj@, adj@.len() as int),                                   //#entry_count
//@atstart
        proof { axiom_slice_len(adj); }
//@loop 1 iter=it
            invariant
                it.seq().len() == adj@.len(),
                forall|k: int| 0 <= k < adj@.len() ==> *it.seq()[k] == adj@[k],
                offsets@.len() == it.index(),
                offset as int == total_entries(adj@, it.index() as int),                                          //#running_offset
                edges@.len() == offset as int,                                                                    //#entries_so_far
                total_entries(adj@, adj@.len() as int) <= u32::MAX,
                forall|k: int| 0 <= k < offsets@.len() ==> offsets@[k] as int == total_entries(adj@, k),          //#offsets_are_prefix_sums
                forall|k: int| #![trigger adj@[k]] 0 <= k < it.index() ==>
                    edges@.subrange(total_entries(adj@, k), total_entries(adj@, k + 1)).to_multiset() == adj@[k]@.to_multiset()
                    && sorted_by_nbr(edges@.subrange(total_entries(adj@, k), total_entries(adj@, k + 1))),         //#done_nodes_keep_their_entries
//@before "offsets.push(offset);" 1
            let ghost e0 = edges@;
            let ghost idx = it.index() as int;
            proof {
                lemma_total_mono(adj@, idx + 1, adj@.len() as int);
                lemma_total_mono(adj@, 0, idx);
                assert(node_edges@ == adj@[idx]@);
            }
//@before "sort_tail_by_neighbor(&mut edges, start);"
            let ghost emid = edges@;
            proof {
                axiom_entry_clone();
                assert(emid =~= e0 + node_edges@);
                assert(start as int == e0.len());
                assert(emid.subrange(start as int, emid.len() as int) =~= node_edges@);
            }
//@after "sort_tail_by_neighbor(&mut edges, start);"
            proof {
                let e1 = edges@;
                let t0 = total_entries(adj@, idx);
                let t1 = total_entries(adj@, idx + 1);
                assert(e1.len() == t1);
                assert((e0 + node_edges@).subrange(t0, t1) =~= node_edges@);
                assert(e1.subrange(0, t0) =~= e0);
                assert forall|k: int| #![trigger adj@[k]] 0 <= k < idx implies
                    e1.subrange(total_entries(adj@, k), total_entries(adj@, k + 1)) == e0.subrange(total_entries(adj@, k), total_entries(adj@, k + 1)) by {
                    lemma_total_mono(adj@, k + 1, idx);
                    lemma_total_mono(adj@, 0, k);
                    assert(e1.subrange(total_entries(adj@, k), total_entries(adj@, k + 1)) =~= e1.subrange(0, t0).subrange(total_entries(adj@, k), total_entries(adj@, k + 1)));
                }
                assert(e1.len() == emid.len());
                assert(e1.subrange(t0, e1.len() as int) =~= e1.subrange(t0, t1));
                assert(e1.subrange(t0, t1).to_multiset() == adj@[idx]@.to_multiset());
                assert(sorted_by_nbr(e1.subrange(t0, t1)));
            }
//@before "Self { offsets, edges }"
        proof {
            let n = adj@.len() as int;
            assert forall|i: int, j: int| 0 <= i <= j < offsets@.len() implies offsets@[i] <= offsets@[j] by { lemma_total_mono(adj@, i, j); }
        }
//@replace "adj.iter().map(|v| v.len()).sum()" => "sum_lens(adj)" :: iterator chain with Iterator::sum; wrapper body is the original chain
//@replace "edges[start..].sort_by_key(|(nid, _)| *nid);" => "sort_tail_by_neighbor(&mut edges, start);" :: slice::sort_by_key has no Verus specification; wrapper body is the original statement
//@end

//@fn FrozenAdjacency::neighbors ret=r
//@requires
        self.wf(),
        node_idx < usize::MAX,       // `node_idx + 1`: callers pass node ids, which never reach usize::MAX (stated, not proved)
//@ensures
        r@ == self.nbrs(node_idx as int),      //#the_node_s_range
//@end

//@fn FrozenAdjacency::edge_count ret=r
//@ensures
        r == self.edges@.len(),                //#entries
//@end

//@fn FrozenAdjacency::node_capacity ret=r
//@ensures
        self.offsets@.len() >= 1 ==> r == self.nodes(),   //#slots
//@end
}

impl FrozenAdjacencyStore {
    /// the total over all segments
    pub open spec fn seg_total(segs: Seq<FrozenAdjacency>, k: int) -> int
        decreases k
    {
        if k <= 0 { 0 } else { Self::seg_total(segs, k - 1) + segs[k - 1].edges@.len() }
    }
    pub open spec fn wf(&self) -> bool {
        self.total_edges as int == Self::seg_total(self.segments@, self.segments@.len() as int)
            && forall|k: int| 0 <= k < self.segments@.len() ==> (#[trigger] self.segments@[k]).wf()
    }
    /// the entries of node i across all segments, oldest segment first
    pub open spec fn all_nbrs(segs: Seq<FrozenAdjacency>, k: int, i: int) -> Seq<Entry>
        decreases k
    {
        if k <= 0 { Seq::empty() } else { Self::all_nbrs(segs, k - 1, i) + segs[k - 1].nbrs(i) }
    }
    pub open spec fn nbrs(&self, i: int) -> Seq<Entry> { Self::all_nbrs(self.segments@, self.segments@.len() as int, i) }
    pub broadcast proof fn lemma_all_nbrs_small(segs: Seq<FrozenAdjacency>, k: int, i: int)
        ensures
            k <= 0 ==> #[trigger] Self::all_nbrs(segs, k, i) == Seq::<Entry>::empty(),
            k == 1 ==> Self::all_nbrs(segs, k, i) == segs[0].nbrs(i),
    {
        if k == 1 {
            assert(Self::all_nbrs(segs, 0, i) =~= Seq::<Entry>::empty());
            assert(Seq::<Entry>::empty() + segs[0].nbrs(i) =~= segs[0].nbrs(i));
        }
    }
    /// the first k segments of a longer list contribute the same
    pub proof fn lemma_prefix_same(a: Seq<FrozenAdjacency>, b: Seq<FrozenAdjacency>, k: int, i: int)
        requires 0 <= k <= a.len(), k <= b.len(), forall|j: int| 0 <= j < k ==> a[j] == b[j]
        ensures Self::seg_total(a, k) == Self::seg_total(b, k), Self::all_nbrs(a, k, i) == Self::all_nbrs(b, k, i)
        decreases k
    {
        if k > 0 { Self::lemma_prefix_same(a, b, k - 1, i); }
    }

//@fn FrozenAdjacencyStore::push
//@requires
        old(self).wf(), segment.wf(),
        old(self).total_edges + segment.edges@.len() <= usize::MAX,      // all entries are in memory at once (A-MEM)
//@ensures
        final(self).wf(),                                                                   //#cached_total_is_the_sum
        final(self).segments@ == old(self).segments@.push(segment),                         //#appends_the_segment
        forall|i: int| final(self).nbrs(i) == old(self).nbrs(i) + segment.nbrs(i),          //#every_node_gains_the_segment_s_entries
//@atstart
        let ghost s0 = self.segments@;
//@after "self.segments.push(segment);"
        proof {
            let s1 = self.segments@;
            let n = s0.len() as int;
            assert(s1[n] == segment);
            Self::lemma_prefix_same(s0, s1, n, 0);
            assert forall|i: int| Self::all_nbrs(s1, n + 1, i) == Self::all_nbrs(s0, n, i) + segment.nbrs(i) by {
                Self::lemma_prefix_same(s0, s1, n, i);
            }
        }
//@end

//@fn FrozenAdjacencyStore::edge_count ret=r
//@requires
        self.wf(),
//@ensures
        r == Self::seg_total(self.segments@, self.segments@.len() as int),                  //#sum_over_segments
//@end

//@fn FrozenAdjacencyStore::neighbors_collected ret=r
//@requires
        self.wf(), node_idx < usize::MAX,
//@ensures
        r@ == self.nbrs(node_idx as int),                                                   //#all_segments_in_order
//@atstart
        broadcast use FrozenAdjacencyStore::lemma_all_nbrs_small;
        proof { axiom_entry_clone(); }
//@before "result.extend_from_slice(seg.neighbors(node_idx));"
                    proof { axiom_entry_clone(); assert(*seg == self.segments@[it.index() as int]); }
//@loop 1 iter=it
                    invariant
                        self.wf(), node_idx < usize::MAX,
                        it.seq().len() == self.segments@.len(),
                        forall|k: int| 0 <= k < self.segments@.len() ==> *it.seq()[k] == self.segments@[k],
                        result@ == Self::all_nbrs(self.segments@, it.index() as int, node_idx as int),      //#segments_so_far
//@end

//@fn FrozenAdjacencyStore::clear
//@ensures
        final(self).wf() && final(self).segments@.len() == 0,                               //#empty
//@end
}

// =====================================================================
// the two-tier adjacency of the store
// =====================================================================
pub open spec fn buf(b: Seq<Vec<Entry>>, i: int) -> Seq<Entry> { if 0 <= i < b.len() { b[i]@ } else { Seq::empty() } }
impl GraphStore {
    pub open spec fn adj_wf(&self) -> bool { self.frozen_outgoing.wf() && self.frozen_incoming.wf() }
    /// everything the store holds for node i on the outgoing / incoming side: frozen segments then the write buffer
    pub open spec fn out_all(&self, i: int) -> Multiset<Entry> { self.frozen_outgoing.nbrs(i).to_multiset().add(buf(self.outgoing@, i).to_multiset()) }
    pub open spec fn in_all(&self, i: int) -> Multiset<Entry> { self.frozen_incoming.nbrs(i).to_multiset().add(buf(self.incoming@, i).to_multiset()) }

//@fn GraphStore::edge_count ret=r
//@requires
        self.adj_wf(),
        self.frozen_outgoing.total_edges + total_entries(self.outgoing@, self.outgoing@.len() as int) <= usize::MAX,    // A-MEM
//@ensures
        r == FrozenAdjacencyStore::seg_total(self.frozen_outgoing.segments@, self.frozen_outgoing.segments@.len() as int)
            + total_entries(self.outgoing@, self.outgoing@.len() as int),                                    //#frozen_plus_buffer
//@replace "self.outgoing.iter().map(|v| v.len()).sum()" => "sum_lens(&self.outgoing)" :: iterator chain with Iterator::sum; wrapper body is the original chain
//@end

//@fn GraphStore::compact_adjacency
//@requires
        old(self).adj_wf(),
        total_entries(old(self).outgoing@, old(self).outgoing@.len() as int) <= u32::MAX,      // CSR offsets are u32: a real limit of compaction
        total_entries(old(self).incoming@, old(self).incoming@.len() as int) <= u32::MAX,
        old(self).frozen_outgoing.total_edges + total_entries(old(self).outgoing@, old(self).outgoing@.len() as int) <= usize::MAX,   // A-MEM
        old(self).frozen_incoming.total_edges + total_entries(old(self).incoming@, old(self).incoming@.len() as int) <= usize::MAX,
//@ensures
        final(self).adj_wf(),                                                                                    //#tiers_well_formed
        forall|i: int| #[trigger] final(self).out_all(i) == old(self).out_all(i),                                //#outgoing_entries_preserved
        forall|i: int| #[trigger] final(self).in_all(i) == old(self).in_all(i),                                  //#incoming_entries_preserved
        final(self).outgoing@.len() == old(self).outgoing@.len() && final(self).incoming@.len() == old(self).incoming@.len(),   //#same_slots
//@replace "self.outgoing.iter().map(|v| v.len()).sum()" => "sum_lens(&self.outgoing)" :: iterator chain with Iterator::sum; wrapper body is the original chain
//@replace "self.incoming.iter().map(|v| v.len()).sum()" => "sum_lens(&self.incoming)" :: as above
//@replace "self.outgoing.par_iter_mut().for_each(|v| { v.clear(); v.shrink_to_fit(); });" => "par_clear_all(&mut self.outgoing);" :: rayon parallel iterator: assumed to do what the sequential loop below it does
//@replace "self.incoming.par_iter_mut().for_each(|v| { v.clear(); v.shrink_to_fit(); });" => "par_clear_all(&mut self.incoming);" :: as above
//@closure join#1 () -> (r: FrozenAdjacency) ensures r.wf() && r.nodes() == self.outgoing@.len() && r.edges@.len() == total_entries(self.outgoing@, self.outgoing@.len() as int) && forall|i: int| 0 <= i < self.outgoing@.len() ==> (#[trigger] r.nbrs(i)).to_multiset() == self.outgoing@[i]@.to_multiset()
//@closure join#2 () -> (r: FrozenAdjacency) ensures r.wf() && r.nodes() == self.incoming@.len() && r.edges@.len() == total_entries(self.incoming@, self.incoming@.len() as int) && forall|i: int| 0 <= i < self.incoming@.len() ==> (#[trigger] r.nbrs(i)).to_multiset() == self.incoming@[i]@.to_multiset()
//@loop 1 index=oi
                invariant oi <= self.outgoing@.len(), self.outgoing@.len() == old(self).outgoing@.len(),
                    forall|k: int| 0 <= k < oi ==> (#[trigger] self.outgoing@[k])@.len() == 0,
                    self.incoming@ == old(self).incoming@, self.frozen_outgoing == fo1, self.frozen_incoming == fi1,
                decreases self.outgoing@.len() - oi
//@loop 2 index=ii
                invariant ii <= self.incoming@.len(), self.incoming@.len() == old(self).incoming@.len(),
                    forall|k: int| 0 <= k < ii ==> (#[trigger] self.incoming@[k])@.len() == 0,
                    self.outgoing@.len() == old(self).outgoing@.len(), forall|k: int| 0 <= k < self.outgoing@.len() ==> (#[trigger] self.outgoing@[k])@.len() == 0,
                    self.frozen_outgoing == fo1, self.frozen_incoming == fi1,
                decreases self.incoming@.len() - ii
//@before "self.frozen_outgoing.push(frozen_out);"
        let ghost go = frozen_out;
        let ghost gi = frozen_in;
//@before "if self.outgoing.len() >= 10_000 {"
        let ghost fo1 = self.frozen_outgoing;
        let ghost fi1 = self.frozen_incoming;
//@before "let frozen_edge_count = self.frozen_outgoing.edge_count();"
        proof {
            broadcast use vstd::seq_lib::group_to_multiset_ensures;
            assert(Seq::<Entry>::empty().to_multiset().len() == 0);
            assert(Seq::<Entry>::empty().to_multiset() =~= Multiset::<Entry>::empty());
            assert forall|i: int| #[trigger] self.out_all(i) == old(self).out_all(i) by {
                let a = old(self).frozen_outgoing.nbrs(i);
                vstd::seq_lib::lemma_multiset_commutative(a, go.nbrs(i));
                assert(buf(self.outgoing@, i) =~= Seq::<Entry>::empty());
                assert(buf(self.outgoing@, i).to_multiset() =~= Multiset::<Entry>::empty());
                if 0 <= i < old(self).outgoing@.len() {
                    assert(go.nbrs(i).to_multiset() == buf(old(self).outgoing@, i).to_multiset());
                } else {
                    assert(go.nbrs(i) =~= Seq::<Entry>::empty());
                    assert(buf(old(self).outgoing@, i) =~= Seq::<Entry>::empty());
                }
                assert(self.out_all(i) =~= old(self).out_all(i));
            }
            assert forall|i: int| #[trigger] self.in_all(i) == old(self).in_all(i) by {
                let a = old(self).frozen_incoming.nbrs(i);
                vstd::seq_lib::lemma_multiset_commutative(a, gi.nbrs(i));
                assert(buf(self.incoming@, i) =~= Seq::<Entry>::empty());
                assert(buf(self.incoming@, i).to_multiset() =~= Multiset::<Entry>::empty());
                if 0 <= i < old(self).incoming@.len() {
                    assert(gi.nbrs(i).to_multiset() == buf(old(self).incoming@, i).to_multiset());
                } else {
                    assert(gi.nbrs(i) =~= Seq::<Entry>::empty());
                    assert(buf(old(self).incoming@, i) =~= Seq::<Entry>::empty());
                }
                assert(self.in_all(i) =~= old(self).in_all(i));
            }
        }
//@end

    /// retain(keep-if-not-id) leaves no entry of edge id
    pub proof fn lemma_retained_has_no_id(s: Seq<Entry>, keep: Seq<bool>, id: EdgeId, n: NodeId)
        requires keep.len() == s.len(), forall|i: int| 0 <= i < s.len() ==> keep[i] == (s[i].1 != id)
        ensures filter_by(s, keep).to_multiset().count((n, id)) == 0
        decreases s.len()
    {
        broadcast use vstd::seq_lib::group_to_multiset_ensures;
        if s.len() == 0 {
        } else {
            Self::lemma_retained_has_no_id(s.drop_last(), keep.drop_last(), id, n);
            let rest = filter_by(s.drop_last(), keep.drop_last());
            if keep.last() {
                assert(rest.push(s.last()).to_multiset() =~= rest.to_multiset().insert(s.last()));
            }
        }
    }
    /// retain keeps a sorted list sorted (a subsequence of a sorted sequence)
    pub proof fn lemma_retained_stays_sorted(s: Seq<Entry>, keep: Seq<bool>)
        requires keep.len() == s.len(), sorted_by_nbr(s)
        ensures sorted_by_nbr(filter_by(s, keep)),
            forall|k: int| 0 <= k < filter_by(s, keep).len() ==> exists|j: int| 0 <= j < s.len() && s[j] == #[trigger] filter_by(s, keep)[k],
            filter_by(s, keep).len() > 0 ==> s.len() > 0 && filter_by(s, keep).last().0.0 <= s.last().0.0,
        decreases s.len()
    {
        if s.len() > 0 {
            Self::lemma_retained_stays_sorted(s.drop_last(), keep.drop_last());
            let rest = filter_by(s.drop_last(), keep.drop_last());
            if rest.len() > 0 { assert(s.drop_last().last() == s[s.len() - 2]); }
            assert forall|k: int| 0 <= k < filter_by(s, keep).len() implies exists|j: int| 0 <= j < s.len() && s[j] == #[trigger] filter_by(s, keep)[k] by {
                if k < rest.len() {
                    let j = choose|j: int| 0 <= j < s.drop_last().len() && s.drop_last()[j] == rest[k];
                    assert(s[j] == rest[k]);
                } else {
                    assert(s[s.len() - 1] == filter_by(s, keep)[k]);
                }
            }
        }
    }
    // ---- callees of delete_edge outside the adjacency: stubs (D4) ----
    #[verifier::external_body] pub fn invalidate_statistics_cache(&self) { unimplemented!() }
    #[verifier::external_body] pub fn invalidate_hierarchies_for_edge_type(&self, edge_type: &EdgeType) { unimplemented!() }
    /// the labels of a node (catalog bookkeeping only)
    #[verifier::external_body] pub fn labels_of(&self, n: NodeId) -> Vec<Label> { unimplemented!() }
    /// get_edge (unit store_mvcc): a live edge with its stored endpoints (assumed here)
    #[verifier::external_body]
    pub fn get_edge(&self, id: EdgeId) -> (r: Option<Edge>)
        ensures r matches Some(e) ==> e.id == id && self.live(id) && self.edge_endpoints@[id.0 as int] == (e.source, e.target)
    { unimplemented!() }
//@item const EDGE_TYPE_UNSET

    pub open spec fn live(&self, e: EdgeId) -> bool {
        (e.0 as int) < self.edge_endpoints@.len() && !(self.edge_endpoints@[e.0 as int].0.0 == 0 && self.edge_endpoints@[e.0 as int].1.0 == 0)
    }
    /// an adjacency entry exists only for a live edge, at its own endpoints; (the converse, one entry per live edge, is
    /// create_edge's business and not stated here)
    pub open spec fn no_dangling(&self) -> bool {
        (forall|i: int, n: NodeId, e: EdgeId| #[trigger] self.out_all(i).count((n, e)) > 0 ==> self.live(e) && self.edge_endpoints@[e.0 as int] == (NodeId(i as u64), n))
        && (forall|i: int, n: NodeId, e: EdgeId| #[trigger] self.in_all(i).count((n, e)) > 0 ==> self.live(e) && self.edge_endpoints@[e.0 as int] == (n, NodeId(i as u64)))
    }

//@fn GraphStore::delete_edge ret=r
//@requires
        old(self).adj_wf(), old(self).no_dangling(),
//@ensures
        r is Ok ==> !final(self).live(id),                                                                  //#edge_is_dead
        r is Ok ==> forall|i: int, n: NodeId| #[trigger] final(self).out_all(i).count((n, id)) == 0,        //#gone_from_every_outgoing_list
        r is Ok ==> forall|i: int, n: NodeId| #[trigger] final(self).in_all(i).count((n, id)) == 0,         //#gone_from_every_incoming_list
        r is Ok ==> final(self).no_dangling(),                                                              //#no_entry_dangles
        r is Ok ==> forall|i: int, n: NodeId| (#[trigger] buf(final(self).outgoing@, i).to_multiset().count((n, id))) == 0,   //#gone_from_every_outgoing_buffer
        r is Ok ==> forall|i: int, n: NodeId| (#[trigger] buf(final(self).incoming@, i).to_multiset().count((n, id))) == 0,   //#gone_from_every_incoming_buffer
        forall|i: int| 0 <= i < old(self).outgoing@.len() && sorted_by_nbr(old(self).outgoing@[i]@) ==> sorted_by_nbr(#[trigger] final(self).outgoing@[i]@),   //#sorted_outgoing_buffers_stay_sorted
        forall|i: int| 0 <= i < old(self).incoming@.len() && sorted_by_nbr(old(self).incoming@[i]@) ==> sorted_by_nbr(#[trigger] final(self).incoming@[i]@),   //#sorted_incoming_buffers_stay_sorted
        final(self).outgoing@.len() == old(self).outgoing@.len() && final(self).incoming@.len() == old(self).incoming@.len(),   //#same_slots
        r is Err ==> final(self).outgoing@ == old(self).outgoing@ && final(self).incoming@ == old(self).incoming@
            && final(self).edge_endpoints@ == old(self).edge_endpoints@,                                   //#refused_changes_nothing
        final(self).frozen_outgoing == old(self).frozen_outgoing && final(self).frozen_incoming == old(self).frozen_incoming,   //#frozen_tier_untouched
        r matches Ok(ed) ==> (final(self).edge_type_index@.contains_key(ed.edge_type) ==> !final(self).edge_type_index@[ed.edge_type]@.contains(id)),   //#no_longer_listed_under_its_type
        r matches Ok(ed) ==> forall|t: EdgeType| t != ed.edge_type ==> (#[trigger] final(self).edge_type_index@.contains_key(t)) == old(self).edge_type_index@.contains_key(t)
            && (old(self).edge_type_index@.contains_key(t) ==> final(self).edge_type_index@[t] == old(self).edge_type_index@[t]),   //#other_types_index_untouched
        r is Err ==> final(self).edge_type_index@ == old(self).edge_type_index@,   //#refused_leaves_the_type_index
//@replace "self.get_node(edge.source).map(|n| n.labels.iter().cloned().collect()).unwrap_or_default()" => "self.labels_of(edge.source)" :: catalog bookkeeping outside the projected state (D4): stub
//@replace "self.get_node(edge.target).map(|n| n.labels.iter().cloned().collect()).unwrap_or_default()" => "self.labels_of(edge.target)" :: as above
//@replace "self.outgoing.get_mut(" => "vec_get_mut(&mut self.outgoing, " :: slice::get_mut has no final-value specification in vstd; wrapper body is the original expression
//@replace "self.incoming.get_mut(" => "vec_get_mut(&mut self.incoming, " :: as above
//@closure retain#1 (p__r: &(NodeId, EdgeId)) -> (b: bool) ensures b == (p__r.1 != id)
//@closure retain#2 (p__r: &(NodeId, EdgeId)) -> (b: bool) ensures b == (p__r.1 != id)
//@atstart
        proof { axiom_key_models(); }
//@before "if idx < self.edge_endpoints.len() {"
        proof {
            broadcast use vstd::seq_lib::group_to_multiset_ensures;
            let src = edge.source.0 as int;
            let tgt = edge.target.0 as int;
            assert forall|i: int, n: NodeId| (#[trigger] buf(self.outgoing@, i).to_multiset().count((n, id))) == 0 by {
                if 0 <= i < self.outgoing@.len() {
                    if i == src {
                        let s0 = old(self).outgoing@[i]@;
                        let keep = choose|keep: Seq<bool>| keep.len() == s0.len()
                            && (forall|k: int| 0 <= k < keep.len() ==> #[trigger] keep[k] == (s0[k].1 != id)) && self.outgoing@[i]@ == filter_by(s0, keep);
                        Self::lemma_retained_has_no_id(s0, keep, id, n);
                        if sorted_by_nbr(s0) { Self::lemma_retained_stays_sorted(s0, keep); }
                        assert(self.outgoing@[i]@ == filter_by(s0, keep));
                        assert(buf(self.outgoing@, i).to_multiset().count((n, id)) == 0);
                    } else {
                        // an entry of edge id in another node's buffer would have dangled before
                        assert(buf(self.outgoing@, i) == buf(old(self).outgoing@, i));
                        if buf(old(self).outgoing@, i).to_multiset().count((n, id)) > 0 {
                            assert(old(self).out_all(i).count((n, id)) > 0);
                            assert(old(self).edge_endpoints@[id.0 as int] == (NodeId(i as u64), n));
                            assert(edge.source == NodeId(i as u64));
                            axiom_vec_len(&self.outgoing);
                            assert((i as u64) as int == i);
                            assert(false);
                        }
                        assert(buf(self.outgoing@, i).to_multiset().count((n, id)) == 0);
                    }
                } else {
                    assert(buf(self.outgoing@, i) =~= Seq::<Entry>::empty());
                }
            }
            assert forall|i: int| 0 <= i < old(self).outgoing@.len() && sorted_by_nbr(old(self).outgoing@[i]@) implies sorted_by_nbr(#[trigger] self.outgoing@[i]@) by {
                if i == src {
                    let s0 = old(self).outgoing@[i]@;
                    let keep = choose|keep: Seq<bool>| keep.len() == s0.len()
                        && (forall|k: int| 0 <= k < keep.len() ==> #[trigger] keep[k] == (s0[k].1 != id)) && self.outgoing@[i]@ == filter_by(s0, keep);
                    Self::lemma_retained_stays_sorted(s0, keep);
                }
            }
            assert forall|i: int| 0 <= i < old(self).incoming@.len() && sorted_by_nbr(old(self).incoming@[i]@) implies sorted_by_nbr(#[trigger] self.incoming@[i]@) by {
                if i == tgt {
                    let s0 = old(self).incoming@[i]@;
                    let keep = choose|keep: Seq<bool>| keep.len() == s0.len()
                        && (forall|k: int| 0 <= k < keep.len() ==> #[trigger] keep[k] == (s0[k].1 != id)) && self.incoming@[i]@ == filter_by(s0, keep);
                    Self::lemma_retained_stays_sorted(s0, keep);
                }
            }
            assert forall|i: int, n: NodeId| (#[trigger] buf(self.incoming@, i).to_multiset().count((n, id))) == 0 by {
                if 0 <= i < self.incoming@.len() {
                    if i == tgt {
                        let s0 = old(self).incoming@[i]@;
                        let keep = choose|keep: Seq<bool>| keep.len() == s0.len()
                            && (forall|k: int| 0 <= k < keep.len() ==> #[trigger] keep[k] == (s0[k].1 != id)) && self.incoming@[i]@ == filter_by(s0, keep);
                        Self::lemma_retained_has_no_id(s0, keep, id, n);
                        if sorted_by_nbr(s0) { Self::lemma_retained_stays_sorted(s0, keep); }
                        assert(self.incoming@[i]@ == filter_by(s0, keep));
                    } else {
                        assert(buf(self.incoming@, i) == buf(old(self).incoming@, i));
                        if buf(old(self).incoming@, i).to_multiset().count((n, id)) > 0 {
                            assert(old(self).in_all(i).count((n, id)) > 0);
                            assert(old(self).edge_endpoints@[id.0 as int] == (n, NodeId(i as u64)));
                            assert(edge.target == NodeId(i as u64));
                            axiom_vec_len(&self.incoming);
                            assert((i as u64) as int == i);
                            assert(false);
                        }
                    }
                } else {
                    assert(buf(self.incoming@, i) =~= Seq::<Entry>::empty());
                }
            }
        }
//@end

    // ---- the allocation-free neighbour visitors ----
    /// edge_type_matches (the interned-type filter; assumed here): a function of the store, the edge id and the filter
    pub uninterp spec fn type_ok(&self, e: EdgeId, type_ids: Option<Seq<u16>>) -> bool;
    #[verifier::external_body]
    fn edge_type_matches(&self, edge_id: EdgeId, type_ids: Option<&[u16]>) -> (r: bool)
        ensures r == self.type_ok(edge_id, match type_ids { Some(t) => Some(t@), None => None })
    { unimplemented!() }
    /// the entries of a list whose edge passes the type filter, in order
    pub open spec fn passing(&self, es: Seq<Entry>, t: Option<Seq<u16>>) -> Seq<Entry>
        decreases es.len()
    {
        if es.len() == 0 { Seq::empty() } else if self.type_ok(es.last().1, t) { self.passing(es.drop_last(), t).push(es.last()) } else { self.passing(es.drop_last(), t) }
    }
    pub proof fn lemma_passing_concat(&self, a: Seq<Entry>, b: Seq<Entry>, t: Option<Seq<u16>>)
        ensures self.passing(a + b, t) == self.passing(a, t) + self.passing(b, t)
        decreases b.len()
    {
        if b.len() == 0 {
            assert(a + b =~= a);
            assert(self.passing(a, t) + Seq::<Entry>::empty() =~= self.passing(a, t));
        } else {
            assert((a + b).drop_last() =~= a + b.drop_last());
            assert((a + b).last() == b.last());
            self.lemma_passing_concat(a, b.drop_last(), t);
            if self.type_ok(b.last().1, t) {
                assert((self.passing(a, t) + self.passing(b.drop_last(), t)).push(b.last()) =~= self.passing(a, t) + self.passing(b.drop_last(), t).push(b.last()));
            }
        }
    }

//@fn GraphStore::for_each_outgoing_neighbor
//@replace "mut visit: impl FnMut(NodeId, EdgeId)" => "visit: &mut impl NbrVisitor" :: the FnMut visitor is taken by value and its effect lives in what it captured; passed by &mut as a trait with a ghost record of its calls
//@replaceall "visit(" => "visit.call(" :: same
//@requires
        self.adj_wf(), node_id.0 < usize::MAX,
//@ensures
        final(visit).seen() == old(visit).seen() + self.passing(self.frozen_outgoing.nbrs(node_id.0 as int) + buf(self.outgoing@, node_id.0 as int),
            match type_ids { Some(t) => Some(t@), None => None }),      //#shown_exactly_the_passing_entries_frozen_then_buffered
//@atstart
        broadcast use FrozenAdjacencyStore::lemma_all_nbrs_small;
        let ghost seen0 = visit.seen();
        let ghost tf: Option<Seq<u16>> = match type_ids { Some(t) => Some(t@), None => None };
        let ghost segs = self.frozen_outgoing.segments@;
        proof { assert(self.passing(Seq::<Entry>::empty(), tf) =~= Seq::<Entry>::empty()); assert(seen0 + Seq::<Entry>::empty() =~= seen0); }
//@loop 1 iter=its
            invariant
                self.adj_wf(), idx == node_id.0, node_id.0 < usize::MAX, segs == self.frozen_outgoing.segments@,
                tf == (match type_ids { Some(t) => Some(t@), None => None }), seen0 == old(visit).seen(),
                its.seq().len() == segs.len(), forall|k: int| 0 <= k < segs.len() ==> *(#[trigger] its.seq()[k]) == segs[k],
                visit.seen() == seen0 + self.passing(FrozenAdjacencyStore::all_nbrs(segs, its.index() as int, idx as int), tf),      //#segments_so_far
//@loop 2 iter=itn
                invariant
                    self.adj_wf(), idx == node_id.0, segs == self.frozen_outgoing.segments@, 0 <= si < segs.len(), *seg == segs[si], si == its.index(),
                    tf == (match type_ids { Some(t) => Some(t@), None => None }), seen0 == old(visit).seen(),
                    itn.seq().len() == segs[si].nbrs(idx as int).len(), forall|k: int| 0 <= k < itn.seq().len() ==> *(#[trigger] itn.seq()[k]) == segs[si].nbrs(idx as int)[k],
                    visit.seen() == seen0 + self.passing(FrozenAdjacencyStore::all_nbrs(segs, si, idx as int), tf) + self.passing(segs[si].nbrs(idx as int).take(itn.index() as int), tf),      //#entries_of_this_segment_so_far
//@loop 3 iter=itb
                invariant
                    idx == node_id.0, entries@ == buf(self.outgoing@, idx as int),
                    tf == (match type_ids { Some(t) => Some(t@), None => None }), seen0 == old(visit).seen(),
                    itb.seq().len() == entries@.len(), forall|k: int| 0 <= k < entries@.len() ==> *(#[trigger] itb.seq()[k]) == entries@[k],
                    visit.seen() == seen0 + self.passing(self.frozen_outgoing.nbrs(idx as int), tf) + self.passing(entries@.take(itb.index() as int), tf),      //#buffered_entries_so_far
//@loopstart 1
            let ghost si = its.index() as int;
            proof {
                assert(*seg == segs[si]);
                assert(segs[si].nbrs(idx as int).take(0) =~= Seq::<Entry>::empty());
                assert(self.passing(Seq::<Entry>::empty(), tf) =~= Seq::<Entry>::empty());
                assert(visit.seen() + Seq::<Entry>::empty() =~= visit.seen());
            }
//@loopstart 2
                proof {
                    let sn = segs[si].nbrs(idx as int);
                    let j = itn.index() as int;
                    assert(sn.take(j + 1).drop_last() =~= sn.take(j));
                    assert(sn.take(j + 1).last() == sn[j]);
                    let pre = seen0 + self.passing(FrozenAdjacencyStore::all_nbrs(segs, si, idx as int), tf);
                    assert((pre + self.passing(sn.take(j), tf)).push(sn[j]) =~= pre + self.passing(sn.take(j), tf).push(sn[j]));
                }
//@loopstart 3
                proof {
                    let j = itb.index() as int;
                    assert(entries@.take(j + 1).drop_last() =~= entries@.take(j));
                    assert(entries@.take(j + 1).last() == entries@[j]);
                    let pre = seen0 + self.passing(self.frozen_outgoing.nbrs(idx as int), tf);
                    assert((pre + self.passing(entries@.take(j), tf)).push(entries@[j]) =~= pre + self.passing(entries@.take(j), tf).push(entries@[j]));
                }
//@afterloop 2
            proof {
                let sn = segs[si].nbrs(idx as int);
                assert(sn.take(sn.len() as int) =~= sn);
                self.lemma_passing_concat(FrozenAdjacencyStore::all_nbrs(segs, si, idx as int), sn, tf);
            }
//@before "if let Some(entries) = self.outgoing.get(idx) {"
        proof {
            assert(self.passing(Seq::<Entry>::empty(), tf) =~= Seq::<Entry>::empty());
            assert(visit.seen() + Seq::<Entry>::empty() =~= visit.seen());
        }
//@afterloop 3
            proof { assert(entries@.take(entries@.len() as int) =~= entries@); }
//@atend
        proof {
            self.lemma_passing_concat(self.frozen_outgoing.nbrs(idx as int), buf(self.outgoing@, idx as int), tf);
            assert(self.passing(Seq::<Entry>::empty(), tf) =~= Seq::<Entry>::empty());
            assert(visit.seen() + Seq::<Entry>::empty() =~= visit.seen());
        }
//@end

//@fn GraphStore::for_each_incoming_neighbor
//@replace "mut visit: impl FnMut(NodeId, EdgeId)" => "visit: &mut impl NbrVisitor" :: the FnMut visitor is taken by value and its effect lives in what it captured; passed by &mut as a trait with a ghost record of its calls
//@replaceall "visit(" => "visit.call(" :: same
//@requires
        self.adj_wf(), node_id.0 < usize::MAX,
//@ensures
        final(visit).seen() == old(visit).seen() + self.passing(self.frozen_incoming.nbrs(node_id.0 as int) + buf(self.incoming@, node_id.0 as int),
            match type_ids { Some(t) => Some(t@), None => None }),      //#shown_exactly_the_passing_entries_frozen_then_buffered
//@atstart
        broadcast use FrozenAdjacencyStore::lemma_all_nbrs_small;
        let ghost seen0 = visit.seen();
        let ghost tf: Option<Seq<u16>> = match type_ids { Some(t) => Some(t@), None => None };
        let ghost segs = self.frozen_incoming.segments@;
        proof { assert(self.passing(Seq::<Entry>::empty(), tf) =~= Seq::<Entry>::empty()); assert(seen0 + Seq::<Entry>::empty() =~= seen0); }
//@loop 1 iter=its
            invariant
                self.adj_wf(), idx == node_id.0, node_id.0 < usize::MAX, segs == self.frozen_incoming.segments@,
                tf == (match type_ids { Some(t) => Some(t@), None => None }), seen0 == old(visit).seen(),
                its.seq().len() == segs.len(), forall|k: int| 0 <= k < segs.len() ==> *(#[trigger] its.seq()[k]) == segs[k],
                visit.seen() == seen0 + self.passing(FrozenAdjacencyStore::all_nbrs(segs, its.index() as int, idx as int), tf),      //#segments_so_far
//@loop 2 iter=itn
                invariant
                    self.adj_wf(), idx == node_id.0, segs == self.frozen_incoming.segments@, 0 <= si < segs.len(), *seg == segs[si], si == its.index(),
                    tf == (match type_ids { Some(t) => Some(t@), None => None }), seen0 == old(visit).seen(),
                    itn.seq().len() == segs[si].nbrs(idx as int).len(), forall|k: int| 0 <= k < itn.seq().len() ==> *(#[trigger] itn.seq()[k]) == segs[si].nbrs(idx as int)[k],
                    visit.seen() == seen0 + self.passing(FrozenAdjacencyStore::all_nbrs(segs, si, idx as int), tf) + self.passing(segs[si].nbrs(idx as int).take(itn.index() as int), tf),      //#entries_of_this_segment_so_far
//@loop 3 iter=itb
                invariant
                    idx == node_id.0, entries@ == buf(self.incoming@, idx as int),
                    tf == (match type_ids { Some(t) => Some(t@), None => None }), seen0 == old(visit).seen(),
                    itb.seq().len() == entries@.len(), forall|k: int| 0 <= k < entries@.len() ==> *(#[trigger] itb.seq()[k]) == entries@[k],
                    visit.seen() == seen0 + self.passing(self.frozen_incoming.nbrs(idx as int), tf) + self.passing(entries@.take(itb.index() as int), tf),      //#buffered_entries_so_far
//@loopstart 1
            let ghost si = its.index() as int;
            proof {
                assert(*seg == segs[si]);
                assert(segs[si].nbrs(idx as int).take(0) =~= Seq::<Entry>::empty());
                assert(self.passing(Seq::<Entry>::empty(), tf) =~= Seq::<Entry>::empty());
                assert(visit.seen() + Seq::<Entry>::empty() =~= visit.seen());
            }
//@loopstart 2
                proof {
                    let sn = segs[si].nbrs(idx as int);
                    let j = itn.index() as int;
                    assert(sn.take(j + 1).drop_last() =~= sn.take(j));
                    assert(sn.take(j + 1).last() == sn[j]);
                    let pre = seen0 + self.passing(FrozenAdjacencyStore::all_nbrs(segs, si, idx as int), tf);
                    assert((pre + self.passing(sn.take(j), tf)).push(sn[j]) =~= pre + self.passing(sn.take(j), tf).push(sn[j]));
                }
//@loopstart 3
                proof {
                    let j = itb.index() as int;
                    assert(entries@.take(j + 1).drop_last() =~= entries@.take(j));
                    assert(entries@.take(j + 1).last() == entries@[j]);
                    let pre = seen0 + self.passing(self.frozen_incoming.nbrs(idx as int), tf);
                    assert((pre + self.passing(entries@.take(j), tf)).push(entries@[j]) =~= pre + self.passing(entries@.take(j), tf).push(entries@[j]));
                }
//@afterloop 2
            proof {
                let sn = segs[si].nbrs(idx as int);
                assert(sn.take(sn.len() as int) =~= sn);
                self.lemma_passing_concat(FrozenAdjacencyStore::all_nbrs(segs, si, idx as int), sn, tf);
            }
//@before "if let Some(entries) = self.incoming.get(idx) {"
        proof {
            assert(self.passing(Seq::<Entry>::empty(), tf) =~= Seq::<Entry>::empty());
            assert(visit.seen() + Seq::<Entry>::empty() =~= visit.seen());
        }
//@afterloop 3
            proof { assert(entries@.take(entries@.len() as int) =~= entries@); }
//@atend
        proof {
            self.lemma_passing_concat(self.frozen_incoming.nbrs(idx as int), buf(self.incoming@, idx as int), tf);
            assert(self.passing(Seq::<Entry>::empty(), tf) =~= Seq::<Entry>::empty());
            assert(visit.seen() + Seq::<Entry>::empty() =~= visit.seen());
        }
//@end
}
/// the consumer of the neighbour visitors (the real parameter is an FnMut closure taken by value; see the //@replace lines)
pub trait NbrVisitor {
    spec fn seen(&self) -> Seq<Entry>;
    fn call(&mut self, n: NodeId, e: EdgeId)
        ensures final(self).seen() == old(self).seen().push((n, e));
}
}
fn main(){}
