//@unit qcache
//@properties C03
//@source q src/query/mod.rs
//@rules D2 R1
#![feature(allocator_api)]
#![allow(unused_imports, unused_variables, unused_mut, dead_code)]
use vstd::prelude::*;
verus!{
//@include common/std_extra.rs

// =====================================================================
// prelude (assumed): the parsed query, the parser, the LRU cache and the hit/miss counters
// =====================================================================
/// the AST: only moved and cloned here
#[verifier::external_body]
pub struct Query { q: u8 }
impl Clone for Query {
    #[verifier::external_body]
    fn clone(&self) -> (r: Self) ensures r == *self { unimplemented!() }
}
/// Box<dyn std::error::Error>: only propagated
#[verifier::external_body]
pub struct BoxError { e: u8 }
/// lru::LruCache<String, Query> (A-EXT): a finite map with promotion on get and ARBITRARY eviction on put -- nothing
/// is assumed about which entries survive a put except that the cache never invents an entry
#[verifier::external_body]
#[verifier::reject_recursive_types(K)]
#[verifier::reject_recursive_types(V)]
pub struct LruCache<K, V> { c: u8, k: core::marker::PhantomData<(K, V)> }
/// keys are looked up by their text, whether given as &String or &str (lru's `K: Borrow<Q>`)
pub trait KeyText { spec fn text(&self) -> Seq<char>; }
impl KeyText for String { open spec fn text(&self) -> Seq<char> { self@ } }
impl KeyText for str { open spec fn text(&self) -> Seq<char> { self@ } }
impl LruCache<String, Query> {
    pub uninterp spec fn map(&self) -> Map<Seq<char>, Query>;
    #[verifier::external_body]
    pub fn get<Q: ?Sized + KeyText>(&mut self, k: &Q) -> (r: Option<&Query>)
        ensures
            final(self).map() == old(self).map(),
            r matches Some(q) ==> old(self).map().contains_key(k.text()) && *q == old(self).map()[k.text()],
            r is None ==> !old(self).map().contains_key(k.text()),
    { unimplemented!() }
    #[verifier::external_body]
    pub fn put(&mut self, k: String, v: Query) -> (r: Option<Query>)
        ensures
            forall|x: Seq<char>| final(self).map().contains_key(x) ==>
                (x == k@ && final(self).map()[x] == v) || (x != k@ && old(self).map().contains_key(x) && final(self).map()[x] == old(self).map()[x]),
    { unimplemented!() }
}
pub struct CacheStats { pub s: u8 }
impl CacheStats {
    #[verifier::external_body] pub fn record_hit(&self) { unimplemented!() }
    #[verifier::external_body] pub fn record_miss(&self) { unimplemented!() }
}
/// the pest parser (A-PARSE, assumed): a function of the text
#[verifier::external_body]
pub fn parse_query(s: &str) -> (r: Result<Query, BoxError>)
    ensures
        r matches Ok(q) ==> parse_spec(s@) == Some(q),
        r is Err ==> parse_spec(s@) is None,
{ unimplemented!() }
/// `s.split(P).filter(|w| !w.is_empty()).collect::<Vec<_>>().join(" ")` for a character predicate P (A-STD; the wrapper's
/// body is the original chain): the non-empty maximal runs of characters not satisfying P, joined by single spaces.
/// P must be the grammar's white space: that is an OBLIGATION on the closure (its annotated ensures), not an assumption.
#[verifier::external_body]
pub fn split_filter_join<P: FnMut(char) -> bool, F: FnMut(&&str) -> bool>(s: &str, p: P, f: F) -> (r: String)
    requires
        forall|c: char| p.requires((c,)), forall|w: &&str| f.requires((w,)),
        forall|c: char, b: bool| p.ensures((c,), b) ==> b == is_ws(c),                 // the split predicate is exactly the grammar's white space
        forall|w: &&str, b: bool| f.ensures((w,), b) ==> b == (w@.len() > 0),         // the filter keeps exactly the non-empty pieces
    ensures r@ == join_sp(words(s@))
{ s.split(p).filter(f).collect::<Vec<_>>().join(" ") }
/// the pre-fix form `s.split_whitespace().collect::<Vec<_>>().join(" ")` splits on Unicode White_Space, which is MORE than
/// the grammar skips: its result is not known to be the words of the text (kept so that the older code stays decidable)
#[verifier::external_body]
pub fn normalize_unicode_ws(s: &str) -> (r: String)
{ s.split_whitespace().collect::<Vec<_>>().join(" ") }
pub open spec fn pred_hits<F: FnMut(char) -> bool>(p: F, s: Seq<char>, hit: Seq<bool>) -> bool {
    hit.len() == s.len() && forall|i: int| #![trigger s[i]] #![trigger hit[i]] 0 <= i < hit.len() ==> p.ensures((s[i],), hit[i])
}
pub open spec fn any_hit(hit: Seq<bool>) -> bool { exists|i: int| 0 <= i < hit.len() && #[trigger] hit[i] }
/// `s.contains(p)` for a character predicate (A-STD; wrapper body is the original expression)
#[verifier::external_body]
pub fn str_contains_pred<F: FnMut(char) -> bool>(s: &str, p: F) -> (r: bool)
    requires forall|c: char| p.requires((c,))
    ensures exists|hit: Seq<bool>| #[trigger] pred_hits(p, s@, hit) && r == any_hit(hit)
{ s.contains(p) }

// =====================================================================
// specification: what a cache key may identify
// =====================================================================
/// white space as the grammar's WHITESPACE rule has it (cypher.pest): space, tab, CR, LF -- NOT Unicode White_Space
/// (a vertical tab between two words is a syntax error, so it must not be normalised away)
pub open spec fn is_ws(c: char) -> bool { c == ' ' || c == '\t' || c == '\r' || c == '\n' }
pub proof fn axiom_ws()
    ensures is_ws(' '), !is_ws('\''), !is_ws('"'), !is_ws('/')
{}
/// the words of a text: maximal runs of non-white-space characters, in order (what
/// `split(is_ws).filter(non-empty)` yields; ASSUMED of std, stated through the three facts the proof uses)
pub uninterp spec fn words(s: Seq<char>) -> Seq<Seq<char>>;
#[verifier::external_body]
pub proof fn axiom_words(s: Seq<char>)
    ensures
        forall|i: int| 0 <= i < words(s).len() ==> (#[trigger] words(s)[i]).len() > 0,
        forall|i: int, j: int| 0 <= i < words(s).len() && 0 <= j < words(s)[i].len() ==> !is_ws(#[trigger] words(s)[i][j]),
        forall|i: int, j: int| 0 <= i < words(s).len() && 0 <= j < words(s)[i].len() ==> s.contains(#[trigger] words(s)[i][j]),
{}
/// `ws.join(" ")`
pub open spec fn join_sp(ws: Seq<Seq<char>>) -> Seq<char>
    decreases ws.len()
{
    if ws.len() == 0 { Seq::empty() }
    else if ws.len() == 1 { ws[0] }
    else { ws[0] + seq![' '] + join_sp(ws.skip(1)) }
}
/// a text without string literals and comments: no quote and no slash anywhere
pub open spec fn plain(s: Seq<char>) -> bool { forall|i: int| 0 <= i < s.len() ==> s[i] != '\'' && s[i] != '"' && s[i] != '/' }
/// texts the parser cannot tell apart: the same text, or two texts free of string literals and comments that consist
/// of the same words (A-PARSE: the grammar's implicit WHITESPACE between tokens; unchecked -- the pest parser is out of reach)
pub open spec fn lex_same(a: Seq<char>, b: Seq<char>) -> bool { a == b || (plain(a) && plain(b) && words(a) == words(b)) }
/// the meaning of a query text: its parse (None = rejected).  ASSUMED: parse_query is a function of the text that
/// respects lex_same.
pub uninterp spec fn parse_spec(s: Seq<char>) -> Option<Query>;
#[verifier::external_body]
pub proof fn axiom_parse_respects_lex(a: Seq<char>, b: Seq<char>)
    requires lex_same(a, b)
    ensures parse_spec(a) == parse_spec(b)
{}

/// joining words with single spaces loses nothing: equal joins come from equal word lists
pub proof fn lemma_join_injective(a: Seq<Seq<char>>, b: Seq<Seq<char>>)
    requires
        join_sp(a) == join_sp(b),
        forall|i: int| 0 <= i < a.len() ==> (#[trigger] a[i]).len() > 0, forall|i: int| 0 <= i < b.len() ==> (#[trigger] b[i]).len() > 0,
        forall|i: int, j: int| 0 <= i < a.len() && 0 <= j < a[i].len() ==> !is_ws(#[trigger] a[i][j]),
        forall|i: int, j: int| 0 <= i < b.len() && 0 <= j < b[i].len() ==> !is_ws(#[trigger] b[i][j]),
    ensures a == b
    decreases a.len()
{
    axiom_ws();
    if a.len() == 0 {
        if b.len() > 0 {
            assert(b[0].len() > 0);
            if b.len() == 1 { assert(join_sp(b) == b[0]); } else { assert(join_sp(b).len() >= b[0].len()); }
            assert(false);
        }
        assert(a =~= b);
    } else if b.len() == 0 {
        assert(a[0].len() > 0);
        if a.len() == 1 { assert(join_sp(a) == a[0]); } else { assert(join_sp(a).len() >= a[0].len()); }
        assert(false);
    } else {
        lemma_first_word(a); lemma_first_word(b);
        let ja = join_sp(a);
        // the first word is the prefix before the first space (or everything)
        let la = a[0].len(); let lb = b[0].len();
        if la < lb {
            // position la of the join is a space in a (or the end) but a word character in b
            if a.len() == 1 { assert(ja.len() == la); assert(join_sp(b).len() >= lb); assert(false); }
            else { assert(ja[la as int] == ' '); assert(join_sp(b)[la as int] == b[0][la as int]); assert(false); }
        } else if lb < la {
            if b.len() == 1 { assert(join_sp(b).len() == lb); assert(ja.len() >= la); assert(false); }
            else { assert(join_sp(b)[lb as int] == ' '); assert(ja[lb as int] == a[0][lb as int]); assert(false); }
        } else {
            assert(a[0] =~= b[0]) by {
                assert forall|k: int| 0 <= k < la implies a[0][k] == b[0][k] by { assert(ja[k] == a[0][k]); assert(join_sp(b)[k] == b[0][k]); }
            }
            if a.len() == 1 {
                if b.len() > 1 { assert(join_sp(b).len() > lb); assert(false); }
                assert(a =~= b);
            } else if b.len() == 1 {
                assert(ja.len() > la); assert(false);
            } else {
                assert(join_sp(a.skip(1)) =~= ja.skip(la as int + 1));
                assert(join_sp(b.skip(1)) =~= join_sp(b).skip(lb as int + 1));
                lemma_join_injective(a.skip(1), b.skip(1));
                assert(a =~= seq![a[0]] + a.skip(1));
                assert(b =~= seq![b[0]] + b.skip(1));
            }
        }
    }
}
/// shape of a non-empty join: the first word, then (if there are more) a space and the join of the rest
pub proof fn lemma_first_word(a: Seq<Seq<char>>)
    requires a.len() > 0
    ensures
        join_sp(a).len() >= a[0].len(),
        forall|k: int| 0 <= k < a[0].len() ==> join_sp(a)[k] == a[0][k],
        a.len() == 1 ==> join_sp(a).len() == a[0].len(),
        a.len() > 1 ==> join_sp(a).len() > a[0].len() && join_sp(a)[a[0].len() as int] == ' ',
{
}
/// joining words taken from a plain text gives a plain text
pub proof fn lemma_join_plain(s: Seq<char>, ws: Seq<Seq<char>>)
    requires plain(s), forall|i: int, j: int| 0 <= i < ws.len() && 0 <= j < ws[i].len() ==> s.contains(#[trigger] ws[i][j])
    ensures plain(join_sp(ws))
    decreases ws.len()
{
    if ws.len() == 0 {
    } else if ws.len() == 1 {
        assert forall|k: int| 0 <= k < ws[0].len() implies ws[0][k] != '\'' && ws[0][k] != '"' && ws[0][k] != '/' by {
            assert(s.contains(ws[0][k]));
        }
    } else {
        assert forall|i: int, j: int| 0 <= i < ws.skip(1).len() && 0 <= j < ws.skip(1)[i].len() implies s.contains(#[trigger] ws.skip(1)[i][j]) by {
            assert(ws.skip(1)[i] == ws[i + 1]);
            assert(s.contains(ws[i + 1][j]));
        }
        lemma_join_plain(s, ws.skip(1));
        let j = join_sp(ws);
        assert forall|k: int| 0 <= k < j.len() implies j[k] != '\'' && j[k] != '"' && j[k] != '/' by {
            if k < ws[0].len() { assert(j[k] == ws[0][k]); assert(s.contains(ws[0][k])); }
            else if k == ws[0].len() { assert(j[k] == ' '); }
            else { assert(j[k] == join_sp(ws.skip(1))[k - ws[0].len() - 1]); }
        }
    }
}

// =====================================================================
// the cache: QueryEngine::cached_parse
// =====================================================================
//@struct QueryEngine keep=ast_cache,stats erase

/// every entry answers for every text that can be looked up under its key
pub open spec fn key_spec(s: Seq<char>) -> Seq<char> { if plain(s) { join_sp(words(s)) } else { s } }
pub open spec fn cache_sound(m: Map<Seq<char>, Query>) -> bool {
    forall|k: Seq<char>, s: Seq<char>| m.contains_key(k) && #[trigger] key_spec(s) == k ==> parse_spec(s) == Some(#[trigger] m[k])
}
/// two texts with the same key are texts the parser cannot tell apart
pub proof fn lemma_key_sound(a: Seq<char>, b: Seq<char>)
    requires key_spec(a) == key_spec(b)
    ensures lex_same(a, b), parse_spec(a) == parse_spec(b)
{
    axiom_words(a); axiom_words(b);
    if plain(a) && plain(b) {
        lemma_join_injective(words(a), words(b));
    } else if plain(a) {
        lemma_join_plain(a, words(a));      // key(a) is plain, key(b) == b is not
    } else if plain(b) {
        lemma_join_plain(b, words(b));
    }
    axiom_parse_respects_lex(a, b);
}

impl QueryEngine {
//@fn QueryEngine::cached_parse selfmut ret=r
//@requires
        cache_sound(old(self).ast_cache.map()),
//@ensures
        cache_sound(final(self).ast_cache.map()),                        //#cache_stays_sound
        r matches Ok(q) ==> parse_spec(query_str@) == Some(q),           //#answers_as_a_fresh_parse
        r is Err ==> parse_spec(query_str@) is None,                     //#refuses_as_a_fresh_parse
//@replace "Box<dyn std::error::Error>" => "BoxError" :: dyn Error is outside Verus; the error value is only propagated (opaque stand-in)
//@replace? "query_str.split_whitespace().collect::<Vec<_>>().join(\" \")" => "normalize_unicode_ws(query_str)" :: (older form) iterator/str API without Verus specification; wrapper body is the original expression
//@replace "query_str<NL>                .split(" => "split_filter_join(query_str, " :: iterator/str API without Verus specification; wrapper body is the original chain
//@replace ")<NL>                .filter(" => ", " :: (same chain)
//@replace ")<NL>                .collect::<Vec<_>>()<NL>                .join(\" \")" => ")" :: (same chain)
//@closure split_filter_join#1 (c: char) -> (b: bool) ensures b == (@BODY)
//@closure split_filter_join#2 (w: &&str) -> (b: bool) ensures b == (w@.len() > 0)
//@replace "query_str.contains(" => "str_contains_pred(query_str, " :: str::contains(Pattern) has no Verus specification; wrapper body is the original expression
//@closure str_contains_pred#1 (c: char) -> (b: bool) ensures b == (@BODY)
//@name KEY "let (\w+) = if str_contains_pred\("
//@after "let @{KEY} = "
        proof {
            // obligation: the key the code computes is key_spec of the text (quote- and comment-free texts by their words,
            // any other text by itself)
            assert(@{KEY}@ == key_spec(query_str@));
        }
//@before "return Ok(cached.clone());"
                proof { lemma_key_sound(query_str@, query_str@); }
//@before "cache.put("
            proof {
                let k = key_spec(query_str@);
                assert forall|s: Seq<char>| key_spec(s) == k implies parse_spec(s) == Some(query) by {
                    lemma_key_sound(s, query_str@);
                }
            }
//@end
}
}
fn main(){}
