//@unit propval_lemmas
//@properties C10
// Pure mathematics (no code extracted): the composition step (L) of the C10 argument.
// Kani proves, on the real code and over the full scalar domain,
//   (W) within one bucket the comparison is a total order / total preorder, and
//   (X) across buckets the comparison is the comparison of the bucket ranks.
// This lemma shows that (W) and (X) together make the whole comparison a total
// order (resp. total preorder), for any carrier, any rank function, any sizes.
use vstd::prelude::*;
verus!{
pub enum Ord3 { Less, Equal, Greater }
pub open spec fn rev(o: Ord3) -> Ord3 { match o { Ord3::Less => Ord3::Greater, Ord3::Equal => Ord3::Equal, Ord3::Greater => Ord3::Less } }
pub open spec fn le(o: Ord3) -> bool { o != Ord3::Greater }
pub open spec fn cmp_nat(a: nat, b: nat) -> Ord3 { if a < b { Ord3::Less } else if a == b { Ord3::Equal } else { Ord3::Greater } }

/// the laws Kani establishes per bucket (W): restricted to elements of equal rank
pub open spec fn within_bucket_laws<T>(cmp: spec_fn(T, T) -> Ord3, rank: spec_fn(T) -> nat) -> bool {
    &&& forall|a: T| #[trigger] cmp(a, a) == Ord3::Equal
    &&& forall|a: T, b: T| rank(a) == rank(b) ==> #[trigger] cmp(a, b) == rev(cmp(b, a))
    &&& forall|a: T, b: T, c: T| rank(a) == rank(b) && rank(b) == rank(c) && le(#[trigger] cmp(a, b)) && le(#[trigger] cmp(b, c))
            ==> le(cmp(a, c)) && ((cmp(a, b) == Ord3::Less || cmp(b, c) == Ord3::Less) ==> cmp(a, c) == Ord3::Less)
}
/// what Kani establishes across buckets (X)
pub open spec fn cross_bucket_law<T>(cmp: spec_fn(T, T) -> Ord3, rank: spec_fn(T) -> nat) -> bool {
    forall|a: T, b: T| rank(a) != rank(b) ==> #[trigger] cmp(a, b) == cmp_nat(rank(a), rank(b))
}
/// (L) the whole comparison is reflexive, antisymmetric and transitive
pub proof fn lemma_rank_then_within_is_total<T>(cmp: spec_fn(T, T) -> Ord3, rank: spec_fn(T) -> nat)
    requires within_bucket_laws(cmp, rank), cross_bucket_law(cmp, rank)
    ensures
        forall|a: T| #[trigger] cmp(a, a) == Ord3::Equal,
        forall|a: T, b: T| #[trigger] cmp(a, b) == rev(cmp(b, a)),
        forall|a: T, b: T, c: T| le(#[trigger] cmp(a, b)) && le(#[trigger] cmp(b, c))
            ==> le(cmp(a, c)) && ((cmp(a, b) == Ord3::Less || cmp(b, c) == Ord3::Less) ==> cmp(a, c) == Ord3::Less),
{
    assert forall|a: T, b: T| #[trigger] cmp(a, b) == rev(cmp(b, a)) by {
        if rank(a) != rank(b) { assert(cmp(b, a) == cmp_nat(rank(b), rank(a))); }
    }
    assert forall|a: T, b: T, c: T| le(#[trigger] cmp(a, b)) && le(#[trigger] cmp(b, c))
        implies le(cmp(a, c)) && ((cmp(a, b) == Ord3::Less || cmp(b, c) == Ord3::Less) ==> cmp(a, c) == Ord3::Less) by {
        // le(cmp(a,b)) gives rank(a) <= rank(b) in either case
        if rank(a) != rank(b) { assert(cmp(a, b) == cmp_nat(rank(a), rank(b))); }
        if rank(b) != rank(c) { assert(cmp(b, c) == cmp_nat(rank(b), rank(c))); }
        if rank(a) != rank(c) { assert(cmp(a, c) == cmp_nat(rank(a), rank(c))); }
    }
}
/// consequence used by sorting and index lookups: equal-under-cmp is an equivalence and
/// `Less` is a strict order on its classes, so results never depend on insertion order
pub proof fn lemma_equal_is_equivalence<T>(cmp: spec_fn(T, T) -> Ord3, rank: spec_fn(T) -> nat, a: T, b: T, c: T)
    requires within_bucket_laws(cmp, rank), cross_bucket_law(cmp, rank), cmp(a, b) == Ord3::Equal, cmp(b, c) == Ord3::Equal
    ensures cmp(a, c) == Ord3::Equal, cmp(b, a) == Ord3::Equal
{
    lemma_rank_then_within_is_total(cmp, rank);
    assert(le(cmp(a, b)) && le(cmp(b, c)));
    assert(cmp(c, b) == rev(cmp(b, c)));
    assert(cmp(b, a) == rev(cmp(a, b)));
    assert(le(cmp(c, b)) && le(cmp(b, a)));
    assert(le(cmp(c, a)));
    assert(cmp(a, c) == rev(cmp(c, a)));
}
} // verus!
fn main() {}
