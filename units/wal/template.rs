//@unit wal
//@properties C15
//@source wal src/persistence/wal.rs
//@rules D2
#![feature(allocator_api)]
#![allow(unused_imports, unused_variables, unused_mut, dead_code)]
use vstd::prelude::*;
use vstd::std_specs::convert::FromSpec;
// `format!` with a `{:016x}` argument (A-STD, assumed): vstd has no LowerHex model.  This macro_rules shadows std's
// macro inside the unit and routes the SAME arguments, unchanged, to a stand-in whose result is an uninterpreted
// function of the format string and the argument.
macro_rules! format {
    ($fmt:literal, $a:expr) => { vx_format1($fmt, $a) };
}
verus!{
global size_of usize == 8;
//@include common/std_extra.rs

// =====================================================================
// prelude: the file system, bincode and the clock as external subsystems under ASSUMED contracts (A-EXT, A-FS)
// =====================================================================
#[derive(PartialEq, Eq, Structural, Clone, Copy)]
pub enum IoErrorKind { UnexpectedEof, NotFound, Other }
/// std::io::Error as far as the log looks at it: its kind, and (ghost) whether it is a failure of the
/// ENVIRONMENT (device, permissions, ...) rather than a consequence of what the file contains
pub struct IoError { pub k: IoErrorKind, pub env: Ghost<bool> }
impl IoError {
    pub fn kind(&self) -> (r: IoErrorKind) ensures r == self.k { self.k }
}
pub mod io {
    pub use super::IoErrorKind as ErrorKind;
    pub use super::IoError as Error;
}
pub mod bincode {
    use super::*;
    pub struct Error { pub x: u8 }
    /// bincode as a pair of uninterpreted functions: `ser` (total where `ser_ok`), `deser` its left inverse
    pub uninterp spec fn ser<T>(x: T) -> Seq<u8>;
    pub uninterp spec fn ser_ok<T>(x: T) -> bool;
    pub uninterp spec fn deser<T>(b: Seq<u8>) -> Option<T>;
    #[verifier::external_body]
    pub fn serialize<T>(p: &T) -> (r: Result<Vec<u8>, Error>)
        ensures r is Ok <==> ser_ok(*p), r matches Ok(v) ==> v@ == ser(*p)
    { unimplemented!() }
    #[verifier::external_body]
    pub fn deserialize<T>(b: &[u8]) -> (r: Result<T, Error>)
        ensures r matches Ok(x) ==> deser::<T>(b@) == Some(x), r is Err ==> deser::<T>(b@) is None
    { unimplemented!() }
    /// what was written is read back (A-BINCODE)
    #[verifier::external_body]
    pub proof fn axiom_roundtrip<T>(x: T)
        requires ser_ok(x)
        ensures deser::<T>(ser(x)) == Some(x)
    {}
}
/// Result<Vec<u8>, E>::unwrap_or_default (std; assumed): the value, or the empty vector
pub assume_specification<T: Default, E>[Result::<T, E>::unwrap_or_default](r: Result<T, E>) -> (o: T)
    ensures r matches Ok(v) ==> o == v, r is Err ==> call_ensures(T::default, (), o);

/// little-endian value of four bytes
pub open spec fn le4(b: Seq<u8>) -> nat
    recommends b.len() == 4
{ (b[0] as nat) + 256 * (b[1] as nat) + 65536 * (b[2] as nat) + 16777216 * (b[3] as nat) }
/// u32::from_le_bytes (std; assumed; its array length is an anonymous constant Verus cannot name, hence the wrapper)
#[verifier::external_body]
pub fn u32_from_le_bytes(b: [u8; 4]) -> (r: u32)
    ensures r as nat == le4(b@)
{ u32::from_le_bytes(b) }
/// the four bytes to_le_bytes gives
pub uninterp spec fn le4_bytes(x: u32) -> Seq<u8>;
#[verifier::external_body]
pub proof fn axiom_le4_bytes(x: u32) ensures le4_bytes(x).len() == 4, le4(le4_bytes(x)) == x as nat {}
#[verifier::external_body]
pub fn u32_to_le_bytes(x: u32) -> (r: [u8; 4])
    ensures r@ == le4_bytes(x)
{ x.to_le_bytes() }

/// a path is determined by its text; joining is a function of both texts
#[verifier::external_body]
pub struct PathBuf { p: std::path::PathBuf }
impl PathBuf {
    pub uninterp spec fn joined(self, name: Seq<char>) -> PathBuf;
    #[verifier::external_body]
    pub fn join(&self, name: String) -> (r: PathBuf) ensures r == self.joined(name@) { unimplemented!() }
}
/// std::path::Path (only ever behind a reference): the borrowed form of a PathBuf
#[verifier::external_body]
pub struct Path { p: u8 }
impl Path {
    pub uninterp spec fn buf(&self) -> PathBuf;
    #[verifier::external_body]
    pub fn to_path_buf(&self) -> (r: PathBuf) ensures r == self.buf() { unimplemented!() }
}
impl std::ops::Deref for PathBuf {
    type Target = Path;
    #[verifier::external_body]
    fn deref(&self) -> (r: &Path) ensures r.buf() == *self { unimplemented!() }
}
/// what File::open accepts (std: AsRef<Path>)
pub trait PathLike { spec fn as_buf(&self) -> PathBuf; }
impl PathLike for PathBuf { open spec fn as_buf(&self) -> PathBuf { *self } }
impl PathLike for Path { open spec fn as_buf(&self) -> PathBuf { self.buf() } }
/// the content of the file at a path, as the running process finds it (the WORLD; not changed by reading)
pub uninterp spec fn fs_content(p: PathBuf) -> Seq<u8>;
pub uninterp spec fn render1(fmt: Seq<char>, a: u64) -> Seq<char>;
#[verifier::external_body]
pub fn vx_format1(fmt: &str, a: u64) -> (r: String) ensures r@ == render1(fmt@, a) { unimplemented!() }

/// an open file: the bytes it holds
pub struct File { pub content: Ghost<Seq<u8>> }
impl File {
    /// File::open (assumed): the file's bytes as the world has them; fails only for environmental reasons
    #[verifier::external_body]
    pub fn open<P: PathLike>(p: &P) -> (r: Result<File, io::Error>)
        ensures r matches Ok(f) ==> f.content@ == fs_content(p.as_buf()), r matches Err(e) ==> e.env@
    { unimplemented!() }
}
/// OpenOptions::new().create(true).append(true).open(p) (assumed): the existing bytes, or none; writes go to the end
pub struct OpenOptions { pub c: bool, pub a: bool }
impl OpenOptions {
    pub fn new() -> (r: OpenOptions) ensures !r.c, !r.a { OpenOptions { c: false, a: false } }
    pub fn create(self, b: bool) -> (r: OpenOptions) ensures r.c == b, r.a == self.a { OpenOptions { c: b, a: self.a } }
    pub fn append(self, b: bool) -> (r: OpenOptions) ensures r.a == b, r.c == self.c { OpenOptions { c: self.c, a: b } }
    #[verifier::external_body]
    pub fn open(self, p: PathBuf) -> (r: Result<File, io::Error>)
        ensures r matches Ok(f) ==> (self.a ==> f.content@ == fs_content(p)), r matches Err(e) ==> e.env@
    { unimplemented!() }
}
/// BufWriter<File> (assumed): what has been written through it so far, after what the file held when opened.
/// write_all either appends all the bytes or fails for an environmental reason having appended a prefix of them.
pub struct BufWriter<W> { pub bytes: Ghost<Seq<u8>>, pub w: W }
impl BufWriter<File> {
    #[verifier::external_body]
    pub fn new(f: File) -> (r: BufWriter<File>) ensures r.bytes@ == f.content@ { unimplemented!() }
    #[verifier::external_body]
    pub fn write_all(&mut self, b: &[u8]) -> (r: Result<(), io::Error>)
        ensures
            r is Ok ==> final(self).bytes@ == old(self).bytes@ + b@,
            r matches Err(e) ==> e.env@ && exists|k: int| 0 <= k <= b@.len() && final(self).bytes@ == old(self).bytes@ + b@.take(k),
    { unimplemented!() }
    #[verifier::external_body]
    pub fn flush(&mut self) -> (r: Result<(), io::Error>)
        ensures final(self).bytes@ == old(self).bytes@, r matches Err(e) ==> e.env@
    { unimplemented!() }
}
/// the two things replay fills from the file
pub trait ReadTarget {
    spec fn cap(&self) -> nat;
    spec fn data(&self) -> Seq<u8>;
}
impl ReadTarget for [u8; 4] {
    open spec fn cap(&self) -> nat { 4 }
    open spec fn data(&self) -> Seq<u8> { self@ }
}
impl ReadTarget for Vec<u8> {
    open spec fn cap(&self) -> nat { self@.len() }
    open spec fn data(&self) -> Seq<u8> { self@ }
}
/// BufReader<File> (assumed): a cursor over the file's bytes.  read_exact fills the whole target and advances, or
/// -- when fewer bytes are left than the target holds -- fails with UnexpectedEof (not an environmental failure);
/// any other failure is environmental.
pub struct BufReader<R> { pub all: Ghost<Seq<u8>>, pub pos: Ghost<nat>, pub r: R }
impl BufReader<File> {
    pub open spec fn rest(&self) -> Seq<u8> { self.all@.subrange(self.pos@ as int, self.all@.len() as int) }
    pub open spec fn wf(&self) -> bool { self.pos@ <= self.all@.len() }
    #[verifier::external_body]
    pub fn new(f: File) -> (r: BufReader<File>) ensures r.all@ == f.content@, r.pos@ == 0 { unimplemented!() }
    #[verifier::external_body]
    pub fn read_exact<T: ReadTarget>(&mut self, buf: &mut T) -> (r: Result<(), io::Error>)
        requires old(self).wf()
        ensures
            final(self).all@ == old(self).all@, final(self).wf(), final(buf).cap() == old(buf).cap(),
            r is Ok ==> old(self).pos@ + old(buf).cap() <= old(self).all@.len()
                && final(self).pos@ == old(self).pos@ + old(buf).cap()
                && final(buf).data() == old(self).all@.subrange(old(self).pos@ as int, (old(self).pos@ + old(buf).cap()) as int),
            r matches Err(e) ==> (e.k == io::ErrorKind::UnexpectedEof <==> !e.env@)
                && (!e.env@ ==> old(self).pos@ + old(buf).cap() > old(self).all@.len()),
    { unimplemented!() }
}
/// a directory as the process finds it: its entries (the WORLD; not changed by reading)
pub struct DirEntry { pub dir: Ghost<PathBuf>, pub name: Ghost<Seq<char>>, pub utf8: Ghost<bool> }
pub struct OsString { pub text: Ghost<Seq<char>>, pub utf8: Ghost<bool> }
impl OsString {
    #[verifier::external_body]
    pub fn to_str(&self) -> (r: Option<&str>)
        ensures r is Some <==> self.utf8@, r matches Some(t) ==> t@ == self.text@
    { unimplemented!() }
}
impl DirEntry {
    #[verifier::external_body]
    pub fn file_name(&self) -> (r: OsString) ensures r.text@ == self.name@, r.utf8@ == self.utf8@ { unimplemented!() }
    #[verifier::external_body]
    pub fn path(&self) -> (r: PathBuf) ensures r == self.dir@.joined(self.name@) { unimplemented!() }
}
pub uninterp spec fn dir_listing(p: PathBuf) -> Seq<DirEntry>;
pub struct ReadDir { pub entries: Ghost<Seq<DirEntry>> }
impl ReadDir {
    /// `.flatten()` on the iterator of io::Result<DirEntry> (assumed): the entries that could be read -- all of them
    #[verifier::external_body]
    pub fn flatten(self) -> (r: Vec<DirEntry>) ensures r@ == self.entries@ { unimplemented!() }
}
/// std::fs::read_dir (assumed): the listing; fails only when there is no such directory (then nothing is listed)
#[verifier::external_body]
pub fn fs_read_dir(p: &Path) -> (r: Result<ReadDir, io::Error>)
    ensures
        r matches Ok(d) ==> d.entries@ == dir_listing(p.buf()),
        r is Err ==> dir_listing(p.buf()).len() == 0,
        forall|i: int| 0 <= i < dir_listing(p.buf()).len() ==> (#[trigger] dir_listing(p.buf())[i]).dir@ == p.buf(),
{ unimplemented!() }
/// std::fs::create_dir_all (assumed): does not change what an existing directory lists
#[verifier::external_body]
pub fn fs_create_dir_all(p: &PathBuf) -> (r: Result<(), io::Error>)
    ensures r matches Err(e) ==> e.env@
{ unimplemented!() }

/// str::starts_with / ends_with / strip_prefix / strip_suffix with a &str pattern (std; assumed; the Pattern trait is
/// outside Verus, hence wrappers whose bodies are the same calls)
#[verifier::external_body]
pub fn str_starts_with(s: &str, p: &str) -> (r: bool)
    ensures r == (p@.len() <= s@.len() && s@.take(p@.len() as int) == p@)
{ s.starts_with(p) }
#[verifier::external_body]
pub fn str_ends_with(s: &str, p: &str) -> (r: bool)
    ensures r == (p@.len() <= s@.len() && s@.skip(s@.len() - p@.len()) == p@)
{ s.ends_with(p) }
#[verifier::external_body]
pub fn str_strip_prefix<'a>(s: &'a str, p: &str) -> (r: Option<&'a str>)
    ensures
        r is Some <==> (p@.len() <= s@.len() && s@.take(p@.len() as int) == p@),
        r matches Some(t) ==> t@ == s@.skip(p@.len() as int),
{ s.strip_prefix(p) }
#[verifier::external_body]
pub fn str_strip_suffix<'a>(s: &'a str, p: &str) -> (r: Option<&'a str>)
    ensures
        r is Some <==> (p@.len() <= s@.len() && s@.skip(s@.len() - p@.len()) == p@),
        r matches Some(t) ==> t@ == s@.take(s@.len() - p@.len()),
{ s.strip_suffix(p) }
/// u64::from_str_radix (std; assumed): a function of the text and the radix
pub uninterp spec fn radix_value(t: Seq<char>, radix: u32) -> Option<u64>;
#[verifier::external_type_specification]
#[verifier::external_body]
pub struct ExParseIntError(std::num::ParseIntError);
pub assume_specification[ u64::from_str_radix ](src: &str, radix: u32) -> (r: Result<u64, std::num::ParseIntError>)
    ensures r matches Ok(v) ==> radix_value(src@, radix) == Some(v), r is Err ==> radix_value(src@, radix) is None;

pub mod chrono {
    use super::*;
    pub struct DateTime { pub t: i64 }
    impl DateTime { #[verifier::external_body] pub fn timestamp(&self) -> i64 { unimplemented!() } }
    pub struct Utc;
    impl Utc { #[verifier::external_body] pub fn now() -> DateTime { unimplemented!() } }
}

// =====================================================================
// the log's own types, re-extracted
// =====================================================================
//@enum WalError from=wal
/// the conversions thiserror's #[from] derives (assumed): wrap the error in its variant
impl vstd::std_specs::convert::FromSpecImpl<io::Error> for WalError {
    open spec fn obeys_from_spec() -> bool { true }
    open spec fn from_spec(e: io::Error) -> Self { WalError::Io(e) }
}
impl From<io::Error> for WalError { #[verifier::external_body] fn from(e: io::Error) -> (r: Self) { unimplemented!() } }
impl vstd::std_specs::convert::FromSpecImpl<bincode::Error> for WalError {
    open spec fn obeys_from_spec() -> bool { true }
    open spec fn from_spec(e: bincode::Error) -> Self { WalError::Serialization(e) }
}
impl From<bincode::Error> for WalError { #[verifier::external_body] fn from(e: bincode::Error) -> (r: Self) { unimplemented!() } }
/// `expr?` on an Err(v) returns Err(From::from(v)) (Rust reference; vstd leaves the conversion of `?` between
/// different error types uninterpreted) -- ASSUMED (A-QMARK)
#[verifier::external_body]
pub broadcast proof fn axiom_question_mark<S: From<T>, T>(v: T, r: S)
    ensures #[trigger] vstd::std_specs::control_flow::spec_from::<S, T>(v, r) ==> (S::obeys_from_spec() ==> r == S::from_spec(v))
{}
//@item type WalResult from=wal
//@enum WalEntry from=wal
//@struct WalRecord from=wal
//@struct Wal from=wal

/// XOR of all bytes, as a 32-bit word
pub open spec fn xor_fold(b: Seq<u8>) -> u32
    decreases b.len()
{ if b.len() == 0 { 0u32 } else { xor_fold(b.drop_last()) ^ (b.last() as u32) } }
/// the checksum of an entry: the XOR of its serialised bytes (of no bytes when it cannot be serialised)
pub open spec fn ck(e: WalEntry) -> u32 { if bincode::ser_ok(e) { xor_fold(bincode::ser(e)) } else { 0u32 } }

/// `s.iter().fold(init, f)` (std; assumed): the chain of accumulator values the closure admits
#[verifier::external_body]
pub fn it_fold_raw<F: Fn(u32, &u8) -> u32>(s: &Vec<u8>, init: u32, f: F) -> (r: u32)
    requires forall|a: u32, i: int| 0 <= i < s@.len() ==> #[trigger] f.requires((a, &s@[i]))
    ensures exists|acc: Seq<u32>| #[trigger] fold_chain(s@, init, f, acc) && r == acc[s@.len() as int]
{ s.iter().fold(init, f) }
/// what the fold gives for a closure that XORs (VERIFIED from the chain contract above)
pub fn it_fold<F: Fn(u32, &u8) -> u32>(s: &Vec<u8>, init: u32, f: F) -> (r: u32)
    requires forall|a: u32, i: int| 0 <= i < s@.len() ==> #[trigger] f.requires((a, &s@[i]))
    ensures init == 0 && (forall|a: u32, b: &u8, o: u32| f.ensures((a, b), o) ==> o == a ^ (*b as u32)) ==> r == xor_fold(s@)
{
    let r = it_fold_raw(s, init, f);
    proof {
        if init == 0 && (forall|a: u32, b: &u8, o: u32| f.ensures((a, b), o) ==> o == a ^ (*b as u32)) {
            let acc = choose|acc: Seq<u32>| #[trigger] fold_chain(s@, init, f, acc) && r == acc[s@.len() as int];
            lemma_fold_is_xor(s@, f, acc, s@.len() as int);
            assert(s@.take(s@.len() as int) =~= s@);
        }
    }
    r
}
pub open spec fn fold_chain<F: Fn(u32, &u8) -> u32>(s: Seq<u8>, init: u32, f: F, acc: Seq<u32>) -> bool {
    &&& acc.len() == s.len() + 1
    &&& acc[0] == init
    &&& forall|i: int| 0 <= i < s.len() ==> f.ensures((#[trigger] acc[i], &s[i]), acc[i + 1])
}
/// XOR does not care about the order of its operands (bit-vector fact, so that the closure may be written either way round)
pub broadcast proof fn lemma_xor_comm(a: u32, b: u32)
    ensures #[trigger] (a ^ b) == b ^ a
{ assert(a ^ b == b ^ a) by (bit_vector); }
pub proof fn lemma_fold_is_xor<F: Fn(u32, &u8) -> u32>(s: Seq<u8>, f: F, acc: Seq<u32>, n: int)
    requires
        fold_chain(s, 0u32, f, acc), 0 <= n <= s.len(),
        forall|a: u32, b: &u8, o: u32| f.ensures((a, b), o) ==> o == a ^ (*b as u32),
    ensures acc[n] == xor_fold(s.take(n))
    decreases n
{
    if n == 0 {
        assert(s.take(0).len() == 0);
    } else {
        lemma_fold_is_xor(s, f, acc, n - 1);
        assert(s.take(n).drop_last() =~= s.take(n - 1));
        assert(s.take(n).last() == s[n - 1]);
        assert(f.ensures((acc[n - 1], &s[n - 1]), acc[n]));
    }
}

impl WalRecord {
    /// the integrity check replay applies to a record
    pub open spec fn intact(self) -> bool { self.checksum == ck(self.entry) }

//@fn WalRecord::calculate_checksum from=wal ret=r props=C15
//@ensures
        r == ck(self.entry),      //#xor_of_the_entry_bytes
//@replace "bytes.iter().fold(0u32, " => "it_fold(&bytes, 0u32, " :: provided Iterator method: routed through a wrapper whose body is the same expression
//@closure it_fold#1 (acc: u32, b__r: &u8) -> (o: u32) ensures o == (@BODY)
//@atstart
        broadcast use lemma_xor_comm;
//@end

//@fn WalRecord::new from=wal ret=r props=C15
//@ensures
        r.sequence == sequence, r.entry == entry,      //#fields_as_given
        r.intact(),      //#new_record_passes_its_check
//@end

//@fn WalRecord::verify_checksum from=wal ret=r props=C15
//@ensures
        r == self.intact(),      //#accepts_exactly_intact_records
//@end
}

// =====================================================================
// the meaning of a segment file (taken from the property statement): frames `len:u32le ++ bincode(record)`;
// fewer bytes than a frame needs is the END of the log (a record torn by a crash), a frame that does not decode
// or fails its check is an error and nothing after it is delivered
// =====================================================================
pub enum End { Clean, Corrupt(u64), Bad }
pub open spec fn parse(b: Seq<u8>) -> (Seq<WalRecord>, End)
    decreases b.len()
{
    if b.len() < 4 { (Seq::empty(), End::Clean) }
    else {
        let n = le4(b.subrange(0, 4));
        if b.len() < 4 + n { (Seq::empty(), End::Clean) }
        else {
            match bincode::deser::<WalRecord>(b.subrange(4, 4 + n as int)) {
                None => (Seq::empty(), End::Bad),
                Some(r) => if !r.intact() { (Seq::empty(), End::Corrupt(r.sequence)) } else {
                    let t = parse(b.subrange(4 + n as int, b.len() as int));
                    (seq![r] + t.0, t.1)
                },
            }
        }
    }
}
/// the entries of the records replay must hand over: those at or after `from`
pub open spec fn wanted(rs: Seq<WalRecord>, from: u64) -> Seq<WalEntry>
    decreases rs.len()
{
    if rs.len() == 0 { Seq::empty() }
    else if rs[0].sequence < from { wanted(rs.skip(1), from) }
    else { seq![rs[0].entry] + wanted(rs.skip(1), from) }
}
/// the sequence number replay reports: that of the last record handed over, or `start`
pub open spec fn last_seq(rs: Seq<WalRecord>, from: u64, start: u64) -> u64
    decreases rs.len()
{
    if rs.len() == 0 { start }
    else if rs[0].sequence < from { last_seq(rs.skip(1), from, start) }
    else { last_seq(rs.skip(1), from, rs[0].sequence) }
}
/// replaying the segments in order: what is handed over, the last sequence, and why it stopped early if it did
pub open spec fn run(cs: Seq<Seq<u8>>, from: u64, start: u64) -> (Seq<WalEntry>, u64, Option<End>)
    decreases cs.len()
{
    if cs.len() == 0 { (Seq::empty(), start, None) }
    else {
        let p = parse(cs[0]);
        let d = wanted(p.0, from);
        let l = last_seq(p.0, from, start);
        if p.1 != End::Clean { (d, l, Some(p.1)) }
        else { let t = run(cs.skip(1), from, l); (d + t.0, t.1, t.2) }
    }
}
pub open spec fn contents(ps: Seq<PathBuf>) -> Seq<Seq<u8>> { ps.map_values(|p: PathBuf| fs_content(p)) }

/// the consumer of replayed entries (the real parameter is an FnMut closure taken by value, whose effect is only
/// visible in what it captured; see the //@replace lines of replay)
pub trait WalSink {
    spec fn seen(&self) -> Seq<WalEntry>;
    spec fn failed(&self) -> bool;
    fn call(&mut self, e: &WalEntry) -> (r: WalResult<()>)
        ensures
            r is Ok ==> final(self).seen() == old(self).seen().push(*e) && final(self).failed() == old(self).failed(),
            r is Err ==> final(self).seen() == old(self).seen() && final(self).failed();
}

pub proof fn lemma_wanted_push(rs: Seq<WalRecord>, r: WalRecord, from: u64, start: u64)
    ensures
        wanted(rs.push(r), from) == if r.sequence < from { wanted(rs, from) } else { wanted(rs, from).push(r.entry) },
        last_seq(rs.push(r), from, start) == if r.sequence < from { last_seq(rs, from, start) } else { r.sequence },
    decreases rs.len()
{
    if rs.len() == 0 {
        assert(rs.push(r).skip(1) =~= Seq::<WalRecord>::empty());
        assert(rs.push(r)[0] == r);
        assert(last_seq(Seq::<WalRecord>::empty(), from, r.sequence) == r.sequence);
        assert(last_seq(Seq::<WalRecord>::empty(), from, start) == start);
        assert(last_seq(rs.push(r).skip(1), from, r.sequence) == r.sequence);
        assert(wanted(Seq::<WalRecord>::empty(), from) =~= Seq::<WalEntry>::empty());
        assert(seq![r.entry] + Seq::<WalEntry>::empty() =~= Seq::<WalEntry>::empty().push(r.entry));
    } else {
        assert(rs.push(r).skip(1) =~= rs.skip(1).push(r));
        assert(rs.push(r)[0] == rs[0]);
        lemma_wanted_push(rs.skip(1), r, from, start);
        lemma_wanted_push(rs.skip(1), r, from, rs[0].sequence);
        if rs[0].sequence >= from && r.sequence >= from {
            assert(seq![rs[0].entry] + wanted(rs.skip(1), from).push(r.entry) =~= (seq![rs[0].entry] + wanted(rs.skip(1), from)).push(r.entry));
        }
    }
}
/// reading one more record: parse of the whole = the records read so far, then parse of what is left
pub open spec fn parse_from(all: Seq<u8>, done: Seq<WalRecord>, pos: nat) -> bool {
    pos <= all.len() && parse(all) == (done + parse(all.subrange(pos as int, all.len() as int)).0, parse(all.subrange(pos as int, all.len() as int)).1)
}
/// what the next bytes of a segment mean for the parse of the whole segment
pub open spec fn fate(all: Seq<u8>, done: Seq<WalRecord>, pos: nat) -> bool {
    let p = pos as int;
    let left = all.len() - pos;
    &&& left < 4 ==> parse(all) == (done, End::Clean)
    &&& left >= 4 ==> ({
        let n = le4(all.subrange(p, p + 4));
        &&& left < 4 + n ==> parse(all) == (done, End::Clean)
        &&& left >= 4 + n ==> (match bincode::deser::<WalRecord>(all.subrange(p + 4, p + 4 + n)) {
                None => parse(all) == (done, End::Bad),
                Some(r) => if !r.intact() { parse(all) == (done, End::Corrupt(r.sequence)) } else { parse_from(all, done.push(r), (p + 4 + n) as nat) },
            })
    })
}
pub proof fn lemma_record_fate(all: Seq<u8>, done: Seq<WalRecord>, pos: nat)
    requires parse_from(all, done, pos)
    ensures fate(all, done, pos)
{
    let p = pos as int;
    let rest = all.subrange(p, all.len() as int);
    assert(done + Seq::<WalRecord>::empty() =~= done);
    if rest.len() >= 4 {
        assert(rest.subrange(0, 4) =~= all.subrange(p, p + 4));
        let n = le4(all.subrange(p, p + 4));
        if rest.len() >= 4 + n {
            assert(rest.subrange(4, 4 + n as int) =~= all.subrange(p + 4, p + 4 + n));
            assert(rest.subrange(4 + n as int, rest.len() as int) =~= all.subrange(p + 4 + n, all.len() as int));
            match bincode::deser::<WalRecord>(all.subrange(p + 4, p + 4 + n)) {
                None => {},
                Some(r) => {
                    if r.intact() {
                        let t = parse(all.subrange(p + 4 + n, all.len() as int));
                        assert(done + (seq![r] + t.0) =~= done.push(r) + t.0);
                    }
                },
            }
        }
    }
}
pub proof fn lemma_wanted_concat(a: Seq<WalRecord>, b: Seq<WalRecord>, from: u64, start: u64)
    ensures
        wanted(a + b, from) == wanted(a, from) + wanted(b, from),
        last_seq(a + b, from, start) == last_seq(b, from, last_seq(a, from, start)),
    decreases a.len()
{
    if a.len() == 0 {
        assert(a + b =~= b);
        assert(Seq::<WalEntry>::empty() + wanted(b, from) =~= wanted(b, from));
    } else {
        assert((a + b).skip(1) =~= a.skip(1) + b);
        assert((a + b)[0] == a[0]);
        lemma_wanted_concat(a.skip(1), b, from, start);
        lemma_wanted_concat(a.skip(1), b, from, a[0].sequence);
        assert((seq![a[0].entry] + wanted(a.skip(1), from)) + wanted(b, from) =~= seq![a[0].entry] + (wanted(a.skip(1), from) + wanted(b, from)));
    }
}
/// the first i segments ended cleanly, handed over d and left the last sequence at l
pub open spec fn run_split(cs: Seq<Seq<u8>>, from: u64, start: u64, i: int, d: Seq<WalEntry>, l: u64) -> bool {
    0 <= i <= cs.len() && ({ let t = run(cs, from, start); let u = run(cs.skip(i), from, l); t == (d + u.0, u.1, u.2) })
}
pub proof fn lemma_run_start(cs: Seq<Seq<u8>>, from: u64, start: u64)
    ensures run_split(cs, from, start, 0, Seq::empty(), start)
{
    assert(cs.skip(0) =~= cs);
    assert(Seq::<WalEntry>::empty() + run(cs, from, start).0 =~= run(cs, from, start).0);
}
pub proof fn lemma_run_end(cs: Seq<Seq<u8>>, from: u64, start: u64, d: Seq<WalEntry>, l: u64)
    requires run_split(cs, from, start, cs.len() as int, d, l)
    ensures run(cs, from, start) == (d, l, None::<End>)
{
    assert(cs.skip(cs.len() as int).len() == 0);
    assert(d + Seq::<WalEntry>::empty() =~= d);
}
pub proof fn lemma_segment_end(cs: Seq<Seq<u8>>, from: u64, start: u64, i: int, d: Seq<WalEntry>, l: u64, done: Seq<WalRecord>, e: End)
    requires run_split(cs, from, start, i, d, l), i < cs.len(), parse(cs[i]) == (done, e)
    ensures
        e != End::Clean ==> run(cs, from, start) == (d + wanted(done, from), last_seq(done, from, l), Some(e)),
        e == End::Clean ==> run_split(cs, from, start, i + 1, d + wanted(done, from), last_seq(done, from, l)),
{
    assert(cs.skip(i)[0] == cs[i]);
    assert(cs.skip(i).skip(1) =~= cs.skip(i + 1));
    if e == End::Clean {
        let u = run(cs.skip(i + 1), from, last_seq(done, from, l));
        assert(d + (wanted(done, from) + u.0) =~= (d + wanted(done, from)) + u.0);
    }
}
/// inside segment i, having read `done`: what was handed over so far is a prefix of everything replay hands over,
/// and if one more intact record r follows, its entry is the next one (when wanted)
pub proof fn lemma_within(cs: Seq<Seq<u8>>, from: u64, start: u64, i: int, d: Seq<WalEntry>, l: u64, done: Seq<WalRecord>, pos: nat)
    requires run_split(cs, from, start, i, d, l), i < cs.len(), parse_from(cs[i], done, pos)
    ensures ({
        let t = run(cs, from, start); let w = d + wanted(done, from);
        w.len() <= t.0.len() && t.0.take(w.len() as int) == w })
{
    let all = cs[i];
    let y = parse(all.subrange(pos as int, all.len() as int)).0;
    lemma_wanted_concat(done, y, from, l);
    assert(cs.skip(i)[0] == cs[i]);
    let u = run(cs.skip(i), from, l);
    let w = d + wanted(done, from);
    let t = run(cs, from, start);
    // u.0 starts with wanted(done + y) = wanted(done) + wanted(y)
    if parse(all).1 != End::Clean {
        assert(t.0 =~= w + wanted(y, from));
    } else {
        let u2 = run(cs.skip(i).skip(1), from, last_seq(parse(all).0, from, l));
        assert(t.0 =~= w + (wanted(y, from) + u2.0));
    }
    assert(t.0.take(w.len() as int) =~= w);
}
/// what the consumer holds is what it held before, then the first so-many of the entries replay hands over
pub open spec fn delivered(seen: Seq<WalEntry>, seen0: Seq<WalEntry>, all: Seq<WalEntry>) -> bool {
    seen0.len() <= seen.len() <= seen0.len() + all.len() && seen == seen0 + all.take(seen.len() - seen0.len())
}
pub proof fn lemma_delivered_push(seen0: Seq<WalEntry>, all: Seq<WalEntry>, w: Seq<WalEntry>, e: WalEntry)
    requires w.len() < all.len() || true, all.take(w.len() as int + 1) == w.push(e), w.len() + 1 <= all.len()
    ensures delivered((seen0 + w).push(e), seen0, all)
{
    assert((seen0 + w).push(e) =~= seen0 + w.push(e));
}

/// the sequence number a segment's file name prints (None for any other name): `wal-` + hexadecimal + `.log`, read the
/// way find_latest_sequence reads it
pub open spec fn name_seq(n: Seq<char>) -> Option<u64> {
    let pre = "wal-"@; let suf = ".log"@;
    if pre.len() <= n.len() && n.take(pre.len() as int) == pre && suf.len() <= n.len() && n.skip(n.len() - suf.len()) == suf {
        let rest = n.skip(pre.len() as int);
        if suf.len() <= rest.len() && rest.skip(rest.len() - suf.len()) == suf { radix_value(rest.take(rest.len() - suf.len()), 16) } else { None }
    } else { None }
}
pub open spec fn strip_suffix_post(s: Seq<char>, p: Seq<char>, o: Option<&str>) -> bool {
    &&& o is Some <==> (p.len() <= s.len() && s.skip(s.len() - p.len()) == p)
    &&& o matches Some(t) ==> t@ == s.take(s.len() - p.len())
}
pub open spec fn seg_seq(e: DirEntry) -> Option<u64> { if e.utf8@ { name_seq(e.name@) } else { None } }
pub open spec fn seg_file(e: DirEntry) -> PathBuf { e.dir@.joined(e.name@) }
/// the records replay finds in a segment
pub open spec fn seg_records(e: DirEntry) -> Seq<WalRecord> { parse(fs_content(seg_file(e))).0 }
pub open spec fn below(rs: Seq<WalRecord>, m: u64) -> bool { forall|k: int| 0 <= k < rs.len() ==> (#[trigger] rs[k]).sequence < m }
pub open spec fn at_most(rs: Seq<WalRecord>, m: u64) -> bool { forall|k: int| 0 <= k < rs.len() ==> (#[trigger] rs[k]).sequence <= m }
/// the directory invariant the numbering relies on (ASSUMED, A-WAL-DIR: established by earlier sessions of this code):
/// no two segments print the same number, and every record of a segment is numbered below the name of any later one
pub open spec fn dir_ordered(es: Seq<DirEntry>) -> bool {
    forall|a: int, b: int| 0 <= a < es.len() && 0 <= b < es.len() && a != b && seg_seq(#[trigger] es[a]) is Some && seg_seq(#[trigger] es[b]) is Some ==>
        seg_seq(es[a]) != seg_seq(es[b]) && (seg_seq(es[a])->0 < seg_seq(es[b])->0 ==> below(seg_records(es[a]), seg_seq(es[b])->0))
}
/// C15, numbering: nothing replay can find in the directory carries a sequence number above m
pub open spec fn no_record_above(es: Seq<DirEntry>, m: u64) -> bool {
    forall|i: int| 0 <= i < es.len() && seg_seq(#[trigger] es[i]) is Some ==> at_most(seg_records(es[i]), m)
}
/// no segment's file name prints a number above m: the segment opened for sequence m + 1 is a new file, sorted after all others
pub open spec fn no_name_above(es: Seq<DirEntry>, m: u64) -> bool {
    forall|i: int| 0 <= i < es.len() ==> (seg_seq(#[trigger] es[i]) matches Some(s) ==> s <= m)
}
pub open spec fn max_seq(rs: Seq<WalRecord>) -> u64
    decreases rs.len()
{ if rs.len() == 0 { 0 } else { let m = max_seq(rs.drop_last()); if rs.last().sequence > m { rs.last().sequence } else { m } } }
pub proof fn lemma_max_seq(rs: Seq<WalRecord>)
    ensures at_most(rs, max_seq(rs))
    decreases rs.len()
{
    if rs.len() > 0 {
        lemma_max_seq(rs.drop_last());
        assert forall|k: int| 0 <= k < rs.len() implies (#[trigger] rs[k]).sequence <= max_seq(rs) by {
            if k < rs.len() - 1 { assert(rs.drop_last()[k] == rs[k]); }
        }
    }
}
/// the segment with the largest name: every name is at most s, the records of segment w are at most m >= s
pub proof fn lemma_newest_covers(es: Seq<DirEntry>, w: int, m: u64)
    requires
        dir_ordered(es), 0 <= w < es.len(), seg_seq(es[w]) is Some, seg_seq(es[w])->0 <= m,
        forall|j: int| 0 <= j < es.len() ==> (seg_seq(#[trigger] es[j]) matches Some(sj) ==> sj <= seg_seq(es[w])->0),
        max_seq(seg_records(es[w])) <= m,
    ensures no_record_above(es, m)
{
    lemma_max_seq(seg_records(es[w]));
    assert forall|i: int| 0 <= i < es.len() && seg_seq(#[trigger] es[i]) is Some implies at_most(seg_records(es[i]), m) by {
        if i != w {
            assert(seg_seq(es[i]) != seg_seq(es[w]));
            assert(below(seg_records(es[i]), seg_seq(es[w])->0));
        }
    }
}

impl Wal {
    /// the segment files of this log in append order (ASSUMED of get_wal_files: zero-padded hexadecimal names sort
    /// like the numbers they print, and a later session opens a later-named file)
    pub uninterp spec fn segments(&self) -> Seq<PathBuf>;
    #[verifier::external_body]
    fn get_wal_files(&self) -> (r: WalResult<Vec<PathBuf>>)
        ensures r matches Ok(v) ==> v@ == self.segments(), r matches Err(e) ==> (e matches WalError::Io(x) && x.env@)
    { unimplemented!() }
    /// the path of the segment opened at sequence s
    pub open spec fn seg_path(&self, s: u64) -> PathBuf { self.path.joined(render1("wal-{:016x}.log"@, s)) }
    /// the bytes in the segment being written (what a reader would find after a flush)
    pub open spec fn tail_bytes(&self, s: u64) -> Seq<u8> {
        match self.current_file { Some(w) => w.bytes@, None => fs_content(self.seg_path(s)) }
    }

//@fn Wal::new from=wal ret=r props=C15
//@replace "path: impl AsRef<Path>" => "path: &Path" :: generic AsRef<Path> argument taken as the &Path it is converted to
//@replace "path.as_ref().to_path_buf()" => "path.to_path_buf()" :: same
//@replace "std::fs::create_dir_all(" => "fs_create_dir_all(" :: std::fs function: stand-in (the std path cannot be shadowed inside the unit)
//@requires
        dir_ordered(dir_listing(path.buf())),
//@ensures
        r matches Ok(w) ==> no_record_above(dir_listing(path.buf()), w.sequence),      //#no_record_on_disk_is_numbered_above_the_counter
        r matches Ok(w) ==> no_name_above(dir_listing(path.buf()), w.sequence),      //#the_next_segment_is_named_above_every_existing_one
        r matches Ok(w) ==> w.current_file is None && w.path == path.buf(),      //#starts_closed_at_the_given_path
//@atstart
        broadcast use axiom_question_mark;
//@end

//@fn Wal::find_latest_sequence from=wal ret=r props=C15
//@replace "std::fs::read_dir(" => "fs_read_dir(" :: std::fs function: stand-in (the std path cannot be shadowed inside the unit)
//@replace "filename.starts_with(\"wal-\")" => "str_starts_with(filename, \"wal-\")" :: str method generic over Pattern: routed through a wrapper whose body is the same call
//@replace "filename.ends_with(\".log\")" => "str_ends_with(filename, \".log\")" :: same
//@replace "filename.strip_prefix(\"wal-\")" => "str_strip_prefix(filename, \"wal-\")" :: same
//@replace "s.strip_suffix(\".log\")" => "str_strip_suffix(s, \".log\")" :: same
//@requires
        dir_ordered(dir_listing(path.buf())),
//@ensures
        r matches Ok(m) ==> no_record_above(dir_listing(path.buf()), m),      //#no_record_on_disk_is_numbered_above_the_result
        r matches Ok(m) ==> no_name_above(dir_listing(path.buf()), m),      //#no_segment_name_is_above_the_result
        r matches Err(e) ==> (e matches WalError::Io(x) && x.env@),      //#fails_only_for_the_environment
//@closure and_then#1 (s: &str) -> (o: Option<&str>) ensures strip_suffix_post(s@, ".log"@, o)
//@atstart
        broadcast use axiom_question_mark;
        let ghost es = dir_listing(path.buf());
        let ghost mut w: int = -1;
        proof { reveal_strlit("wal-"); reveal_strlit(".log"); }
//@loop 1 iter=it
            invariant
                es == dir_listing(path.buf()), it.seq() == es, dir_ordered(es),
                forall|j: int| 0 <= j < es.len() ==> (#[trigger] es[j]).dir@ == path.buf(),
                forall|j: int| 0 <= j < it.index() ==> (seg_seq(#[trigger] es[j]) matches Some(sj) ==> sj <= max_sequence),      //#at_least_every_segment_name_seen
                newest is None ==> forall|j: int| 0 <= j < it.index() ==> seg_seq(#[trigger] es[j]) is None,      //#no_segment_seen_yet
                newest matches Some(np) ==> 0 <= w < it.index() && seg_seq(es[w]) == Some(max_sequence) && np == seg_file(es[w]),      //#newest_is_the_segment_with_the_largest_name
//@before "if let Some(filename) = entry.file_name().to_str()"
            proof { reveal_strlit("wal-"); reveal_strlit(".log"); assert(entry == es[it.index() as int]); }
//@after "newest = Some(entry.path())"
                                proof { w = it.index() as int; }
//@atend
        proof {
            if newest is Some {
                lemma_newest_covers(es, w, max_sequence);
            } else {
                assert(no_record_above(es, max_sequence));
            }
        }
//@end

//@fn Wal::last_sequence_in_file from=wal ret=r props=C15 optional
//@replace "u32::from_le_bytes(len_bytes)" => "u32_from_le_bytes(len_bytes)" :: std function whose array length is an anonymous constant: routed through a wrapper whose body is the same call
//@ensures
        r matches Ok(l) ==> l == max_seq(parse(fs_content(file_path.buf())).0),      //#the_largest_sequence_replay_would_see
        r matches Err(e) ==> (e matches WalError::Io(x) && x.env@),      //#fails_only_for_the_environment
//@atstart
        broadcast use axiom_question_mark;
//@before "let mut buf = Vec::new()"
        let ghost mut done: Seq<WalRecord> = Seq::empty();
        proof {
            assert(reader.all@.subrange(0, reader.all@.len() as int) =~= reader.all@);
            assert(Seq::<WalRecord>::empty() + parse(reader.all@).0 =~= parse(reader.all@).0);
        }
//@loop 1
            invariant_except_break
                parse_from(reader.all@, done, reader.pos@),      //#records_read_so_far
            invariant
                reader.wf(), reader.all@ == fs_content(file_path.buf()),
                last == max_seq(done),      //#largest_so_far
            ensures
                parse(reader.all@).0 == done,      //#scan_stops_where_replay_stops
            decreases reader.all@.len() - reader.pos@
//@before "match reader.read_exact(&mut len_bytes)"
            broadcast use axiom_question_mark;
            proof { lemma_record_fate(reader.all@, done, reader.pos@); }
//@after "let record: WalRecord"
            proof {
                if record.intact() {
                    assert(done.push(record).drop_last() =~= done);
                    done = done.push(record);
                }
            }
//@end

//@fn Wal::current_sequence from=wal ret=r props=C15
//@ensures
        r == self.sequence,      //#reports_the_counter
//@end

//@fn Wal::open_new_file from=wal ret=r props=C15
//@ensures
        final(self).sequence == old(self).sequence, final(self).path == old(self).path, final(self).sync_mode == old(self).sync_mode,      //#frame
        r is Ok ==> (final(self).current_file matches Some(w) && w.bytes@ == fs_content(old(self).seg_path(old(self).sequence))),      //#appends_after_what_the_segment_holds
        r is Err ==> final(self).current_file == old(self).current_file,      //#failed_open_changes_nothing
//@atstart
        broadcast use axiom_question_mark;
//@end

//@fn Wal::append from=wal ret=r props=C15
//@replace "(data.len() as u32).to_le_bytes()" => "u32_to_le_bytes(data.len() as u32)" :: std method whose array length is an anonymous constant: routed through a wrapper whose body is the same call
//@requires
        old(self).sequence < u64::MAX,
//@ensures
        final(self).sequence == old(self).sequence + 1,      //#sequence_advances_by_exactly_one
        final(self).path == old(self).path,      //#frame
        r matches Ok(s) ==> s == old(self).sequence + 1,      //#returns_the_new_sequence
        r is Ok ==> final(self).current_file is Some && ({
            let rec = WalRecord { sequence: (old(self).sequence + 1) as u64, entry: entry, checksum: ck(entry) };
            bincode::ser_ok(rec) && final(self).tail_bytes(0) == old(self).tail_bytes((old(self).sequence + 1) as u64) + frame(rec) }),      //#ok_appends_exactly_one_frame
//@atstart
        broadcast use axiom_question_mark;
//@end

//@fn Wal::flush from=wal ret=r props=C15
//@ensures
        final(self).sequence == old(self).sequence, final(self).path == old(self).path,      //#frame
        final(self).tail_bytes(0) == old(self).tail_bytes(0) || old(self).current_file is None,      //#writes_nothing
//@atstart
        broadcast use axiom_question_mark;
//@end

//@fn Wal::checkpoint from=wal ret=r props=C15
//@requires
        old(self).sequence < u64::MAX,
//@ensures
        final(self).sequence == old(self).sequence + 1,      //#the_marker_takes_the_next_sequence
        final(self).path == old(self).path,      //#frame
        r is Ok ==> final(self).current_file is None,      //#ok_closes_the_segment
//@atstart
        broadcast use axiom_question_mark;
//@end

//@fn Wal::replay from=wal ret=r props=C15
//@replace "mut callback: F" => "callback: &mut F" :: the FnMut consumer is taken by value and its effect lives in what it captured; passed by &mut so that the contract can speak of what it was handed
//@replace "F: FnMut(&WalEntry) -> WalResult<()>," => "F: WalSink," :: same: the consumer as a trait with a ghost record of the entries it was handed
//@replace "callback(&record.entry)?" => "callback.call(&record.entry)?" :: same
//@replace "u32::from_le_bytes(len_bytes)" => "u32_from_le_bytes(len_bytes)" :: std function whose array length is an anonymous constant: routed through a wrapper whose body is the same call
//@requires
        run(contents(self.segments()), from_sequence, from_sequence).0.len() < u64::MAX,
//@ensures
        r matches Ok(last) ==> ({ let t = run(contents(self.segments()), from_sequence, from_sequence);
            t.2 is None && final(callback).seen() == old(callback).seen() + t.0 && last == t.1
            && final(callback).failed() == old(callback).failed() }),      //#ok_hands_over_exactly_the_complete_records_in_order
        r matches Err(e) ==> ({ let t = run(contents(self.segments()), from_sequence, from_sequence);
            final(callback).failed() || (e matches WalError::Io(x) && x.env@) || t.2 is Some }),      //#fails_only_for_a_bad_record_the_consumer_or_the_environment
        r matches Err(e) ==> ({ let t = run(contents(self.segments()), from_sequence, from_sequence);
            (t.2 matches Some(End::Corrupt(s)) && !final(callback).failed() && !(e matches WalError::Io(_))) ==> (t.2 matches Some(End::Corrupt(s)) && e == WalError::Corruption(s)) }),      //#corruption_is_reported_with_its_sequence
        r is Err ==> delivered(final(callback).seen(), old(callback).seen(), run(contents(self.segments()), from_sequence, from_sequence).0),      //#a_failed_replay_handed_over_a_prefix
//@atstart
        broadcast use axiom_question_mark;
        let ghost cs = contents(self.segments());
        let ghost t = run(cs, from_sequence, from_sequence);
        let ghost seen0 = callback.seen();
        let ghost failed0 = callback.failed();
        proof { lemma_run_start(cs, from_sequence, from_sequence); assert(t.0.take(0) =~= Seq::<WalEntry>::empty()); assert(seen0 + Seq::<WalEntry>::empty() =~= seen0); }
//@loop 1 iter=it
            invariant
                it.seq() == self.segments(), cs == contents(self.segments()), t == run(cs, from_sequence, from_sequence),
                seen0 == old(callback).seen(), failed0 == old(callback).failed(),
                t.0.len() < u64::MAX,
                callback.failed() == failed0,      //#consumer_not_failed
                delivered(callback.seen(), seen0, t.0),      //#handed_over_a_prefix
                replayed as nat == callback.seen().len() - seen0.len(),      //#count_matches
                run_split(cs, from_sequence, from_sequence, it.index() as int, t.0.take(callback.seen().len() - seen0.len()), last_sequence),      //#segments_so_far_ended_cleanly
//@before "let file = File::open"
            broadcast use axiom_question_mark;
            let ghost i = it.index() as int;
            let ghost k0 = callback.seen().len() - seen0.len();
            let ghost d0 = t.0.take(k0);
            let ghost l0 = last_sequence;
            let ghost mut done: Seq<WalRecord> = Seq::empty();
            proof { assert(cs[i] == fs_content(file_path)); }
//@before "let mut buf = Vec::new()"
            proof {
                assert(reader.all@.subrange(0, reader.all@.len() as int) =~= reader.all@);
                assert(Seq::<WalRecord>::empty() + parse(reader.all@).0 =~= parse(reader.all@).0);
                assert(d0 + wanted(done, from_sequence) =~= d0);
            }
//@loop 2
                invariant_except_break
                    parse_from(reader.all@, done, reader.pos@),      //#records_read_so_far
                invariant
                    reader.wf(), reader.all@ == cs[i], 0 <= i < cs.len(), i == it.index(),
                    cs == contents(self.segments()), t == run(cs, from_sequence, from_sequence), t.0.len() < u64::MAX,
                    seen0 == old(callback).seen(), failed0 == old(callback).failed(),
                    d0 == t.0.take(k0), k0 <= t.0.len(),
                    run_split(cs, from_sequence, from_sequence, i, d0, l0),
                    callback.failed() == failed0,      //#consumer_not_failed
                    callback.seen() == seen0 + (d0 + wanted(done, from_sequence)),      //#handed_over_the_wanted_records_read
                    delivered(callback.seen(), seen0, t.0),      //#handed_over_a_prefix
                    replayed as nat == callback.seen().len() - seen0.len(),      //#count_matches
                    last_sequence == last_seq(done, from_sequence, l0),      //#last_sequence_follows
                ensures
                    parse(reader.all@) == (done, End::Clean),      //#segment_ended_cleanly
                decreases reader.all@.len() - reader.pos@
//@before "match reader.read_exact(&mut len_bytes)"
                broadcast use axiom_question_mark;
                proof { lemma_record_fate(reader.all@, done, reader.pos@); lemma_within(cs, from_sequence, from_sequence, i, d0, l0, done, reader.pos@); }
//@before "buf.resize(len, 0)"
                proof {
                    if reader.all@.len() - reader.pos@ < len {
                        lemma_segment_end(cs, from_sequence, from_sequence, i, d0, l0, done, End::Clean);
                    }
                }
                let ghost pos1 = reader.pos@;
//@before "let record: WalRecord"
                proof {
                    // the frame is complete: what follows depends on whether it decodes and passes its check
                    match bincode::deser::<WalRecord>(buf@) {
                        None => { lemma_segment_end(cs, from_sequence, from_sequence, i, d0, l0, done, End::Bad); },
                        Some(r0) => {
                            if !r0.intact() { lemma_segment_end(cs, from_sequence, from_sequence, i, d0, l0, done, End::Corrupt(r0.sequence)); }
                            else {
                                lemma_within(cs, from_sequence, from_sequence, i, d0, l0, done.push(r0), reader.pos@);
                                lemma_wanted_push(done, r0, from_sequence, l0);
                            }
                        },
                    }
                }
//@after "let record: WalRecord"
                proof {
                    if record.intact() {
                        let ghost w = d0 + wanted(done, from_sequence);
                        if record.sequence >= from_sequence {
                            assert(d0 + wanted(done, from_sequence).push(record.entry) =~= w.push(record.entry));
                            lemma_delivered_push(seen0, t.0, w, record.entry);
                            assert((seen0 + w).push(record.entry) =~= seen0 + (d0 + wanted(done.push(record), from_sequence)));
                        }
                        done = done.push(record);
                    }
                }
//@afterloop 2
            proof {
                lemma_segment_end(cs, from_sequence, from_sequence, i, d0, l0, done, End::Clean);
                assert(t.0.take(callback.seen().len() - seen0.len()) =~= d0 + wanted(done, from_sequence)) by {
                    assert(callback.seen() == seen0 + t.0.take(callback.seen().len() - seen0.len()));
                    assert((seen0 + t.0.take(callback.seen().len() - seen0.len())).skip(seen0.len() as int) =~= t.0.take(callback.seen().len() - seen0.len()));
                    assert((seen0 + (d0 + wanted(done, from_sequence))).skip(seen0.len() as int) =~= d0 + wanted(done, from_sequence));
                }
            }
//@atend
        proof {
            lemma_run_end(cs, from_sequence, from_sequence, t.0.take(callback.seen().len() - seen0.len()), last_sequence);
        }
//@end
}

/// the bytes append writes for a record
pub open spec fn frame(r: WalRecord) -> Seq<u8> { le4_bytes(bincode::ser(r).len() as u32) + bincode::ser(r) }
/// a record append can write and replay will accept: it serialises, to fewer than 2^32 bytes (the length prefix is a
/// u32: A-WAL-4G), and carries the checksum of its entry
pub open spec fn storable(r: WalRecord) -> bool { bincode::ser_ok(r) && r.intact() && bincode::ser(r).len() <= u32::MAX }
pub open spec fn all_storable(rs: Seq<WalRecord>) -> bool { forall|i: int| 0 <= i < rs.len() ==> storable(#[trigger] rs[i]) }
/// a segment as a sequence of appends leaves it
pub open spec fn frames(rs: Seq<WalRecord>) -> Seq<u8>
    decreases rs.len()
{ if rs.len() == 0 { Seq::empty() } else { frame(rs[0]) + frames(rs.skip(1)) } }

pub proof fn lemma_frame_head(r: WalRecord, rest: Seq<u8>)
    requires storable(r)
    ensures ({
        let b = frame(r) + rest; let n = bincode::ser(r).len() as int;
        &&& frame(r).len() == 4 + n
        &&& le4(b.subrange(0, 4)) == n
        &&& b.subrange(4, 4 + n) == bincode::ser(r)
        &&& b.subrange(4 + n, b.len() as int) == rest })
{
    let n = bincode::ser(r).len() as int;
    axiom_le4_bytes(n as u32);
    let b = frame(r) + rest;
    assert(b.subrange(0, 4) =~= le4_bytes(n as u32));
    assert(b.subrange(4, 4 + n) =~= bincode::ser(r));
    assert(b.subrange(4 + n, b.len() as int) =~= rest);
}
pub proof fn lemma_frames_push(rs: Seq<WalRecord>, r: WalRecord)
    ensures frames(rs.push(r)) == frames(rs) + frame(r)
    decreases rs.len()
{
    if rs.len() == 0 {
        assert(rs.push(r).skip(1) =~= Seq::<WalRecord>::empty());
        assert(rs.push(r)[0] == r);
        assert(frames(Seq::<WalRecord>::empty()) =~= Seq::<u8>::empty());
        assert(frames(rs.push(r).skip(1)) =~= Seq::<u8>::empty());
        assert(frames(rs.push(r)) =~= frame(r) + Seq::<u8>::empty());
        assert(frames(rs) + frame(r) =~= frame(r));
        assert(frame(r) + Seq::<u8>::empty() =~= frame(r));
    } else {
        assert(rs.push(r).skip(1) =~= rs.skip(1).push(r));
        assert(rs.push(r)[0] == rs[0]);
        lemma_frames_push(rs.skip(1), r);
        assert(frame(rs[0]) + (frames(rs.skip(1)) + frame(r)) =~= (frame(rs[0]) + frames(rs.skip(1))) + frame(r));
    }
}
/// C15, first half: what a sequence of acknowledged appends left in a segment is replayed record for record, in order
pub proof fn theorem_replay_reads_what_append_wrote(rs: Seq<WalRecord>)
    requires all_storable(rs)
    ensures parse(frames(rs)) == (rs, End::Clean)
    decreases rs.len()
{
    if rs.len() == 0 {
    } else {
        let r = rs[0];
        let rest = frames(rs.skip(1));
        assert(storable(rs[0]));
        lemma_frame_head(r, rest);
        bincode::axiom_roundtrip(r);
        assert(all_storable(rs.skip(1))) by { assert forall|i: int| 0 <= i < rs.skip(1).len() implies storable(#[trigger] rs.skip(1)[i]) by { assert(rs.skip(1)[i] == rs[i + 1]); } }
        theorem_replay_reads_what_append_wrote(rs.skip(1));
        assert(seq![r] + rs.skip(1) =~= rs);
    }
}
/// C15, second half: cut the segment at ANY byte (a crash tears the last write): replay sees exactly the records that
/// are complete before the cut -- j of them, the cut lying inside (or right before) record j -- and ends cleanly
pub proof fn theorem_torn_tail_is_end_of_log(rs: Seq<WalRecord>, k: int) -> (j: int)
    requires all_storable(rs), 0 <= k <= frames(rs).len()
    ensures
        0 <= j <= rs.len(),
        parse(frames(rs).take(k)) == (rs.take(j), End::Clean),
        frames(rs.take(j)).len() <= k,
        j < rs.len() ==> k < frames(rs.take(j + 1)).len(),
    decreases rs.len()
{
    if rs.len() == 0 {
        assert(rs.take(0) =~= rs);
        0
    } else {
        let r = rs[0];
        let rest = frames(rs.skip(1));
        assert(storable(rs[0]));
        lemma_frame_head(r, rest);
        let n = bincode::ser(r).len() as int;
        let b = frames(rs).take(k);
        if k < 4 + n {
            if k >= 4 {
                assert(b.subrange(0, 4) =~= (frame(r) + rest).subrange(0, 4));
            }
            assert(rs.take(0) =~= Seq::<WalRecord>::empty());
            assert(rs.take(1).skip(1) =~= Seq::<WalRecord>::empty());
            assert(rs.take(1)[0] == r);
            assert(frames(Seq::<WalRecord>::empty()) =~= Seq::<u8>::empty());
            assert(frames(rs.take(1).skip(1)) =~= Seq::<u8>::empty());
            assert(frames(rs.take(1)) =~= frame(r) + Seq::<u8>::empty());
            0
        } else {
            assert(b.subrange(0, 4) =~= (frame(r) + rest).subrange(0, 4));
            assert(b.subrange(4, 4 + n) =~= (frame(r) + rest).subrange(4, 4 + n));
            assert(b.subrange(4 + n, b.len() as int) =~= rest.take(k - 4 - n));
            bincode::axiom_roundtrip(r);
            assert(all_storable(rs.skip(1))) by { assert forall|i: int| 0 <= i < rs.skip(1).len() implies storable(#[trigger] rs.skip(1)[i]) by { assert(rs.skip(1)[i] == rs[i + 1]); } }
            let j1 = theorem_torn_tail_is_end_of_log(rs.skip(1), k - 4 - n);
            assert(seq![r] + rs.skip(1).take(j1) =~= rs.take(j1 + 1));
            assert(rs.take(j1 + 1).skip(1) =~= rs.skip(1).take(j1));
            assert(rs.take(j1 + 1)[0] == r);
            if j1 + 1 < rs.len() {
                assert(rs.take(j1 + 2).skip(1) =~= rs.skip(1).take(j1 + 1));
                assert(rs.take(j1 + 2)[0] == r);
            }
            j1 + 1
        }
    }
}

} // verus!
fn main() {}
