//@unit resp_inline
//@properties C21
//@source resp src/protocol/resp.rs
//@rules D2 R10 R14
#![feature(allocator_api)]
#![allow(unused_imports, unused_variables, unused_mut, dead_code)]
use vstd::prelude::*;
use std::io;
use vstd::std_specs::fmt::DisplaySpec;
verus!{
global size_of usize == 8;
broadcast use vstd::std_specs::iter::group_iter_axioms;
use vstd::std_specs::iter::IteratorSpec;
//@include common/std_extra.rs

// The inline (telnet-style) command path of the RESP decoder, for SAFETY only (C21): no index, slice, cast or arithmetic
// operation can fail, every loop terminates, the cursor only moves forward.  Its functional contract (which value a
// line denotes) is assumed in unit resp_dec; here nothing about the resulting value is claimed.
#[verifier::external_type_specification]
#[verifier::external_body]
pub struct ExIoError(std::io::Error);
#[verifier::external_type_specification]
#[verifier::external_body]
pub struct ExFromUtf8Error(std::string::FromUtf8Error);
pub assume_specification [String::from_utf8] (v: Vec<u8>) -> (r: Result<String, std::string::FromUtf8Error>);
pub assume_specification [String::into_bytes] (s: String) -> (r: Vec<u8>);
pub trait Buf: Sized {
    spec fn bytes(&self) -> Seq<u8>;
    fn advance(&mut self, cnt: usize)
        requires cnt <= old(self).bytes().len()
        ensures final(self).bytes() == old(self).bytes().skip(cnt as int);
}
impl<'a> Buf for &'a [u8] {
    open spec fn bytes(&self) -> Seq<u8> { (*self)@ }
    #[verifier::external_body]
    fn advance(&mut self, cnt: usize) { *self = &self[cnt..]; }
}
//@enum RespError
pub type RespResult<T> = Result<T, RespError>;
//@enum RespValue

impl RespValue {
    /// read_line: contract proved in unit resp_dec (only the part needed here is restated)
    #[verifier::external_body]
    fn read_line(buf: &mut &[u8]) -> (r: RespResult<Option<Vec<u8>>>)
        ensures final(buf)@.len() <= old(buf)@.len()
    { unimplemented!() }

//@fn RespValue::decode_inline_command ret=r
//@ensures
        final(buf)@.len() <= old(buf)@.len(),      //#cursor_only_advances
//@end

//@fn RespValue::parse_inline_tokens ret=r nodecreases
//@replace "line.chars().peekable()" => "line.chars()" :: Peekable is outside Verus; `peek` is never called in this function, and Peekable::next without a pending peek is the inner iterator's next
//@end
}
}
fn main(){}
