//@unit cluster
//@properties C33
//@source cluster src/raft/cluster.rs
//@rules D2 R1
#![feature(allocator_api)]
#![allow(unused_imports, unused_variables, unused_mut, dead_code)]
use vstd::prelude::*;
use vstd::set_lib::*;
use vstd::seq_lib::*;
use vstd::std_specs::iter::IteratorSpec;
use std::collections::{HashMap, HashSet};
verus!{
//@include common/std_extra.rs
/// a Vec never holds more than isize::MAX elements (language guarantee vstd does not export; A-VECLEN): lets small arithmetic on
/// lengths (`len + 2`) verify
#[verifier::external_body]
pub broadcast proof fn axiom_vec_len_b<T>(v: Vec<T>)
    ensures #[trigger] v@.len() <= isize::MAX as nat
{}
broadcast use vstd::std_specs::iter::group_iter_axioms;
// =====================================================================
// spec functions (the property's vocabulary)
// =====================================================================
pub open spec fn ids(nodes: Seq<NodeConfig>) -> Seq<u64> { nodes.map_values(|n: NodeConfig| n.id) }
/// config_wf: node ids are pairwise distinct ("distinct voting members")
pub open spec fn config_wf(c: ClusterConfig) -> bool { ids(c.nodes@).no_duplicates() }
pub open spec fn is_voter() -> spec_fn(NodeConfig) -> bool { |n: NodeConfig| n.voter }
pub open spec fn is_learner() -> spec_fn(NodeConfig) -> bool { |n: NodeConfig| !n.voter }
pub open spec fn is_active_voter(a: Set<u64>) -> spec_fn(NodeConfig) -> bool { |n: NodeConfig| n.voter && a.contains(n.id) }
pub open spec fn not_id(id: u64) -> spec_fn(NodeConfig) -> bool { |n: NodeConfig| n.id != id }
/// V: the set of distinct voting members
pub open spec fn voter_ids(nodes: Seq<NodeConfig>) -> Set<u64> { ids(nodes.filter(is_voter())).to_set() }
/// V ∩ A: the active voting members
pub open spec fn active_voter_ids(nodes: Seq<NodeConfig>, a: Set<u64>) -> Set<u64> { ids(nodes.filter(is_active_voter(a))).to_set() }
pub open spec fn deref_seq(s: Seq<&NodeConfig>) -> Seq<NodeConfig> { s.map_values(|r: &NodeConfig| *r) }

//@include common/filter_by.rs
/// vstd's iterator `filter` model yields `filter_index(|j| keep[j])`; connect it to Seq::filter
pub proof fn lemma_filter_index_is_filter<T>(s: Seq<T>, keep: Seq<bool>, pred: spec_fn(T) -> bool)
    requires keep.len() == s.len(), forall|i: int| 0 <= i < s.len() ==> keep[i] == pred(s[i])
    ensures s.filter_index(|j: int| keep[j]) == s.filter(pred)
    decreases s.len()
{
    reveal(Seq::filter);
    reveal(Seq::filter_index);
    if s.len() == 0 {
    } else {
        let k2 = keep.drop_last();
        lemma_filter_index_is_filter(s.drop_last(), k2, pred);
        lemma_filter_index_ext(s.drop_last(), |j: int| keep[j], |j: int| k2[j]);
    }
}
pub proof fn lemma_filter_index_ext<T>(s: Seq<T>, f: spec_fn(int) -> bool, g: spec_fn(int) -> bool)
    requires forall|j: int| 0 <= j < s.len() ==> #[trigger] f(j) == g(j)
    ensures s.filter_index(f) == s.filter_index(g)
    decreases s.len()
{
    reveal(Seq::filter_index);
    if s.len() == 0 { } else { lemma_filter_index_ext(s.drop_last(), f, g); }
}

/// filtering a duplicate-free id list keeps it duplicate-free; every kept element comes from the source
pub proof fn lemma_filter_nodup(nodes: Seq<NodeConfig>, p: spec_fn(NodeConfig) -> bool)
    requires ids(nodes).no_duplicates()
    ensures
        ids(nodes.filter(p)).no_duplicates(),
        ids(nodes.filter(p)).to_set().len() == nodes.filter(p).len(),
        forall|k: int| 0 <= k < nodes.filter(p).len() ==> p(#[trigger] nodes.filter(p)[k]) && nodes.contains(nodes.filter(p)[k]),
        forall|n: NodeConfig| nodes.contains(n) && p(n) ==> nodes.filter(p).contains(n),
    decreases nodes.len()
{
    reveal(Seq::filter);
    let f = nodes.filter(p);
    if nodes.len() == 0 {
        assert(ids(f) =~= Seq::<u64>::empty());
        ids(f).unique_seq_to_set();
    } else {
        let t = nodes.drop_last();
        assert(ids(t) =~= ids(nodes).drop_last());
        assert(ids(t).no_duplicates()) by {
            assert forall|i: int, j: int| 0 <= i < ids(t).len() && 0 <= j < ids(t).len() && i != j implies ids(t)[i] != ids(t)[j] by {
                assert(ids(nodes)[i] == ids(t)[i]);
                assert(ids(nodes)[j] == ids(t)[j]);
            }
        }
        lemma_filter_nodup(t, p);
        let ft = t.filter(p);
        assert forall|k: int| 0 <= k < ft.len() implies (#[trigger] ft[k]).id != nodes.last().id by {
            assert(t.contains(ft[k]));
            let w = choose|w: int| 0 <= w < t.len() && t[w] == ft[k];
            assert(ids(nodes)[w] == ft[k].id);
            assert(ids(nodes)[nodes.len() - 1] == nodes.last().id);
        }
        assert forall|k: int| 0 <= k < f.len() implies nodes.contains(#[trigger] f[k]) by {
            if k < ft.len() {
                assert(t.contains(ft[k]));
                let w = choose|w: int| 0 <= w < t.len() && t[w] == ft[k];
                assert(nodes[w] == f[k]);
            } else {
                assert(nodes[nodes.len() - 1] == f[k]);
            }
        }
        assert forall|n: NodeConfig| nodes.contains(n) && p(n) implies f.contains(n) by {
            let w = choose|w: int| 0 <= w < nodes.len() && nodes[w] == n;
            if w < t.len() {
                assert(t[w] == n);
                assert(t.contains(n));
                assert(ft.contains(n));
                let k = choose|k: int| 0 <= k < ft.len() && ft[k] == n;
                assert(f[k] == n);
            } else {
                assert(f[f.len() - 1] == n);
            }
        }
        assert(ids(f).no_duplicates()) by {
            assert forall|i: int, j: int| 0 <= i < ids(f).len() && 0 <= j < ids(f).len() && i != j implies ids(f)[i] != ids(f)[j] by {
                if i < ft.len() && j < ft.len() {
                    assert(ids(ft)[i] == ids(f)[i]);
                    assert(ids(ft)[j] == ids(f)[j]);
                } else if i < ft.len() {
                    assert(ft[i].id != nodes.last().id);
                } else if j < ft.len() {
                    assert(ft[j].id != nodes.last().id);
                }
            }
        }
        ids(f).unique_seq_to_set();
    }
}


/// filter commutes with a projection: filtering by `p ∘ proj` then projecting == projecting then filtering by `p`
pub proof fn lemma_map_filter<T, U>(s: Seq<T>, proj: spec_fn(T) -> U, p: spec_fn(U) -> bool)
    ensures s.filter(|x: T| p(proj(x))).map_values(proj) == s.map_values(proj).filter(p)
    decreases s.len()
{
    reveal(Seq::filter);
    let q = |x: T| p(proj(x));
    if s.len() == 0 {
        assert(s.filter(q).map_values(proj) =~= s.map_values(proj).filter(p));
    } else {
        lemma_map_filter(s.drop_last(), proj, p);
        assert(s.map_values(proj).drop_last() =~= s.drop_last().map_values(proj));
        assert(s.filter(q).map_values(proj) =~= s.map_values(proj).filter(p));
    }
}
pub proof fn lemma_push_to_set(s: Seq<u64>, x: u64)
    ensures s.push(x).to_set() =~= s.to_set().insert(x)
{
    assert forall|y: u64| s.push(x).to_set().contains(y) <==> s.to_set().insert(x).contains(y) by {
        if s.push(x).contains(y) {
            let k = choose|k: int| 0 <= k < s.push(x).len() && s.push(x)[k] == y;
            if k < s.len() { assert(s[k] == y); }
        }
        if s.contains(y) {
            let k = choose|k: int| 0 <= k < s.len() && s[k] == y;
            assert(s.push(x)[k] == y);
        }
        if y == x { assert(s.push(x)[s.len() as int] == x); }
    }
}
pub proof fn lemma_filter_filter(s: Seq<NodeConfig>, p: spec_fn(NodeConfig) -> bool, q: spec_fn(NodeConfig) -> bool, pq: spec_fn(NodeConfig) -> bool)
    requires forall|n: NodeConfig| #[trigger] pq(n) == (p(n) && q(n))
    ensures s.filter(p).filter(q) == s.filter(pq)
    decreases s.len()
{
    reveal(Seq::filter);
    if s.len() == 0 { } else {
        let t = s.drop_last();
        lemma_filter_filter(t, p, q, pq);
        if p(s.last()) {
            Seq::filter_distributes_over_add(t.filter(p), seq![s.last()], q);
            assert(t.filter(p).push(s.last()) =~= t.filter(p) + seq![s.last()]);
            let one = seq![s.last()];
            assert(one.drop_last() =~= Seq::<NodeConfig>::empty());
            assert(one.drop_last().filter(q) =~= Seq::<NodeConfig>::empty());
            assert(one.last() == s.last());
            assert(one.filter(q) =~= if q(s.last()) { one } else { Seq::empty() });
        }
    }
}

/// all sizes: two majorities of the same finite voter set intersect
pub proof fn quorum_intersection(v: Set<u64>, x: Set<u64>, y: Set<u64>)
    requires

        x.subset_of(v), y.subset_of(v),
        2 * x.len() > v.len(),
        2 * y.len() > v.len(),
    ensures
        !x.intersect(y).is_empty(),
{
    lemma_len_subset(x, v);
    lemma_len_subset(y, v);
    lemma_set_intersect_union_lens(x, y);
    lemma_len_subset(x.union(y), v);
    if x.intersect(y).is_empty() {
        assert(x.intersect(y).len() == 0);
    }
}

/// active voters are voters, and are exactly the voters that are active
pub proof fn lemma_active_subset(nodes: Seq<NodeConfig>, a: Set<u64>)
    requires ids(nodes).no_duplicates()
    ensures
        active_voter_ids(nodes, a).subset_of(voter_ids(nodes)),
        active_voter_ids(nodes, a) =~= voter_ids(nodes).intersect(a),

        voter_ids(nodes).len() == nodes.filter(is_voter()).len(),
        active_voter_ids(nodes, a).len() == nodes.filter(is_active_voter(a)).len(),
{
    lemma_filter_nodup(nodes, is_voter());
    lemma_filter_nodup(nodes, is_active_voter(a));
    let fv = nodes.filter(is_voter());
    let fa = nodes.filter(is_active_voter(a));
    assert forall|i: u64| active_voter_ids(nodes, a).contains(i) implies voter_ids(nodes).contains(i) && a.contains(i) by {
        let k = choose|k: int| 0 <= k < ids(fa).len() && ids(fa)[k] == i;
        let n = fa[k];
        assert(is_active_voter(a)(n) && nodes.contains(n));
        assert(is_voter()(n));
        assert(fv.contains(n));
        let m = choose|m: int| 0 <= m < fv.len() && fv[m] == n;
        assert(ids(fv)[m] == i);
    }
    assert forall|i: u64| voter_ids(nodes).contains(i) && a.contains(i) implies active_voter_ids(nodes, a).contains(i) by {
        let k = choose|k: int| 0 <= k < ids(fv).len() && ids(fv)[k] == i;
        let n = fv[k];
        assert(is_voter()(n) && nodes.contains(n));
        assert(is_active_voter(a)(n));
        assert(fa.contains(n));
        let m = choose|m: int| 0 <= m < fa.len() && fa[m] == n;
        assert(ids(fa)[m] == i);
    }
}

/// The property's last clause: any two active sets accepted as healthy for one
/// configuration share a voting member.
pub proof fn lemma_two_healthy_overlap(nodes: Seq<NodeConfig>, a1: Set<u64>, a2: Set<u64>)
    requires
        ids(nodes).no_duplicates(),
        2 * active_voter_ids(nodes, a1).len() > voter_ids(nodes).len(),
        2 * active_voter_ids(nodes, a2).len() > voter_ids(nodes).len(),
    ensures
        exists|m: u64| voter_ids(nodes).contains(m) && a1.contains(m) && a2.contains(m),
{
    lemma_active_subset(nodes, a1);
    lemma_active_subset(nodes, a2);
    let x = active_voter_ids(nodes, a1);
    let y = active_voter_ids(nodes, a2);
    quorum_intersection(voter_ids(nodes), x, y);
    let m = choose|m: u64| x.intersect(y).contains(m);
    assert(x.intersect(y).len() != 0 || x.intersect(y).is_empty());
    if forall|m: u64| !x.intersect(y).contains(m) {
        assert(x.intersect(y) =~= Set::<u64>::empty());
    }
    assert(x.contains(m) && y.contains(m));
}

// =====================================================================
// prelude (assumed)
// =====================================================================
//@include common/hashmap_get_mut.rs
// `count` consumes the iterator until it returns None, hence will_return_none
pub assume_specification<I: Iterator, P: FnMut(&I::Item) -> bool>[ <core::iter::Filter<I, P> as Iterator>::count ](it: core::iter::Filter<I, P>) -> (r: usize)
    ensures
        r == IteratorSpec::remaining(&it).len(),
        IteratorSpec::will_return_none(&it),
;
pub type RaftNodeId = u64;
pub enum RaftError { Cluster(String) }
pub type RaftResult<T> = Result<T, RaftError>;
#[verifier::external_body]
pub fn now_timestamp() -> i64 { unimplemented!() }

// =====================================================================
// extracted from /repo/src/raft/cluster.rs
// =====================================================================
//@struct ClusterConfig
//@struct NodeConfig
//@struct ClusterHealth
//@struct NodeMetadata
//@enum NodeRole derive=PartialEq,Eq,Structural
//@struct ClusterManager erase

impl ClusterConfig {
//@fn ClusterConfig::new ret=r
//@ensures
        r.nodes@.len() == 0,        //#empty
        config_wf(r),               //#config_wf
//@end

//@fn ClusterConfig::add_node
//@requires
        config_wf(*old(self)),
//@ensures
        config_wf(*final(self)),                                                          //#config_wf
        final(self).nodes@ == old(self).nodes@.filter(not_id(id)).push(NodeConfig { id, address, voter }),   //#one_entry_per_id
//@closure retain#1 (n: &NodeConfig) -> (b: bool) ensures b == (@BODY)
//@after ".retain("
        proof {
            let s = old(self).nodes@;
            let keep = choose|keep: Seq<bool>| keep.len() == s.len()
                && (forall|i: int| 0 <= i < keep.len() ==> #[trigger] keep[i] == (s[i].id != id))
                && self.nodes@ == filter_by(s, keep);
            lemma_filter_by(s, keep, not_id(id));
            lemma_filter_nodup(s, not_id(id));
        }
//@before ".push("
        let ghost kept = self.nodes@;
//@after ".push("
        proof {
            let f = self.nodes@;
            assert(ids(f) =~= ids(kept).push(id));
            assert forall|i: int, j: int| 0 <= i < ids(f).len() && 0 <= j < ids(f).len() && i != j implies ids(f)[i] != ids(f)[j] by {
                if i < kept.len() && j < kept.len() {
                    assert(ids(kept)[i] == ids(f)[i] && ids(kept)[j] == ids(f)[j]);
                } else if i < kept.len() {
                    assert(not_id(id)(kept[i]));
                } else if j < kept.len() {
                    assert(not_id(id)(kept[j]));
                }
            }
        }
//@end

//@fn ClusterConfig::voters ret=r
//@ensures
        deref_seq(r@) == self.nodes@.filter(is_voter()),    //#voters_are_the_voter_entries
//@chain ".filter(" c
//@closure filter#1 (n: &&NodeConfig) -> (b: bool) ensures b == (@BODY)
//@after "let c1 ="
        let ghost s0 = c1.remaining();
//@after "let c2 ="
        let ghost keep = vstd::std_specs::iter::filter_keep(c2);
        let ghost s1 = c2.remaining();
//@after "let c3 ="
        proof {
            assert(keep.len() == s0.len());
            assert(s0.take(keep.len() as int) =~= s0);
            let proj = |r: &NodeConfig| *r;
            lemma_filter_index_is_filter(s0, keep, |x: &NodeConfig| is_voter()(proj(x)));
            lemma_map_filter(s0, proj, is_voter());
            assert(s0.map_values(proj) =~= self.nodes@);
        }
//@end

//@fn ClusterConfig::learners ret=r
//@ensures
        deref_seq(r@) == self.nodes@.filter(is_learner()),    //#learners_are_the_non_voter_entries
//@chain ".filter(" c
//@closure filter#1 (n: &&NodeConfig) -> (b: bool) ensures b == (@BODY)
//@after "let c1 ="
        let ghost s0 = c1.remaining();
//@after "let c2 ="
        let ghost keep = vstd::std_specs::iter::filter_keep(c2);
        let ghost s1 = c2.remaining();
//@after "let c3 ="
        proof {
            assert(keep.len() == s0.len());
            assert(s0.take(keep.len() as int) =~= s0);
            let proj = |r: &NodeConfig| *r;
            lemma_filter_index_is_filter(s0, keep, |x: &NodeConfig| is_learner()(proj(x)));
            lemma_map_filter(s0, proj, is_learner());
            assert(s0.map_values(proj) =~= self.nodes@);
        }
//@end

//@fn ClusterConfig::validate ret=r
//@ensures
        r.is_ok() ==> config_wf(*self),       //#ok_implies_distinct_ids
//@loop 1 iter=it
            invariant
                deref_seq(it.seq()) == self.nodes@,                                         //#iter_seq
                seen@ == ids(self.nodes@.take(it.index() as int)).to_set(),     //#seen_is_prefix_ids
                ids(self.nodes@.take(it.index() as int)).no_duplicates(),        //#prefix_distinct
//@before "if !seen.insert("
            let ghost idx = it.index() as int;
            proof {
                let pre = self.nodes@.take(idx);
                let nxt = self.nodes@.take(idx + 1);
                assert(nxt =~= pre.push(self.nodes@[idx]));
                assert(ids(nxt) =~= ids(pre).push(self.nodes@[idx].id));
                lemma_push_to_set(ids(pre), self.nodes@[idx].id);
            }
//@after "let voters ="
        proof { assert(self.nodes@.take(self.nodes@.len() as int) =~= self.nodes@); }
//@end
}

impl ClusterManager {
    pub open spec fn mwf(&self) -> bool { config_wf(self.config) }

//@fn ClusterManager::new ret=r
//@ensures
        r matches Ok(m) ==> m.mwf() && m.config == config && m.active_nodes@ == Set::<u64>::empty(),   //#ok_establishes_wf
//@replace "chrono::Utc::now().timestamp()" => "now_timestamp()" :: chrono is external; the timestamp is an arbitrary i64 (A-EXT)
//@end

//@fn ClusterManager::update_config selfmut ret=r
//@requires
        old(self).mwf(),
//@ensures
        final(self).mwf(),                                              //#keeps_wf
        r.is_ok() ==> final(self).config == config,                     //#ok_installs
        r.is_err() ==> final(self).config == old(self).config,          //#err_unchanged
        final(self).active_nodes == old(self).active_nodes,             //#active_frame
//@end

//@fn ClusterManager::add_node selfmut ret=r
//@requires
        old(self).mwf(),
//@ensures
        final(self).mwf(),                                              //#keeps_wf
        final(self).active_nodes == old(self).active_nodes,             //#active_frame
//@replace "chrono::Utc::now().timestamp()" => "now_timestamp()" :: chrono is external; the timestamp is an arbitrary i64 (A-EXT)
//@end

//@fn ClusterManager::remove_node selfmut ret=r
//@requires
        old(self).mwf(),
//@ensures
        final(self).mwf(),                                              //#keeps_wf
        final(self).config.nodes@ == old(self).config.nodes@.filter(not_id(id)),   //#removes_exactly_id
        final(self).active_nodes@ == old(self).active_nodes@.remove(id),           //#deactivates_id
//@closure retain#1 (n: &NodeConfig) -> (b: bool) ensures b == (@BODY)
//@after ".retain("
        proof {
            let s = old(self).config.nodes@;
            let keep = choose|keep: Seq<bool>| keep.len() == s.len()
                && (forall|i: int| 0 <= i < keep.len() ==> #[trigger] keep[i] == (s[i].id != id))
                && config.nodes@ == filter_by(s, keep);
            lemma_filter_by(s, keep, not_id(id));
            lemma_filter_nodup(s, not_id(id));
        }
//@end

//@fn ClusterManager::mark_active selfmut
//@requires
        old(self).mwf(),
//@ensures
        final(self).mwf(),                                                  //#keeps_wf
        final(self).config == old(self).config,                             //#config_frame
        final(self).active_nodes@ == old(self).active_nodes@.insert(id),    //#activates_id
//@replace "chrono::Utc::now().timestamp()" => "now_timestamp()" :: chrono is external; the timestamp is an arbitrary i64 (A-EXT)
//@end

//@fn ClusterManager::mark_inactive selfmut
//@requires
        old(self).mwf(),
//@ensures
        final(self).mwf(),                                                  //#keeps_wf
        final(self).config == old(self).config,                             //#config_frame
        final(self).active_nodes@ == old(self).active_nodes@.remove(id),    //#deactivates_id
//@end

//@fn ClusterManager::update_node_role selfmut
//@requires
        old(self).mwf(),
//@ensures
        final(self).mwf(),                                                  //#keeps_wf
        final(self).config == old(self).config,                             //#config_frame
        final(self).active_nodes == old(self).active_nodes,                 //#active_frame
//@end

//@fn ClusterManager::health_status ret=r
//@requires
        self.mwf(),
//@ensures
        r.total_voters == voter_ids(self.config.nodes@).len(),                                      //#total_is_distinct_voters
        r.active_voters == active_voter_ids(self.config.nodes@, self.active_nodes@).len(),          //#active_is_distinct_active_voters
        r.healthy ==> r.has_leader,                                                                 //#healthy_needs_leader
        r.healthy ==> 2 * active_voter_ids(self.config.nodes@, self.active_nodes@).len()
                        > voter_ids(self.config.nodes@).len(),                                      //#healthy_needs_strict_majority
        r.has_leader ==> exists|k: u64| self.node_metadata@.contains_key(k)
                        && self.node_metadata@[k].role == NodeRole::Leader,                         //#leader_is_known
//@atstart
        broadcast use axiom_vec_len_b;
//@chain ".filter(" d
//@chain ".any(" e mut
//@after "let mut e1 ="
        let ghost rem0 = e1.remaining();
//@after "let has_leader ="
        proof {
            if has_leader {
                let idx = rem0.len() - e1.remaining().len() - 1;
                let m0 = rem0[idx];
                assert(m0.role == NodeRole::Leader);
                assert(rem0.unref()[idx] == *m0);
                assert(rem0.unref().to_set().contains(*m0));
                assert(metadata@.values().contains(*m0));
            }
        }
//@closure filter#1 (n: &&&NodeConfig) -> (b: bool) ensures b == active@.contains(n.id)
//@closure any#1 (m: &NodeMetadata) -> (b: bool) ensures b == (m.role == NodeRole::Leader)
//@after "let d1 ="
        proof { lemma_active_subset(config.nodes@, active@); }
//@after "let d2 ="
        let ghost s0 = d2.remaining();
//@after "let d3 ="
        let ghost keep = vstd::std_specs::iter::filter_keep(d3);
        let ghost s1 = d3.remaining();
//@after "let active_voters ="
        proof {
            assert(keep.len() == s0.len());
            assert(s0.take(keep.len() as int) =~= s0);
            let proj = |r: &&NodeConfig| **r;
            let pn = |n: NodeConfig| active@.contains(n.id);
            lemma_filter_index_is_filter(s0, keep, |x: &&NodeConfig| pn(proj(x)));
            lemma_map_filter(s0, proj, pn);
            assert(s0.map_values(proj) =~= deref_seq(d1@));
            lemma_filter_filter(config.nodes@, is_voter(), pn, is_active_voter(active@));
        }
//@end
}

} // verus!
fn main() {}
