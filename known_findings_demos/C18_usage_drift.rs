// Demonstration (C18): the tenant's usage counters drift from what is stored when a missing id is deleted or an
// existing id is created again, so the quota can be exceeded.  Run as tests/tmp_c18_usage_drift.rs in /repo.
use samyama::graph::{Node, NodeId};
use samyama::persistence::{PersistenceManager, ResourceQuotas};

#[test]
fn deleting_a_missing_node_must_not_free_quota() {
    let dir = tempfile::TempDir::new().unwrap();
    let m = PersistenceManager::new(dir.path()).unwrap();
    let mut q = ResourceQuotas::default();
    q.max_nodes = Some(2);
    m.tenants().create_tenant("t".to_string(), "t".to_string(), Some(q)).unwrap();
    m.persist_create_node("t", &Node::new(NodeId::new(1), "N")).unwrap();
    m.persist_create_node("t", &Node::new(NodeId::new(2), "N")).unwrap();
    // the quota is full
    assert!(m.persist_create_node("t", &Node::new(NodeId::new(3), "N")).is_err());
    // deleting a node that does not exist changes nothing that is stored ...
    m.persist_delete_node("t", 99).unwrap();
    assert_eq!(m.storage().scan_nodes("t").unwrap().len(), 2);
    // ... and must not make room for a third node
    assert!(m.persist_create_node("t", &Node::new(NodeId::new(3), "N")).is_err(),
        "a third node was accepted although the quota is 2 and 2 nodes are stored");
}

#[test]
fn writing_an_existing_node_again_counts_once() {
    let dir = tempfile::TempDir::new().unwrap();
    let m = PersistenceManager::new(dir.path()).unwrap();
    let mut q = ResourceQuotas::default();
    q.max_nodes = Some(2);
    m.tenants().create_tenant("t".to_string(), "t".to_string(), Some(q)).unwrap();
    m.persist_create_node("t", &Node::new(NodeId::new(1), "N")).unwrap();
    m.persist_create_node("t", &Node::new(NodeId::new(1), "N")).unwrap();
    assert_eq!(m.storage().scan_nodes("t").unwrap().len(), 1);
    assert_eq!(m.tenants().get_usage("t").unwrap().node_count, 1, "one stored node is counted twice");
}
