use samyama::graph::GraphStore;

#[test]
fn edges_between_after_two_compactions() {
    let mut g = GraphStore::new();
    let ids: Vec<_> = (0..8).map(|_| g.create_node("N")).collect();
    let a = ids[0];
    let e5 = g.create_edge(a, ids[5], "R").unwrap();
    let e7 = g.create_edge(a, ids[7], "R").unwrap();
    g.compact_adjacency();
    let e3 = g.create_edge(a, ids[3], "R").unwrap();
    g.compact_adjacency();
    assert_eq!(g.edges_between(a, ids[5], None), vec![e5]);
    assert_eq!(g.edges_between(a, ids[7], None), vec![e7]);
    assert_eq!(g.edges_between(a, ids[3], None), vec![e3], "edge to the third node is not found after two compactions");
    assert_eq!(g.edge_between(a, ids[3], None), Some(e3));
}
