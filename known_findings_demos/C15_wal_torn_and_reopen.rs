use samyama::persistence::{Wal, WalEntry};
use std::fs::OpenOptions;

fn entry(i: u64) -> WalEntry {
    WalEntry::CreateNode { tenant: "default".to_string(), node_id: i, labels: vec!["Person".to_string()], properties: vec![1, 2, 3] }
}

#[test]
fn torn_tail_is_end_of_log() {
    let dir = tempfile::TempDir::new().unwrap();
    {
        let mut wal = Wal::new(dir.path()).unwrap();
        wal.append(entry(1)).unwrap();
        wal.append(entry(2)).unwrap();
        wal.flush().unwrap();
    }
    // tear the last record: cut 5 bytes off the only segment
    let seg = std::fs::read_dir(dir.path()).unwrap().flatten().next().unwrap().path();
    let len = std::fs::metadata(&seg).unwrap().len();
    let f = OpenOptions::new().write(true).open(&seg).unwrap();
    f.set_len(len - 5).unwrap();
    drop(f);
    let wal = Wal::new(dir.path()).unwrap();
    let mut got = Vec::new();
    let r = wal.replay(0, |e| { if let WalEntry::CreateNode { node_id, .. } = e { got.push(*node_id); } Ok(()) });
    assert!(r.is_ok(), "replay of a log with a torn tail failed: {:?}", r.err());
    assert_eq!(got, vec![1]);
}

#[test]
fn sequence_numbers_after_reopen() {
    let dir = tempfile::TempDir::new().unwrap();
    let mut seqs = Vec::new();
    {
        let mut wal = Wal::new(dir.path()).unwrap();
        for i in 0..3 { seqs.push(wal.append(entry(i)).unwrap()); }
        wal.flush().unwrap();
    }
    {
        let mut wal = Wal::new(dir.path()).unwrap();
        for i in 3..5 { seqs.push(wal.append(entry(i)).unwrap()); }
        wal.flush().unwrap();
    }
    assert!(seqs.windows(2).all(|w| w[0] < w[1]), "sequence numbers repeat across reopen: {:?}", seqs);
}
