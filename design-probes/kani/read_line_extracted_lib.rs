use bytes::{Buf, BytesMut};
pub type RespResult<T> = Result<T, ()>;
pub struct R;
impl R {
    pub fn read_line(buf: &mut BytesMut) -> RespResult<Option<Vec<u8>>> {
        // Find \r\n
        if let Some(pos) = buf.windows(2).position(|w| w == b"\r\n") {
            let line = buf[..pos].to_vec();
            buf.advance(pos + 2);
            Ok(Some(line))
        } else {
            Ok(None)
        }
    }
}
#[cfg(kani)]
mod proofs {
    use super::*;
    #[kani::proof]
    #[kani::unwind(8)]
    fn read_line_contract6() {
        let arr: [u8; 6] = kani::any();
        let n: usize = kani::any();
        kani::assume(n <= 6);
        let mut buf = BytesMut::from(&arr[..n]);
        let r = R::read_line(&mut buf);
        match r {
            Ok(None) => {
                assert!(buf.len() == n);
                // no CRLF anywhere
                let mut i = 0;
                while i + 1 < n { assert!(!(arr[i] == b'\r' && arr[i+1] == b'\n')); i += 1; }
            }
            Ok(Some(line)) => {
                let l = line.len();
                assert!(l + 2 <= n);
                assert!(arr[l] == b'\r' && arr[l+1] == b'\n');
                assert!(buf.len() == n - l - 2);
                let mut i = 0;
                while i < l { assert!(line[i] == arr[i]); i += 1; }
                let mut j = 0;
                while j + 1 < l { assert!(!(arr[j] == b'\r' && arr[j+1] == b'\n')); j += 1; }
            }
            Err(_) => assert!(false),
        }
    }
}
