#[path = "/repo/src/graph/property.rs"]
pub mod property;
#[path = "/repo/src/protocol/resp.rs"]
pub mod resp;

#[cfg(kani)]
mod proofs {
    use super::property::PropertyValue;
    use std::cmp::Ordering;
    fn any_scalar() -> PropertyValue {
        match kani::any::<u8>() % 3 {
            0 => PropertyValue::Integer(kani::any()),
            1 => PropertyValue::Float(kani::any()),
            _ => PropertyValue::Boolean(kani::any()),
        }
    }
    #[kani::proof]
    #[kani::unwind(2)]
    fn ord_transitive_scalar() {
        let a = any_scalar(); let b = any_scalar(); let c = any_scalar();
        if a.cmp(&b) == Ordering::Less && b.cmp(&c) == Ordering::Less {
            assert!(a.cmp(&c) == Ordering::Less);
        }
    }
    #[kani::proof]
    #[kani::unwind(2)]
    fn ord_antisym_scalar() {
        let a = any_scalar(); let b = any_scalar();
        assert!(a.cmp(&b) == b.cmp(&a).reverse());
    }

    #[kani::proof]
    #[kani::unwind(9)]
    fn resp_decode_total6() {
        use bytes::BytesMut;
        let arr: [u8; 6] = kani::any();
        let n: usize = kani::any();
        kani::assume(n <= 6);
        let mut buf = BytesMut::from(&arr[..n]);
        let r = super::resp::RespValue::decode(&mut buf);
        kani::cover!(matches!(r, Ok(Some(_))));
        kani::cover!(matches!(r, Err(_)));
    }
}
