#[path = "/repo/src/graph/property.rs"]
pub mod property;
use property::PropertyValue;
use std::collections::HashMap;

/// Convert PropertyValue to serde_json::Value for snapshot serialization
fn property_to_json(pv: &PropertyValue) -> serde_json::Value {
    match pv {
        PropertyValue::String(s) => serde_json::Value::String(s.clone()),
        PropertyValue::Integer(i) => serde_json::json!(i),
        PropertyValue::Float(f) => serde_json::json!(f),
        PropertyValue::Boolean(b) => serde_json::json!(b),
        PropertyValue::Null => serde_json::Value::Null,
        PropertyValue::DateTime(dt) => {
            // Wrap in an object to distinguish from plain integer
            serde_json::json!({"__type": "DateTime", "value": dt})
        }
        PropertyValue::Array(arr) => {
            serde_json::Value::Array(arr.iter().map(property_to_json).collect())
        }
        PropertyValue::Map(map) => {
            let obj: serde_json::Map<String, serde_json::Value> = map
                .iter()
                .map(|(k, v)| (k.clone(), property_to_json(v)))
                .collect();
            serde_json::Value::Object(obj)
        }
        PropertyValue::Vector(v) => {
            serde_json::json!({"__type": "Vector", "value": v})
        }
        PropertyValue::Duration {
            months,
            days,
            seconds,
            nanos,
        } => {
            serde_json::json!({
                "__type": "Duration",
                "months": months,
                "days": days,
                "seconds": seconds,
                "nanos": nanos
            })
        }
    }
}

/// Convert serde_json::Value back to PropertyValue for snapshot import
fn json_to_property(val: &serde_json::Value) -> PropertyValue {
    match val {
        serde_json::Value::String(s) => PropertyValue::String(s.trim().to_string()),
        serde_json::Value::Number(n) => {
            if let Some(i) = n.as_i64() {
                PropertyValue::Integer(i)
            } else if let Some(f) = n.as_f64() {
                PropertyValue::Float(f)
            } else {
                PropertyValue::Null
            }
        }
        serde_json::Value::Bool(b) => PropertyValue::Boolean(*b),
        serde_json::Value::Null => PropertyValue::Null,
        serde_json::Value::Array(arr) => {
            PropertyValue::Array(arr.iter().map(json_to_property).collect())
        }
        serde_json::Value::Object(obj) => {
            // Check for tagged types (__type field)
            if let Some(type_tag) = obj.get("__type").and_then(|v| v.as_str()) {
                match type_tag {
                    "DateTime" => {
                        if let Some(dt) = obj.get("value").and_then(|v| v.as_i64()) {
                            return PropertyValue::DateTime(dt);
                        }
                    }
                    "Vector" => {
                        if let Some(arr) = obj.get("value").and_then(|v| v.as_array()) {
                            let floats: Vec<f32> = arr
                                .iter()
                                .filter_map(|v| v.as_f64().map(|f| f as f32))
                                .collect();
                            return PropertyValue::Vector(floats);
                        }
                    }
                    "Duration" => {
                        let months = obj
                            .get("months")
                            .and_then(|v| v.as_i64())
                            .unwrap_or(0);
                        let days =
                            obj.get("days").and_then(|v| v.as_i64()).unwrap_or(0);
                        let seconds = obj
                            .get("seconds")
                            .and_then(|v| v.as_i64())
                            .unwrap_or(0);
                        let nanos = obj
                            .get("nanos")
                            .and_then(|v| v.as_i64())
                            .unwrap_or(0) as i32;
                        return PropertyValue::Duration {
                            months,
                            days,
                            seconds,
                            nanos,
                        };
                    }
                    _ => {}
                }
            }
            // Plain map (no __type tag)
            let map: HashMap<String, PropertyValue> = obj
                .iter()
                .map(|(k, v)| (k.clone(), json_to_property(v)))
                .collect();
            PropertyValue::Map(map)
        }
    }
}



pub fn cache_key(query_str: &str) -> String {
    let normalized = query_str.split_whitespace().collect::<Vec<_>>().join(" ");
    normalized
}

#[cfg(kani)]
mod proofs {
    use super::*;
    #[kani::proof]
    #[kani::unwind(6)]
    fn codec_scalar_roundtrip() {
        let v = match kani::any::<u8>() % 4 {
            0 => PropertyValue::Integer(kani::any()),
            1 => PropertyValue::Boolean(kani::any()),
            2 => PropertyValue::DateTime(kani::any()),
            _ => PropertyValue::Null,
        };
        let j = property_to_json(&v);
        let w = json_to_property(&j);
        assert!(w == v);
    }
    #[kani::proof]
    #[kani::unwind(8)]
    fn codec_string_roundtrip() {
        let b: [u8; 2] = kani::any();
        kani::assume(b[0] == b' ' || b[0] == b'a');
        kani::assume(b[1] == b' ' || b[1] == b'a');
        let s = String::from_utf8(b.to_vec()).unwrap();
        let v = PropertyValue::String(s);
        let j = property_to_json(&v);
        let w = json_to_property(&j);
        assert!(w == v);
    }
    #[kani::proof]
    #[kani::unwind(8)]
    fn key_pair4() {
        let a: [u8; 4] = kani::any();
        let b: [u8; 4] = kani::any();
        for i in 0..4 {
            kani::assume(a[i] == b' ' || a[i] == b'\'' || a[i] == b'x');
            kani::assume(b[i] == b' ' || b[i] == b'\'' || b[i] == b'x');
        }
        let sa = std::str::from_utf8(&a).unwrap();
        let sb = std::str::from_utf8(&b).unwrap();
        if cache_key(sa) == cache_key(sb) {
            // crude lex-equivalence: a quoted string "'..'" spanning the whole input must match exactly
            if a[0] == b'\'' && a[3] == b'\'' && b[0] == b'\'' && b[3] == b'\'' {
                assert!(a == b);
            }
        }
    }
}
