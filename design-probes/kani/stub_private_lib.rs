pub mod m {
    pub struct P;
    impl P {
        fn read_len(buf: &[u8]) -> Option<i64> {
            let s = std::str::from_utf8(buf).ok()?;
            s.parse::<i64>().ok()
        }
        pub fn need(buf: &[u8], have: usize) -> bool {
            match Self::read_len(buf) {
                Some(len) => {
                    if len == -1 { return true; }
                    let len = len as usize;
                    have < len + 2
                }
                None => false,
            }
        }
    }
}
#[cfg(kani)]
mod proofs {
    fn any_len(_buf: &[u8]) -> Option<i64> { kani::any() }
    #[kani::proof]
    #[kani::unwind(2)]
    #[kani::stub(crate::m::P::read_len, any_len)]
    fn len_arith() {
        let have: usize = kani::any();
        let b = [0u8; 1];
        let _ = crate::m::P::need(&b, have);
    }
}
