#[path = "/repo/src/protocol/resp.rs"]
pub mod resp;
#[cfg(kani)]
mod proofs {
    use super::resp::RespValue;
    #[kani::proof]
    #[kani::unwind(5)]
    fn encode_error3() {
        let a: [u8; 3] = kani::any();
        for i in 0..3 { kani::assume(a[i] == b'\r' || a[i] == b'\n' || a[i] == b'x'); }
        let s = String::from_utf8(a.to_vec()).unwrap();
        let v = RespValue::Error(s);
        let mut out: Vec<u8> = Vec::new();
        v.encode(&mut out).unwrap();
        assert!(out.len() == 6);
        assert!(out[0] == b'-' && out[1] == a[0] && out[2] == a[1] && out[3] == a[2] && out[4] == b'\r' && out[5] == b'\n');
    }
    #[kani::proof]
    #[kani::unwind(8)]
    fn read_line6() {
        use bytes::BytesMut;
        let arr: [u8; 6] = kani::any();
        let n: usize = kani::any();
        kani::assume(n <= 6);
        let mut buf = BytesMut::from(&arr[..n]);
        // read_line is private: reach it through decode_null ('_' prefix)
        kani::assume(n >= 1 && arr[0] == b'_');
        let before = buf.len();
        let r = RespValue::decode(&mut buf);
        if let Ok(None) = r { assert!(buf.len() == before); }
    }
}
