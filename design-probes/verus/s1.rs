use vstd::prelude::*;
verus!{
pub struct U { pub node_count: usize, pub edge_count: usize }
fn inc(u: &mut U, resource: &str, amount: usize)
  requires old(u).node_count + amount <= usize::MAX, old(u).edge_count + amount <= usize::MAX
  ensures resource@ == "nodes"@ ==> final(u).node_count == old(u).node_count + amount
{
    match resource {
        "nodes" => u.node_count += amount,
        "edges" => u.edge_count += amount,
        _ => {}
    }
}
}
fn main(){}
