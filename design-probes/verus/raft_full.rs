#![feature(allocator_api)]
use vstd::prelude::*;
verus!{
// ---------- lemmas.rs (proof-only) ----------
pub open spec fn filter_by<T>(s: Seq<T>, keep: Seq<bool>) -> Seq<T>
    decreases s.len()
{
    if s.len() == 0 || keep.len() != s.len() { Seq::empty() }
    else {
        let rest = filter_by(s.drop_last(), keep.drop_last());
        if keep.last() { rest.push(s.last()) } else { rest }
    }
}
pub proof fn lemma_filter_by<T>(s: Seq<T>, keep: Seq<bool>, pred: spec_fn(T) -> bool)
    requires keep.len() == s.len(), forall|i: int| 0 <= i < s.len() ==> keep[i] == pred(s[i])
    ensures filter_by(s, keep) == s.filter(pred)
    decreases s.len()
{
    reveal(Seq::filter);
    if s.len() == 0 { } else { lemma_filter_by(s.drop_last(), keep.drop_last(), pred); }
}
pub open spec fn inc(s: Seq<LogEntry>) -> bool {
    forall|i: int, j: int| 0 <= i < j < s.len() ==> s[i].index < s[j].index
}
pub open spec fn below(i: u64) -> spec_fn(LogEntry) -> bool { |e: LogEntry| e.index < i }
pub open spec fn above(i: u64) -> spec_fn(LogEntry) -> bool { |e: LogEntry| e.index > i }

// a filtered increasing sequence is increasing, and is a subsequence
pub proof fn lemma_filter_inc(s: Seq<LogEntry>, p: spec_fn(LogEntry) -> bool)
    requires inc(s)
    ensures inc(s.filter(p)),
        forall|k: int| 0 <= k < s.filter(p).len() ==> p(#[trigger] s.filter(p)[k]) && s.contains(s.filter(p)[k]),
    decreases s.len()
{
    reveal(Seq::filter);
    if s.len() == 0 { } else {
        let t = s.drop_last();
        assert(inc(t));
        lemma_filter_inc(t, p);
        let f = t.filter(p);
        assert forall|k: int| 0 <= k < f.len() implies (#[trigger] f[k]).index < s.last().index by {
            assert(t.contains(f[k]));
            let w = choose|w: int| 0 <= w < t.len() && t[w] == f[k];
            assert(s[w] == t[w]);
        }
        assert forall|k: int| 0 <= k < s.filter(p).len() implies s.contains(#[trigger] s.filter(p)[k]) by {
            if k < f.len() {
                assert(t.contains(f[k]));
                let w = choose|w: int| 0 <= w < t.len() && t[w] == f[k];
                assert(s[w] == f[k]);
            } else {
                assert(s[s.len() - 1] == s.last());
            }
        }
    }
}

// ---------- prelude.rs (assumed) ----------
pub assume_specification<T, A: core::alloc::Allocator, F: FnMut(&T) -> bool>[ Vec::<T, A>::retain ](v: &mut Vec<T, A>, f: F)
    requires forall|x: &T| #[trigger] f.requires((x,)),
    ensures
        exists|keep: Seq<bool>| keep.len() == old(v)@.len()
            && (forall|i: int| 0 <= i < keep.len() ==> f.ensures((&old(v)@[i],), #[trigger] keep[i]))
            && final(v)@ == filter_by(old(v)@, keep),
;
pub enum RaftError { Storage(String) }
pub type RaftResult<T> = Result<T, RaftError>;

// ---------- extracted from src/raft/storage.rs (R1, D1, D2) + spliced contracts ----------
pub struct LogEntry { pub index: u64, pub term: u64, pub data: Vec<u8> }

pub struct RaftStorage {
    log: Vec<LogEntry>,
    snapshot_metadata: Option<(u64, u64)>,
}

impl RaftStorage {
    pub closed spec fn wf(&self) -> bool { inc(self.log@) }
    pub closed spec fn logv(&self) -> Seq<LogEntry> { self.log@ }
    pub closed spec fn snap(&self) -> Option<(u64, u64)> { self.snapshot_metadata }

    pub async fn get_last_log_index_term(&self) -> (r: (u64, u64))
        ensures
            self.logv().len() > 0 ==> r == (self.logv().last().index, self.logv().last().term),
            self.logv().len() == 0 ==> r == (match self.snap() { Some(p) => p, None => (0u64, 0u64) }),
    {
        let log = (&self.log);

        if let Some(last) = log.last() {
            (last.index, last.term)
        } else {
            // Check snapshot
            if let Some((index, term)) = *(&self.snapshot_metadata) {
                (index, term)
            } else {
                (0, 0)
            }
        }
    }

    pub async fn delete_entries_from(&mut self, index: u64) -> (r: RaftResult<()>)
        requires old(self).wf()
        ensures
            r.is_ok(),
            final(self).logv() == old(self).logv().filter(below(index)),
            final(self).snap() == old(self).snap(),
            final(self).wf(),
    {
        let mut log = (&mut self.log);
        log.retain(|e: &LogEntry| -> (b: bool) ensures b == (e.index < index) { e.index < index });
        proof {
            let s = old(self).log@;
            let keep = choose|keep: Seq<bool>| keep.len() == s.len()
                && (forall|i: int| 0 <= i < keep.len() ==> #[trigger] keep[i] == (s[i].index < index))
                && log@ == filter_by(s, keep);
            lemma_filter_by(s, keep, below(index));
            lemma_filter_inc(s, below(index));
        }
        Ok(())
    }

    // ---- create_snapshot: CURRENT code ----
    pub async fn create_snapshot(
        &mut self,
        index: u64,
        term: u64,
        _data: Vec<u8>,
    ) -> (r: RaftResult<()>)
        requires old(self).wf(), index < u64::MAX
        ensures
            r.is_ok(),
            final(self).snap() == Some((index, term)),
            final(self).logv() == old(self).logv().filter(above(index)),   // post#keeps_tail
            final(self).wf(),
    {
        // Save snapshot metadata
        let mut metadata = (&mut self.snapshot_metadata);
        *metadata = Some((index, term));

        // Compact log by removing entries up to snapshot index
        self.delete_entries_from(index + 1).await?;

        Ok(())
    }
}
}
fn main(){}
