use vstd::prelude::*;
use std::collections::HashMap;
verus!{
pub assume_specification[ usize::div_ceil ](a: usize, b: usize) -> (r: usize)
    requires b != 0,
    ensures r as int == (a as int + b as int - 1) / (b as int),
;
pub enum ColumnData<T> {
    /// Scattered rows: a hash map from row index to value.
    Sparse(HashMap<usize, T>),
    /// A contiguous band of rows: `values[idx - base]`, with a presence bit
    /// per slot so an absent row is distinguishable from a stored default.
    ///
    /// `base` is not decoration. Node indices run from a counter, but a
    /// *label's* rows sit in a contiguous band inside that range -- LDBC loads
    /// Places, Organisations, Tags, Persons, Forums, Posts, then Comments, so
    /// `Post.content` is 1.19M consecutive indices starting above 1.1M. Without
    /// a base, a dense array for it would allocate the whole unused prefix.
    Dense {
        base: usize,
        values: Vec<T>,
        /// One bit per slot, `present[i / 64] & (1 << (i % 64))`.
        present: Vec<u64>,
        /// How many slots are present.
        ///
        /// Kept rather than counted: `len()` is consulted on every write that
        /// lands outside the span, and popcounting the bitmap there would make
        /// loading a column quadratic in its length.
        count: usize,
    },
}

/// Is a dense array smaller than a hash map for this shape?
///
/// `hashbrown` stores `(usize, T)` plus one control byte per bucket at a load
/// factor of 7/8, so a sparse entry costs `(8 + size_of::<T>() + 1) * 8/7`.
/// A dense slot costs `size_of::<T>()` plus one presence bit, whether or not
/// the row is present -- so the comparison is per *span*, not per entry.
///
/// The break-even fill factor therefore depends on the element size, and a
/// single global threshold would either waste memory on `String` columns or
/// leave speed unclaimed on `bool` ones:
///
/// | T | sparse B/entry | dense B/slot | break-even fill |
/// |---|---:|---:|---:|
/// | `bool` | 11.4 | 1.125 | 0.10 |
/// | `i64`, `f64` | 19.4 | 8.125 | 0.42 |
/// | `String` | 37.7 | 24.125 | 0.64 |
///
/// String *contents* are heap-allocated either way and cancel out; only the
/// 24-byte `String` header is counted here.
pub fn dense_is_smaller(span: usize, entries: usize, elem_bytes: usize) -> bool {
    if span == 0 || entries == 0 {
        return false;
    }
    // Scaled by 8 throughout to stay in integer arithmetic: a floating-point
    // threshold in a storage decision invites a platform-dependent layout.
    let dense_bits = span.saturating_mul(elem_bytes.saturating_mul(8) + 1);
    let sparse_bits = entries
        .saturating_mul((8 + elem_bytes + 1) * 8 * 8)
        / 7;
    dense_bits < sparse_bits
}

impl<T: Clone + Default> ColumnData<T> {
    fn new() -> Self {
        ColumnData::Sparse(HashMap::default())
    }

    fn get(&self, idx: usize) -> Option<&T> {
        match self {
            ColumnData::Sparse(m) => m.get(&idx),
            ColumnData::Dense { base, values, present, .. } => {
                let slot = idx.checked_sub(*base)?;
                if slot >= values.len() || !bit(present, slot) {
                    return None;
                }
                Some(&values[slot])
            }
        }
    }

    fn has(&self, idx: usize) -> bool {
        self.get(idx).is_some()
    }

    fn len(&self) -> usize {
        match self {
            ColumnData::Sparse(m) => m.len(),
            ColumnData::Dense { count, .. } => *count,
        }
    }

    fn remove(&mut self, idx: usize) {
        match self {
            ColumnData::Sparse(m) => {
                m.remove(&idx);
            }
            ColumnData::Dense { base, values, present, count } => {
                // Clear the presence bit and the value. Node ids are recycled
                // through a free list, so a deleted node's slot goes to the
                // next `create_node`; leaving the old value behind is how
                // deleted data reappeared on new nodes (#364). Clearing the
                // bit alone would be enough for `get`, but not for anything
                // that walks `values` directly.
                if let Some(slot) = idx.checked_sub(*base) {
                    if slot < values.len() && bit(present, slot) {
                        clear_bit(present, slot);
                        values[slot] = T::default();
                        *count -= 1;
                    }
                }
            }
        }
    }

    fn set(&mut self, idx: usize, value: T) {
        match self {
            ColumnData::Sparse(m) => {
                m.insert(idx, value);
                self.maybe_promote();
            }
            ColumnData::Dense { base, values, present, count } => {
                if idx >= *base && idx - *base < values.len() {
                    let slot = idx - *base;
                    if !bit(present, slot) {
                        set_bit(present, slot);
                        *count += 1;
                    }
                    values[slot] = value;
                    return;
                }

                // Outside the span. Extend if the wider span is still smaller
                // than a map would be; otherwise fall back to sparse rather
                // than allocate a range for one far-away row. One rule decides
                // both directions, so there is no second policy to keep
                // consistent with the first.
                let entries = *count + 1;
                let elem = std::mem::size_of::<T>();

                if idx >= *base {
                    // Growing upward -- the common case, and the one a load
                    // does once per row. `Vec::resize` reserves geometrically,
                    // so repeatedly extending by one is amortised O(1);
                    // rebuilding into a fresh exactly-sized Vec each time (as
                    // an earlier draft did) makes a 1M-row load quadratic.
                    let new_span = idx - *base + 1;
                    if dense_is_smaller(new_span, entries, elem) {
                        values.resize(new_span, T::default());
                        present.resize(new_span.div_ceil(64), 0);
                        let slot = idx - *base;
                        set_bit(present, slot);
                        values[slot] = value;
                        *count += 1;
                        return;
                    }
                } else {
                    // Below the base. Rare -- properties arrive in id order --
                    // and it needs every slot shifted, so it rebuilds.
                    let new_base = idx;
                    let new_span = *base + values.len() - new_base;
                    if dense_is_smaller(new_span, entries, elem) {
                        self.rebase(new_base, new_span);
                        let ColumnData::Dense { base, values, present, count } = self else {
                            unreachable!("rebase leaves the column dense")
                        };
                        let slot = idx - *base;
                        set_bit(present, slot);
                        values[slot] = value;
                        *count += 1;
                        return;
                    }
                }

                self.demote_to_sparse();
                let ColumnData::Sparse(m) = self else {
                    unreachable!("demote leaves the column sparse")
                };
                m.insert(idx, value);
            }
        }
    }

    /// Shift a dense column down to a lower base.
    ///
    /// Every slot moves, so this rebuilds. Only reached when a row arrives
    /// below everything already stored, which properties loaded in id order
    /// never do.
    fn rebase(&mut self, new_base: usize, new_span: usize) {
        let ColumnData::Dense { base, values, present, count } = self else {
            return;
        };
        let shift = *base - new_base;
        let mut next_values = vec![T::default(); new_span];
        let mut next_present = vec![0u64; new_span.div_ceil(64)];
        for slot in 0..values.len() {
            if bit(present, slot) {
                next_values[slot + shift] = values[slot].clone();
                set_bit(&mut next_present, slot + shift);
            }
        }
        *self = ColumnData::Dense {
            base: new_base,
            values: next_values,
            present: next_present,
            count: *count,
        };
    }

    fn demote_to_sparse(&mut self) {
        let ColumnData::Dense { base, values, present, .. } = self else {
            return;
        };
        let mut m = HashMap::default();
        for slot in 0..values.len() {
            if bit(present, slot) {
                m.insert(*base + slot, values[slot].clone());
            }
        }
        *self = ColumnData::Sparse(m);
    }

    /// Visit every present `(row index, value)` pair. Used when a column has
    /// to give up its typed representation for one it cannot hold.
    fn for_each(&self, mut visit: impl FnMut(usize, &T)) {
        match self {
            ColumnData::Sparse(m) => {
                for (idx, value) in m {
                    visit(*idx, value);
                }
            }
            ColumnData::Dense { base, values, present, .. } => {
                for slot in 0..values.len() {
                    if bit(present, slot) {
                        visit(base + slot, &values[slot]);
                    }
                }
            }
        }
    }

    /// Consider promoting a sparse column to dense.
    ///
    /// Deciding needs the index range, which costs a scan of the map, so it is
    /// only considered when `len` crosses a power of two at or above
    /// [`PROMOTE_MIN_ENTRIES`]. That is amortised O(1) per insert -- checking
    /// on every insert would make loading a column O(n^2) -- and a column that
    /// is going to be dense becomes dense early in a load rather than at the
    /// end of one.
    #[verifier::external_body]
    fn maybe_promote(&mut self) {
        let ColumnData::Sparse(m) = self else { return };
        let len = m.len();
        if len < PROMOTE_MIN_ENTRIES || !len.is_power_of_two() {
            return;
        }
        let (Some(&min), Some(&max)) = (m.keys().min(), m.keys().max()) else {
            return;
        };
        let span = max - min + 1;
        if !dense_is_smaller(span, len, std::mem::size_of::<T>()) {
            return;
        }
        let mut values = vec![T::default(); span];
        let mut present = vec![0u64; span.div_ceil(64)];
        for (&idx, value) in m.iter() {
            let slot = idx - min;
            values[slot] = value.clone();
            set_bit(&mut present, slot);
        }
        *self = ColumnData::Dense { base: min, values, present, count: len };
    }
}

/// Below this, the map is small enough that the representation does not
/// matter and the scan to decide would cost more than it saves.
const PROMOTE_MIN_ENTRIES: usize = 1024;

#[verifier::external_body]
fn bit(words: &[u64], slot: usize) -> bool {
    words
        .get(slot / 64)
        .is_some_and(|w| w & (1u64 << (slot % 64)) != 0)
}

#[verifier::external_body]
fn set_bit(words: &mut [u64], slot: usize) {
    if let Some(w) = words.get_mut(slot / 64) {
        *w |= 1u64 << (slot % 64);
    }
}

#[verifier::external_body]
fn clear_bit(words: &mut [u64], slot: usize) {
    if let Some(w) = words.get_mut(slot / 64) {
        *w &= !(1u64 << (slot % 64));
    }
}


}
fn main(){}
