use vstd::prelude::*;
use std::collections::HashSet;
verus!{
pub struct NodeConfig { pub id: u64, pub address: String, pub voter: bool }

pub assume_specification<I: Iterator, P: FnMut(&I::Item) -> bool>[ <core::iter::Filter<I, P> as Iterator>::count ](it: core::iter::Filter<I, P>) -> (r: usize)
    ensures r == vstd::std_specs::iter::IteratorSpec::remaining(it).len(),
;

fn f(nodes: &Vec<&NodeConfig>, active: &HashSet<u64>) -> (c: usize)
  ensures c <= nodes@.len()
{
    let c = nodes.iter().filter(|n| active.contains(&n.id)).count();
    c
}
}
fn main(){}
