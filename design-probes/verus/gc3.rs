#![feature(allocator_api)]
use vstd::prelude::*;
use std::collections::{HashMap, HashSet};
verus!{
#[derive(Clone, Copy, PartialEq, Eq, Hash)]
pub struct NodeId(pub u64);
impl NodeId { pub fn as_u64(&self) -> u64 { self.0 } }
#[derive(Clone, Copy, PartialEq, Eq, Hash)]
pub struct EdgeId(pub u64);
pub struct Node { pub version: u64 }
pub struct PropertyMap { pub x: u8 }
pub struct EdgeVersionEntry { pub version: u64, pub properties: PropertyMap }
#[derive(Debug, Clone, Copy, PartialEq, Eq)]
pub enum IsolationLevel { ReadCommitted, SnapshotIsolation }
pub type TxnId = u64;
#[derive(Debug, Clone, Copy, PartialEq, Eq)]
pub enum TxnStatus { Active, Committed, Aborted }
pub struct Transaction {
    pub id: TxnId, pub isolation: IsolationLevel, pub status: TxnStatus, pub start_version: u64,
    pub commit_version: Option<u64>, pub node_write_set: HashSet<NodeId>, pub edge_write_set: HashSet<EdgeId>,
}
pub struct GraphStore {
    nodes: Vec<Vec<Node>>,
    edge_version_log: HashMap<EdgeId, Vec<EdgeVersionEntry>>,
    pub current_version: u64,
    pub active_transactions: HashMap<TxnId, Transaction>,
}
impl GraphStore {
    pub fn get_node_at_version(&self, id: NodeId, version: u64) -> Option<&Node> {
        let idx = id.as_u64() as usize;
        let versions = self.nodes.get(idx)?;
        
        // Find the latest version <= requested version
        // Versions are sorted by creation time
        versions.iter()
            .rev()
            .find(|n| n.version <= version)
    }

    pub fn gc_versions(&mut self, min_version: u64) -> (usize, usize) {
        let mut nodes_pruned = 0usize;
        let mut edges_pruned = 0usize;

        // GC node versions: keep only the latest version <= min_version + all versions > min_version
        for versions in &mut self.nodes {
            if versions.len() <= 1 {
                continue;
            }
            // Find the latest version that's <= min_version (the "base" we must keep)
            let keep_idx = versions.iter().rposition(|n| n.version <= min_version);
            if let Some(idx) = keep_idx {
                if idx > 0 {
                    // Remove all versions before idx (they're superseded by the base)
                    nodes_pruned += idx;
                    versions.drain(..idx);
                }
            }
        }

        // GC edge version log: remove entries with version < min_version, keep the latest one
        let mut empty_logs = Vec::new();
        for (edge_id__r, log) in &mut self.edge_version_log { let edge_id = *edge_id__r;
            if log.len() <= 1 {
                continue;
            }
            let keep_idx = log.iter().rposition(|e| e.version <= min_version);
            if let Some(idx) = keep_idx {
                if idx > 0 {
                    edges_pruned += idx;
                    log.drain(..idx);
                }
            }
            if log.is_empty() {
                empty_logs.push(edge_id);
            }
        }
        for eid in empty_logs {
            self.edge_version_log.remove(&eid);
        }

        // Clean up completed/aborted transactions older than min_version
        self.active_transactions.retain(|_k, txn| {
            txn.status == TxnStatus::Active || txn.start_version >= min_version
        });

        (nodes_pruned, edges_pruned)
    }

    pub fn gc_watermark(&self) -> u64 {
        self.active_transactions.values()
            .filter(|txn| txn.status == TxnStatus::Active)
            .map(|txn| txn.start_version)
            .min()
            .unwrap_or(self.current_version)
    }

    pub fn gc_auto(&mut self) -> (usize, usize) {
        let watermark = self.gc_watermark();
        self.gc_versions(watermark)
    }
}
}
fn main(){}
