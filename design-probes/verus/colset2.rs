
use vstd::prelude::*;
use std::collections::HashMap;
verus!{
pub enum ColumnData<T> {
    Sparse(HashMap<usize, T>),
    Dense { base: usize, values: Vec<T>, present: Vec<u64>, count: usize },
}

pub open spec fn bit_at(words: Seq<u64>, slot: int) -> bool {
    0 <= slot && slot / 64 < words.len() && ((words[slot / 64] >> ((slot % 64) as u64)) & 1u64) == 1u64
}
pub open spec fn count_bits(words: Seq<u64>, n: int) -> nat
    decreases n
{
    if n <= 0 { 0 } else { count_bits(words, n - 1) + if bit_at(words, n - 1) { 1nat } else { 0nat } }
}

#[verifier::external_body]
fn bit(words: &[u64], slot: usize) -> (r: bool)
    ensures r == bit_at(words@, slot as int)
{ unimplemented!() }

#[verifier::external_body]
fn clear_bit(words: &mut [u64], slot: usize)
    ensures
        final(words)@.len() == old(words)@.len(),
        forall|s: int| 0 <= s ==> #[trigger] bit_at(final(words)@, s) == (s != slot && bit_at(old(words)@, s)),
{ unimplemented!() }

pub proof fn lemma_count_clear(a: Seq<u64>, b: Seq<u64>, slot: int, n: int)
    requires
        0 <= slot,
        forall|s: int| 0 <= s ==> #[trigger] bit_at(b, s) == (s != slot && bit_at(a, s)),
        bit_at(a, slot),
    ensures
        count_bits(b, n) == if slot < n { (count_bits(a, n) - 1) as nat } else { count_bits(a, n) },
        slot < n ==> count_bits(a, n) >= 1,
    decreases n
{
    if n <= 0 {} else { lemma_count_clear(a, b, slot, n - 1); }
}


#[verifier::external_body]
fn set_bit(words: &mut [u64], slot: usize)
    ensures
        final(words)@.len() == old(words)@.len(),
        forall|s: int| 0 <= s ==> #[trigger] bit_at(final(words)@, s) == ((s == slot && slot / 64 < old(words)@.len()) || bit_at(old(words)@, s)),
{ unimplemented!() }

#[verifier::external_body]
pub fn dense_is_smaller(span: usize, entries: usize, elem_bytes: usize) -> bool { unimplemented!() }

pub assume_specification[ usize::div_ceil ](a: usize, b: usize) -> (r: usize)
    requires b != 0,
    ensures r as int == (a as int + b as int - 1) / (b as int),
;

pub proof fn lemma_count_set(a: Seq<u64>, b: Seq<u64>, slot: int, n: int)
    requires
        0 <= slot, slot / 64 < a.len(),
        forall|s: int| 0 <= s ==> #[trigger] bit_at(b, s) == (s == slot || bit_at(a, s)),
        !bit_at(a, slot),
    ensures
        count_bits(b, n) == if slot < n { count_bits(a, n) + 1 } else { count_bits(a, n) },
    decreases n
{
    if n <= 0 {} else { lemma_count_set(a, b, slot, n - 1); }
}
pub proof fn lemma_count_bound(a: Seq<u64>, n: int)
    ensures count_bits(a, n) <= if n < 0 { 0 } else { n },
    decreases n
{
    if n <= 0 {} else { lemma_count_bound(a, n - 1); }
}
// zero-extension of the bitmap does not change any bit or the count
pub proof fn lemma_count_ext(a: Seq<u64>, b: Seq<u64>, n: int)
    requires forall|s: int| 0 <= s < n ==> #[trigger] bit_at(b, s) == bit_at(a, s),
    ensures count_bits(b, n) == count_bits(a, n),
    decreases n
{
    if n <= 0 {} else { lemma_count_ext(a, b, n - 1); }
}
impl<T: Clone + Default> ColumnData<T> {
    pub open spec fn wf(&self) -> bool {
        match self {
            ColumnData::Sparse(m) => true,
            ColumnData::Dense { base, values, present, count } =>
                *base + values@.len() <= usize::MAX
                && *count == count_bits(present@, values@.len() as int)
                && present@.len() * 64 >= values@.len(),
        }
    }
    pub open spec fn at(&self, i: usize) -> Option<T> {
        match self {
            ColumnData::Sparse(m) => if m@.contains_key(i) { Some(m@[i]) } else { None },
            ColumnData::Dense { base, values, present, count } =>
                if *base <= i && i - *base < values@.len() && bit_at(present@, (i - *base) as int) {
                    Some(values@[(i - *base) as int])
                } else { None },
        }
    }
    fn get(&self, idx: usize) -> (r: Option<&T>) 
        requires self.wf()
        ensures
            r.is_some() == self.at(idx).is_some(),
            r.is_some() ==> *r.unwrap() == self.at(idx).unwrap(),
    {
        match self {
            ColumnData::Sparse(m) => m.get(&idx),
            ColumnData::Dense { base, values, present, .. } => {
                let slot = idx.checked_sub(*base)?;
                if slot >= values.len() || !bit(present, slot) {
                    return None;
                }
                Some(&values[slot])
            }
        }
    }
    fn remove(&mut self, idx: usize) 
        requires old(self).wf()
        ensures
            final(self).wf(),
            forall|j: usize| #[trigger] final(self).at(j) == if j == idx { None } else { old(self).at(j) },
    {
        match self {
            ColumnData::Sparse(m) => {
                m.remove(&idx);
            }
            ColumnData::Dense { base, values, present, count } => {
                // Clear the presence bit and the value. Node ids are recycled
                // through a free list, so a deleted node's slot goes to the
                // next `create_node`; leaving the old value behind is how
                // deleted data reappeared on new nodes (#364). Clearing the
                // bit alone would be enough for `get`, but not for anything
                // that walks `values` directly.
                if let Some(slot) = idx.checked_sub(*base) {
                    if slot < values.len() && bit(present, slot) {
                        let ghost p0 = present@;
                        clear_bit(present, slot);
                        proof { lemma_count_clear(p0, present@, slot as int, values@.len() as int); }
                        values[slot] = T::default();
                        *count -= 1;
                    }
                }
            }
        }
    }

    #[verifier::external_body]
    fn rebase(&mut self, new_base: usize, new_span: usize)
        requires old(self).wf(), (*old(self)) is Dense,
        ensures final(self).wf(), (*final(self)) is Dense,
            forall|j: usize| #[trigger] final(self).at(j) == old(self).at(j),
            (*final(self))->base == new_base, (*final(self))->values@.len() == new_span,
            (*final(self))->count == (*old(self))->count,
    { unimplemented!() }
    #[verifier::external_body]
    fn demote_to_sparse(&mut self)
        requires old(self).wf(),
        ensures final(self).wf(), (*final(self)) is Sparse,
            forall|j: usize| #[trigger] final(self).at(j) == old(self).at(j),
    { unimplemented!() }
    #[verifier::external_body]
    fn maybe_promote(&mut self)
        requires old(self).wf(),
        ensures final(self).wf(),
            forall|j: usize| #[trigger] final(self).at(j) == old(self).at(j),
    { unimplemented!() }
    fn set(&mut self, idx: usize, value: T) 
        requires old(self).wf()
        ensures
            final(self).wf(),
            forall|j: usize| #[trigger] final(self).at(j) == if j == idx { Some(value) } else { old(self).at(j) },
    {
        match self {
            ColumnData::Sparse(m) => {
                m.insert(idx, value);
                self.maybe_promote();
            }
            ColumnData::Dense { base, values, present, count } => {
                if idx >= *base && idx - *base < values.len() {
                    let slot = idx - *base;
                    if !bit(present, slot) {
                        set_bit(present, slot);
                        *count += 1;
                    }
                    values[slot] = value;
                    return;
                }

                // Outside the span. Extend if the wider span is still smaller
                // than a map would be; otherwise fall back to sparse rather
                // than allocate a range for one far-away row. One rule decides
                // both directions, so there is no second policy to keep
                // consistent with the first.
                let entries = *count + 1;
                let elem = std::mem::size_of::<T>();

                if idx >= *base {
                    // Growing upward -- the common case, and the one a load
                    // does once per row. `Vec::resize` reserves geometrically,
                    // so repeatedly extending by one is amortised O(1);
                    // rebuilding into a fresh exactly-sized Vec each time (as
                    // an earlier draft did) makes a 1M-row load quadratic.
                    let new_span = idx - *base + 1;
                    if dense_is_smaller(new_span, entries, elem) {
                        values.resize(new_span, T::default());
                        present.resize(new_span.div_ceil(64), 0);
                        let slot = idx - *base;
                        set_bit(present, slot);
                        values[slot] = value;
                        *count += 1;
                        return;
                    }
                } else {
                    // Below the base. Rare -- properties arrive in id order --
                    // and it needs every slot shifted, so it rebuilds.
                    let new_base = idx;
                    let new_span = *base + values.len() - new_base;
                    if dense_is_smaller(new_span, entries, elem) {
                        self.rebase(new_base, new_span);
                        let ColumnData::Dense { base, values, present, count } = self else {
                            { assert(false); vstd::pervasive::unreached() }
                        };
                        let slot = idx - *base;
                        set_bit(present, slot);
                        values[slot] = value;
                        *count += 1;
                        return;
                    }
                }

                self.demote_to_sparse();
                let ColumnData::Sparse(m) = self else {
                    { assert(false); vstd::pervasive::unreached() }
                };
                m.insert(idx, value);
            }
        }
    }
}
}
fn main(){}
