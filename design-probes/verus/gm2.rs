#![feature(allocator_api)]
use vstd::prelude::*;
use std::collections::HashMap;
use core::hash::{Hash, BuildHasher};
use core::borrow::Borrow;
verus!{
pub assume_specification<'a, K: Eq + Hash, V, S: BuildHasher, A: core::alloc::Allocator, Q: Hash + Eq + ?Sized>[ HashMap::<K, V, S, A>::get_mut::<Q> ](m: &'a mut HashMap<K, V, S, A>, k: &Q) -> (r: Option<&'a mut V>)
    where K: Borrow<Q>
    ensures
        vstd::std_specs::hash::obeys_key_model::<K>() && vstd::std_specs::hash::builds_valid_hashers::<S>() ==> match r {
            Some(v) => vstd::std_specs::hash::contains_borrowed_key(old(m)@, k)
                && vstd::std_specs::hash::maps_borrowed_key_to_value(old(m)@, k, *v)
 && vstd::std_specs::hash::maps_borrowed_key_to_value(final(m)@, k, *final(v))
                && final(m)@.dom() == old(m)@.dom(),
            None => !vstd::std_specs::hash::contains_borrowed_key(old(m)@, k) && final(m)@ == old(m)@,
        }
;
fn t(m: &mut HashMap<u64, u64>)
 ensures old(m)@.contains_key(3) ==> final(m)@[3] == 7, final(m)@.dom() == old(m)@.dom()
{
    if let Some(v) = m.get_mut(&3) { *v = 7; }
}
}
fn main(){}
