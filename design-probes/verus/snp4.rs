use vstd::prelude::*;
use std::collections::{HashMap, HashSet};
verus!{
#[derive(Clone, Copy, PartialEq, Eq, Hash)]
pub struct NodeId(pub u64);
impl NodeId { pub fn as_u64(&self) -> u64 { self.0 } }
#[verifier::external_body] pub struct Label { s: String }
impl Label { #[verifier::external_body] pub fn as_str(&self) -> &str { unimplemented!() } }
impl Clone for Label { #[verifier::external_body] fn clone(&self) -> Self { unimplemented!() } }
#[verifier::external_body] #[derive(Debug)] pub struct PropertyValue { x: u8 }
impl PropertyValue { #[verifier::external_body] pub fn is_null(&self) -> bool { unimplemented!() } }
impl Clone for PropertyValue { #[verifier::external_body] fn clone(&self) -> Self { unimplemented!() } }
#[verifier::external_body] pub struct LabelSet { x: u8 }
impl LabelSet { #[verifier::external_body] pub fn iter(&self) -> LabelIter { unimplemented!() } }
#[verifier::external_body] pub struct LabelIter { x: u8 }
impl LabelIter { #[verifier::external_body] pub fn cloned(self) -> LabelIter { unimplemented!() }
  #[verifier::external_body] pub fn collect(self) -> Vec<Label> { unimplemented!() } }
pub enum IndexEvent { PropertySet { tenant_id: String, id: NodeId, labels: Vec<Label>, key: String, old_value: Option<PropertyValue>, new_value: PropertyValue } }
#[verifier::external_body] pub struct Sender { x: u8 }
impl Sender { #[verifier::external_body] pub fn send(&self, e: IndexEvent) -> Result<(), ()> { unimplemented!() } }
pub struct Node { pub version: u64, pub updated_at: i64, pub labels: LabelSet }
impl Clone for Node { #[verifier::external_body] fn clone(&self) -> (r: Self) ensures r.version == self.version { unimplemented!() } }
impl Node {
    #[verifier::external_body] pub fn set_property(&mut self, k: String, v: PropertyValue) -> (r: Option<PropertyValue>) ensures final(self).version == old(self).version { unimplemented!() }
    #[verifier::external_body] pub fn remove_property(&mut self, k: &str) ensures final(self).version == old(self).version { unimplemented!() }
}
pub enum GraphError { NodeNotFound(NodeId), ConstraintViolation(String) }
pub type GraphResult<T> = Result<T, GraphError>;
#[verifier::external_body] pub fn now_millis() -> i64 { unimplemented!() }
#[verifier::external_body] pub struct IndexManager { x: u8 }
impl IndexManager {
    #[verifier::external_body] pub fn has_any_unique_constraints(&self) -> bool { unimplemented!() }
    #[verifier::external_body] pub fn has_unique_constraint(&self, l: &Label, k: &str) -> bool { unimplemented!() }
    #[verifier::external_body] pub fn unique_constraint_holder(&self, l: &Label, k: &str, v: &PropertyValue) -> Option<NodeId> { unimplemented!() }
    #[verifier::external_body] pub fn constraint_insert(&self, l: &Label, k: &str, v: PropertyValue, n: NodeId) { unimplemented!() }
}
#[verifier::external_body] pub struct ColumnStore { x: u8 }
impl ColumnStore {
    #[verifier::external_body] pub fn set_property(&mut self, idx: usize, key: &str, value: PropertyValue) { unimplemented!() }
    #[verifier::external_body] pub fn remove_property(&mut self, idx: usize, key: &str) { unimplemented!() }
}
pub struct GraphStore {
    nodes: Vec<Vec<Node>>,
    pub current_version: u64,
    pub property_index: IndexManager,
    pub node_columns: ColumnStore,
    pub index_sender: Option<Sender>,
}
impl GraphStore {
    #[verifier::external_body] pub fn invalidate_statistics_cache(&self) { unimplemented!() }
    #[verifier::external_body] pub fn get_node(&self, id: NodeId) -> Option<&Node> { unimplemented!() }
    #[verifier::external_body] pub fn update_hierarchies_for_property(&self, id: NodeId, k: &str, v: &PropertyValue) { unimplemented!() }
    #[verifier::external_body] fn apply_property_set(&self, id: NodeId, labels: &LabelSet, k: &str, old: Option<&PropertyValue>, v: &PropertyValue) { unimplemented!() }
    pub fn set_node_property(
        &mut self,
        tenant_id: &str,
        node_id: NodeId,
        key: impl Into<String>,
        value: impl Into<PropertyValue>,
    ) -> GraphResult<()> {
        self.invalidate_statistics_cache();
        let key_str = key.into();
        let val = value.into();
        let idx = node_id.as_u64() as usize;

        // Enforce unique constraints on the write path. The constraint registry, the
        // per-constraint index and `check_unique_constraint` all existed but nothing ever
        // called them, so `CREATE CONSTRAINT ... IS UNIQUE` was accepted, listed by
        // SHOW CONSTRAINTS, and enforced nothing -- a double load silently produced
        // duplicates. The `has_any_unique_constraints` guard keeps graphs without
        // constraints (every bulk load) off the per-label path entirely.
        let constrained_labels: Vec<Label> = if self.property_index.has_any_unique_constraints()
            && !val.is_null()
        {
            let labels: Vec<Label> = match self.get_node(node_id) {
                Some(node) => node.labels.iter().cloned().collect(),
                None => Vec::new(),
            };
            labels
                .into_iter()
                .filter(|l| self.property_index.has_unique_constraint(l, &key_str))
                .collect()
        } else {
            Vec::new()
        };
        for label in &constrained_labels {
            // Re-setting a property to the value this same node already holds is not a
            // violation; only another node holding it is.
            if let Some(holder) =
                self.property_index
                    .unique_constraint_holder(label, &key_str, &val)
            {
                if holder != node_id {
                    return Err(GraphError::ConstraintViolation(format!(
                        ":{}({}) already has value {:?} on node {}",
                        label.as_str(),
                        key_str,
                        val,
                        holder
                    )));
                }
            }
        }

        // Update columnar storage (always latest)
        self.node_columns.set_property(idx, &key_str, val.clone());
        self.update_hierarchies_for_property(node_id, &key_str, &val);

        // Scoped so the mutable borrow of `self.nodes` ends here; the indexing
        // below needs `&self` and the node's labels at the same time, which is
        // fine as two shared borrows but not while this one is live.
        let old_val = {
            let current_version = self.current_version;
            let versions = self.nodes.get_mut(idx).ok_or(GraphError::NodeNotFound(node_id))?;
            let latest_node = versions.last().ok_or(GraphError::NodeNotFound(node_id))?;

            if latest_node.version < current_version {
                // COW: Create new version
                let mut new_node = latest_node.clone();
                new_node.version = current_version;
                new_node.updated_at = now_millis();
                let old = new_node.set_property(key_str.clone(), val.clone());
                versions.push(new_node);
                old
            } else {
                // Update in place (same transaction/version)
                let node = versions.last_mut().unwrap();
                node.set_property(key_str.clone(), val.clone())
            }
        };

        // Record the new value so subsequent writes can see it. Without this the
        // constraint index only ever holds what the backfill put there at CREATE
        // CONSTRAINT time, and nodes added afterwards would not conflict with each other.
        for label in &constrained_labels {
            self.property_index
                .constraint_insert(label, &key_str, val.clone(), node_id);
        }

        if let Some(sender) = &self.index_sender {
            let _ = sender.send(IndexEvent::PropertySet {
                tenant_id: tenant_id.to_string(),
                id: node_id,
                labels: self.nodes[idx]
                    .last()
                    .map(|n| n.labels.iter().cloned().collect())
                    .unwrap_or_default(),
                key: key_str,
                old_value: old_val,
                new_value: val,
            });
        } else {
            // No subscriber: index directly from borrowed data rather than
            // materialising an event only to take it apart again.
            if let Some(labels) = self.nodes[idx].last().map(|n| &n.labels) {
                self.apply_property_set(node_id, labels, &key_str, old_val.as_ref(), &val);
            }
        }

        Ok(())
    }

    pub fn remove_node_property(&mut self, node_id: NodeId, key: &str) {
        self.node_columns.remove_property(node_id.as_u64() as usize, key);
        if let Some(node) = self.get_node_mut(node_id) {
            node.remove_property(key);
        }
        self.invalidate_statistics_cache();
    }

    pub fn get_node_mut(&mut self, id: NodeId) -> Option<&mut Node> {
        self.nodes.get_mut(id.as_u64() as usize).and_then(|v| v.last_mut())
    }


}
}
impl std::fmt::Display for NodeId { fn fmt(&self, f: &mut std::fmt::Formatter<'_>) -> std::fmt::Result { write!(f, "{}", self.0) } }
fn main(){}
