use vstd::prelude::*;
verus!{
pub struct NodeId(pub u64);
impl NodeId { pub fn as_u64(&self) -> u64 { self.0 } }
#[verifier::external_body]
pub struct Label { s: String }
impl Label { #[verifier::external_body] pub fn as_str(&self) -> &str { unimplemented!() } }
#[verifier::external_body]
pub struct PropertyMap { x: u8 }
#[verifier::external_body]
pub struct LabelSet { x: u8 }
pub struct Node { pub id: NodeId, pub labels: Vec<Label>, pub properties: PropertyMap }
pub struct Edge { pub id: u64 }

pub enum WalEntry {
    CreateNode { tenant: String, node_id: u64, labels: Vec<String>, properties: Vec<u8> },
    UpdateNodeProperties { tenant: String, node_id: u64, properties: Vec<u8>, version: u64 },
}
pub struct StorageError { pub x: u8 }
pub struct WalError { pub x: u8 }
pub struct TenantError { pub x: u8 }
pub struct BincodeError { pub x: u8 }
pub enum PersistenceError { Storage(StorageError), Wal(WalError), Tenant(TenantError), Serialization(BincodeError) }
impl From<StorageError> for PersistenceError { fn from(e: StorageError) -> Self { PersistenceError::Storage(e) } }
impl From<WalError> for PersistenceError { fn from(e: WalError) -> Self { PersistenceError::Wal(e) } }
impl From<TenantError> for PersistenceError { fn from(e: TenantError) -> Self { PersistenceError::Tenant(e) } }
impl From<BincodeError> for PersistenceError { fn from(e: BincodeError) -> Self { PersistenceError::Serialization(e) } }

pub mod bincode {
    use super::*;
    #[verifier::external_body]
    pub fn serialize(p: &PropertyMap) -> Result<Vec<u8>, BincodeError> { unimplemented!() }
}

pub struct Wal { pub log: Ghost<Seq<WalEntry>> }
impl Wal {
    #[verifier::external_body]
    pub fn append(&mut self, entry: WalEntry) -> (r: Result<u64, WalError>)
        ensures r.is_ok() ==> final(self).log@ == old(self).log@.push(entry),
                r.is_err() ==> final(self).log@ == old(self).log@,
    { unimplemented!() }
}
pub struct PersistentStorage { pub nodes: Ghost<Map<(Seq<char>, u64), Node>> }
impl PersistentStorage {
    #[verifier::external_body]
    pub fn put_node(&mut self, tenant: &str, node: &Node) -> (r: Result<(), StorageError>)
        ensures r.is_ok() ==> final(self).nodes@ == old(self).nodes@.insert((tenant@, node.id.0), *node),
                r.is_err() ==> final(self).nodes@ == old(self).nodes@,
    { unimplemented!() }
    #[verifier::external_body]
    pub fn scan_nodes(&self, tenant: &str) -> (r: Result<Vec<Node>, StorageError>)
    { unimplemented!() }
    #[verifier::external_body]
    pub fn scan_edges(&self, tenant: &str) -> (r: Result<Vec<Edge>, StorageError>)
    { unimplemented!() }
}
pub struct TenantManager { pub node_usage: Ghost<Map<Seq<char>, nat>> }
impl TenantManager {
    #[verifier::external_body]
    pub fn check_quota(&self, tenant_id: &str, resource: &str) -> (r: Result<(), TenantError>) { unimplemented!() }
    #[verifier::external_body]
    pub fn increment_usage(&mut self, tenant_id: &str, resource: &str, amount: usize) -> (r: Result<(), TenantError>) { unimplemented!() }
}
pub struct PersistenceManager {
    storage: PersistentStorage,
    wal: Wal,
    tenants: TenantManager,
}
impl PersistenceManager {
    pub fn persist_create_node(&mut self, tenant: &str, node: &Node) -> Result<(), PersistenceError> {
        // Check tenant quota
        self.tenants.check_quota(tenant, "nodes")?;

        // Serialize properties
        let properties = bincode::serialize(&node.properties)?;

        // Write to WAL
        let entry = WalEntry::CreateNode {
            tenant: tenant.to_string(),
            node_id: node.id.as_u64(),
            labels: node.labels.iter().map(|l| l.as_str().to_string()).collect(),
            properties,
        };
        (&mut self.wal).append(entry)?;

        // Write to storage
        self.storage.put_node(tenant, node)?;

        // Update usage
        self.tenants.increment_usage(tenant, "nodes", 1)?;

        Ok(())
    }

    pub fn persist_update_node_properties_versioned(
        &mut self,
        tenant: &str,
        node_id: u64,
        properties: &PropertyMap,
        version: u64,
    ) -> Result<(), PersistenceError> {
        let properties_bytes = bincode::serialize(properties)?;
        let entry = WalEntry::UpdateNodeProperties {
            tenant: tenant.to_string(),
            node_id,
            properties: properties_bytes,
            version,
        };
        (&mut self.wal).append(entry)?;
        Ok(())
    }

    pub fn recover(&mut self, tenant: &str) -> Result<(Vec<Node>, Vec<Edge>), PersistenceError> {

        // Load nodes from storage
        let nodes = self.storage.scan_nodes(tenant)?;

        // Load edges from storage
        let edges = self.storage.scan_edges(tenant)?;

        // Update resource usage
        self.tenants.increment_usage(tenant, "nodes", nodes.len())?;
        self.tenants.increment_usage(tenant, "edges", edges.len())?;

        Ok((nodes, edges))
    }
}
}
fn main(){}
