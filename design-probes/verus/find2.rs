use vstd::prelude::*;
verus!{
pub struct LogEntry { pub index: u64, pub term: u64, pub data: Vec<u8> }
fn get_entry(log: &Vec<LogEntry>, index: u64) -> (r: Option<&LogEntry>)
    ensures
        r.is_some() ==> r.unwrap().index == index,
        r.is_some() ==> exists|i: int| 0 <= i < log@.len() && log@[i] == *r.unwrap(),
        r.is_none() ==> forall|i: int| 0 <= i < log@.len() ==> log@[i].index != index,
{
    log.iter().find(|e: &&LogEntry| -> (b: bool) ensures b == (e.index == index) { e.index == index })
}
}
fn main(){}
