use vstd::prelude::*;
use std::collections::{HashMap, HashSet};
verus!{
broadcast use vstd::std_specs::hash::group_hash_axioms;
fn f(m: &HashSet<u64>) -> u64 {
    let mut s = 0u64;
    for x in m { if *x == 3 { s = *x; } }
    s
}
}
fn main(){}
