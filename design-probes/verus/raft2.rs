#![feature(allocator_api)]
use vstd::prelude::*;
verus!{
pub assume_specification<T, A: core::alloc::Allocator, F: FnMut(&T) -> bool>[ Vec::<T, A>::retain ](v: &mut Vec<T, A>, f: F)
    requires forall|x: &T| #[trigger] f.requires((x,)),
    ensures
        final(v)@ == old(v)@.filter(|x: T| f.ensures((&x,), true)),
;
pub enum RaftError { Storage(String) }
pub type RaftResult<T> = Result<T, RaftError>;

#[derive(Debug, Clone)]
pub struct LogEntry {
    pub index: u64,
    pub term: u64,
    pub data: Vec<u8>,
}
pub struct RaftStorage {
    path: String,
    log: Vec<LogEntry>,
    snapshot_metadata: Option<(u64, u64)>, // (index, term)
}
impl RaftStorage {
    pub async fn append_entries(&mut self, entries: Vec<LogEntry>) -> RaftResult<()> {
        let mut log = &mut self.log;

        for entry in entries {
            log.push(entry);
        }

        Ok(())
    }

    pub async fn get_entry(&self, index: u64) -> Option<LogEntry> {
        let log = &self.log;
        log.iter().find(|e| e.index == index).cloned()
    }

    #[verifier::external_body]
    pub async fn get_entries(&self, start: u64, end: u64) -> Vec<LogEntry> {
        let log = &self.log;
        log.iter()
            .filter(|e| e.index >= start && e.index < end)
            .cloned()
            .collect()
    }

    pub async fn get_last_log_index_term(&self) -> (u64, u64) {
        let log = &self.log;

        if let Some(last) = log.last() {
            (last.index, last.term)
        } else {
            // Check snapshot
            if let Some((index, term)) = *&self.snapshot_metadata {
                (index, term)
            } else {
                (0, 0)
            }
        }
    }

    pub async fn delete_entries_from(&mut self, index: u64) -> RaftResult<()> {
        let mut log = &mut self.log;
        log.retain(|e| e.index < index);
        Ok(())
    }

    pub async fn create_snapshot(
        &mut self,
        index: u64,
        term: u64,
        _data: Vec<u8>,
    ) -> RaftResult<()> {
        let mut metadata = &mut self.snapshot_metadata;
        *metadata = Some((index, term));
        self.delete_entries_from(index + 1).await?;
        Ok(())
    }
}
}
fn main(){}
