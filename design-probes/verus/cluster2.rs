#![feature(allocator_api)]
use vstd::prelude::*;
use std::collections::{HashMap, HashSet};
verus!{
pub type RaftNodeId = u64;
pub enum RaftError { Cluster(String) }
pub type RaftResult<T> = Result<T, RaftError>;
#[verifier::external_body] pub fn now_ts() -> i64 { unimplemented!() }
pub assume_specification<T, A: core::alloc::Allocator, F: FnMut(&T) -> bool>[ Vec::<T, A>::retain ](v: &mut Vec<T, A>, f: F)
    requires forall|x: &T| #[trigger] f.requires((x,)),
;
pub assume_specification<I: Iterator, P: FnMut(&I::Item) -> bool>[ <core::iter::Filter<I, P> as Iterator>::count ](it: core::iter::Filter<I, P>) -> (r: usize)
    ensures r == vstd::std_specs::iter::IteratorSpec::remaining(&it).len(),
;
/// Cluster configuration
#[derive(Debug, Clone)]
pub struct ClusterConfig {
    pub name: String,
    pub nodes: Vec<NodeConfig>,
    pub replication_factor: usize,
}
#[derive(Debug, Clone)]
pub struct NodeConfig {
    pub id: RaftNodeId,
    pub address: String,
    pub voter: bool,
}

impl ClusterConfig {
    pub fn new(name: String, replication_factor: usize) -> Self {
        Self {
            name,
            nodes: Vec::new(),
            replication_factor,
        }
    }
    pub fn add_node(&mut self, id: RaftNodeId, address: String, voter: bool) {
        self.nodes.push(NodeConfig { id, address, voter });
    }
    pub fn voters(&self) -> Vec<&NodeConfig> {
        self.nodes.iter().filter(|n| n.voter).collect()
    }
    pub fn learners(&self) -> Vec<&NodeConfig> {
        self.nodes.iter().filter(|n| !n.voter).collect()
    }
    pub fn validate(&self) -> RaftResult<()> {
        if self.nodes.is_empty() {
            return Err(RaftError::Cluster("No nodes in cluster".to_string()));
        }

        let voters = self.voters();
        if voters.is_empty() {
            return Err(RaftError::Cluster("No voters in cluster".to_string()));
        }

        if voters.len() < self.replication_factor {
            return Err(RaftError::Cluster(format!(
                "Not enough voters ({}) for replication factor ({})",
                voters.len(),
                self.replication_factor
            )));
        }

        Ok(())
    }
}
pub struct ClusterManager {
    config: ClusterConfig,
    active_nodes: HashSet<RaftNodeId>,
    node_metadata: HashMap<RaftNodeId, NodeMetadata>,
}
#[derive(Debug, Clone)]
pub struct NodeMetadata {
    pub last_heartbeat: i64,
    pub reachable: bool,
    pub role: NodeRole,
}

#[derive(Debug, Clone, PartialEq)]
pub enum NodeRole {
    Leader,
    Follower,
    Candidate,
    Learner,
}

impl ClusterManager {
    pub fn new(config: ClusterConfig) -> RaftResult<Self> {
        config.validate()?;

        // Initialize metadata for all nodes in the config
        let mut node_metadata = HashMap::new();
        for node in &config.nodes {
            node_metadata.insert(
                node.id,
                NodeMetadata {
                    last_heartbeat: now_ts(),
                    reachable: false,
                    role: if node.voter {
                        NodeRole::Follower
                    } else {
                        NodeRole::Learner
                    },
                },
            );
        }

        Ok(Self {
            config: config,
            active_nodes: HashSet::new(),
            node_metadata: node_metadata,
        })
    }
    pub async fn get_config(&self) -> ClusterConfig {
        (&self.config).clone()
    }
    pub async fn update_config(&mut self, config: ClusterConfig) -> RaftResult<()> {
        config.validate()?;

        let mut current = (&mut self.config);
        *current = config;
        Ok(())
    }
    pub async fn add_node(
        &mut self,
        id: RaftNodeId,
        address: String,
        voter: bool,
    ) -> RaftResult<()> {

        let mut config = (&mut self.config);
        config.add_node(id, address, voter);

        // Initialize metadata
        let mut metadata = (&mut self.node_metadata);
        metadata.insert(
            id,
            NodeMetadata {
                last_heartbeat: now_ts(),
                reachable: false,
                role: if voter {
                    NodeRole::Follower
                } else {
                    NodeRole::Learner
                },
            },
        );

        Ok(())
    }
    pub async fn remove_node(&mut self, id: RaftNodeId) -> RaftResult<()> {

        let mut config = (&mut self.config);
        config.nodes.retain(|n: &NodeConfig| -> (b: bool) ensures b == (n.id != id) { n.id != id });

        let mut active = (&mut self.active_nodes);
        active.remove(&id);

        let mut metadata = (&mut self.node_metadata);
        metadata.remove(&id);

        Ok(())
    }
    pub async fn mark_active(&mut self, id: RaftNodeId) {
        let mut active = (&mut self.active_nodes);
        active.insert(id);

        let mut metadata = (&mut self.node_metadata);
        if let Some(meta) = metadata.get_mut(&id) {
            meta.last_heartbeat = now_ts();
            meta.reachable = true;
        }
    }
    pub async fn mark_inactive(&mut self, id: RaftNodeId) {
        let mut active = (&mut self.active_nodes);
        active.remove(&id);

        let mut metadata = (&mut self.node_metadata);
        if let Some(meta) = metadata.get_mut(&id) {
            meta.reachable = false;
        }
    }
    pub async fn get_active_nodes(&self) -> Vec<RaftNodeId> {
        (&self.active_nodes).iter().copied().collect()
    }
    pub async fn update_node_role(&mut self, id: RaftNodeId, role: NodeRole) {
        let mut metadata = (&mut self.node_metadata);
        if let Some(meta) = metadata.get_mut(&id) {
            meta.role = role;
        }
    }
    pub async fn get_node_metadata(&self, id: RaftNodeId) -> Option<NodeMetadata> {
        (&self.node_metadata).get(&id).cloned()
    }
    pub async fn health_status(&self) -> ClusterHealth {
        let config = (&self.config);
        let active = (&self.active_nodes);
        let metadata = (&self.node_metadata);

        let total_nodes = config.nodes.len();
        let active_nodes = active.len();
        let voters = config.voters().len();
        let active_voters = config
            .voters()
            .iter()
            .filter(|n| active.contains(&n.id))
            .count();

        let has_leader = metadata.values().any(|m| m.role == NodeRole::Leader);

        let healthy = active_voters >= (voters / 2 + 1) && has_leader;

        ClusterHealth {
            healthy,
            total_nodes,
            active_nodes,
            total_voters: voters,
            active_voters,
            has_leader,
        }
    }
}
#[derive(Debug, Clone)]
pub struct ClusterHealth {
    pub healthy: bool,
    pub total_nodes: usize,
    pub active_nodes: usize,
    pub total_voters: usize,
    pub active_voters: usize,
    pub has_leader: bool,
}


}
fn main(){}
