#![feature(allocator_api)]
use vstd::prelude::*;
use std::collections::{HashMap, HashSet};
use core::hash::{Hash, BuildHasher};
use core::borrow::Borrow;
verus!{
pub assume_specification<'a, K: Eq + Hash, V, S: BuildHasher, A: core::alloc::Allocator, Q: Hash + Eq + ?Sized>[ HashMap::<K, V, S, A>::get_mut::<Q> ](m: &'a mut HashMap<K, V, S, A>, k: &Q) -> (r: Option<&'a mut V>)
    where K: Borrow<Q>
    ensures
        vstd::std_specs::hash::obeys_key_model::<K>() && vstd::std_specs::hash::builds_valid_hashers::<S>() ==> match r {
            Some(v) => vstd::std_specs::hash::contains_borrowed_key(old(m)@, k)
                && vstd::std_specs::hash::maps_borrowed_key_to_value(old(m)@, k, *v)
 && vstd::std_specs::hash::maps_borrowed_key_to_value(final(m)@, k, *final(v))
                && final(m)@.dom() == old(m)@.dom(),
            None => !vstd::std_specs::hash::contains_borrowed_key(old(m)@, k) && final(m)@ == old(m)@,
        }
;

#[derive(Clone, Copy, PartialEq, Eq, Hash)]
pub struct NodeId(pub u64);
impl NodeId { pub fn as_u64(&self) -> u64 { self.0 } }
#[derive(Clone, Copy, PartialEq, Eq, Hash)]
pub struct EdgeId(pub u64);
impl EdgeId { pub fn as_u64(&self) -> u64 { self.0 } }
pub struct Node { pub version: u64 }
pub struct Edge { pub version: u64 }
#[derive(Debug)]
pub enum GraphError { TransactionNotFound(u64), TransactionNotActive(u64), WriteConflict(String) }
pub type GraphResult<T> = Result<T, GraphError>;
#[derive(Debug, Clone, Copy, PartialEq, Eq)]
pub enum IsolationLevel { ReadCommitted, SnapshotIsolation }
pub type TxnId = u64;
#[derive(Debug, Clone, Copy, PartialEq, Eq)]
pub enum TxnStatus { Active, Committed, Aborted }
#[derive(Clone)]
pub struct Transaction {
    pub id: TxnId,
    pub isolation: IsolationLevel,
    pub status: TxnStatus,
    pub start_version: u64,
    pub commit_version: Option<u64>,
    pub node_write_set: HashSet<NodeId>,
    pub edge_write_set: HashSet<EdgeId>,
}
#[verifier::external_body]
pub proof fn axiom_nodeid_key_model()
    ensures vstd::std_specs::hash::obeys_key_model::<NodeId>()
{}
#[verifier::external_body]
pub proof fn axiom_edgeid_key_model()
    ensures vstd::std_specs::hash::obeys_key_model::<EdgeId>()
{}
pub struct GraphStore {
    pub current_version: u64,
    pub next_txn_id: TxnId,
    pub active_transactions: HashMap<TxnId, Transaction>,
    pub node_last_commit: HashMap<NodeId, u64>,
    pub edge_last_commit: HashMap<EdgeId, u64>,
}
impl GraphStore {
    pub open spec fn wf(&self) -> bool { self.current_version < u64::MAX && self.next_txn_id < u64::MAX }

    #[verifier::external_body]
    pub fn get_node_at_version(&self, id: NodeId, version: u64) -> Option<&Node> { unimplemented!() }
    #[verifier::external_body]
    pub fn get_edge_at_version(&self, id: EdgeId, version: u64) -> Option<Edge> { unimplemented!() }
    /// Begin a new transaction with the specified isolation level.
    /// Returns the transaction ID.
    pub fn begin_transaction(&mut self, isolation: IsolationLevel) -> (r: TxnId)
        requires old(self).wf()
        ensures r == old(self).next_txn_id, final(self).current_version == old(self).current_version
    {
        let txn_id = self.next_txn_id;
        self.next_txn_id += 1;
        let txn = Transaction {
            id: txn_id,
            isolation,
            status: TxnStatus::Active,
            start_version: self.current_version,
            commit_version: None,
            node_write_set: HashSet::new(),
            edge_write_set: HashSet::new(),
        };
        self.active_transactions.insert(txn_id, txn);
        txn_id
    }

    /// Get a node visible to the given transaction, respecting its isolation level.
    /// - ReadCommitted: returns the latest committed version.
    /// - SnapshotIsolation: returns the version at txn start.
    pub fn get_node_for_txn(&self, txn_id: TxnId, node_id: NodeId) -> Option<&Node> {
        let txn = self.active_transactions.get(&txn_id)?;
        let read_version = match txn.isolation {
            IsolationLevel::ReadCommitted => self.current_version,
            IsolationLevel::SnapshotIsolation => txn.start_version,
        };
        self.get_node_at_version(node_id, read_version)
    }

    /// Get an edge visible to the given transaction, respecting its isolation level.
    pub fn get_edge_for_txn(&self, txn_id: TxnId, edge_id: EdgeId) -> Option<Edge> {
        let txn = self.active_transactions.get(&txn_id)?;
        let read_version = match txn.isolation {
            IsolationLevel::ReadCommitted => self.current_version,
            IsolationLevel::SnapshotIsolation => txn.start_version,
        };
        self.get_edge_at_version(edge_id, read_version)
    }

    /// Record a node write in the transaction's write set.
    pub fn txn_write_node(&mut self, txn_id: TxnId, node_id: NodeId) {
        if let Some(txn) = self.active_transactions.get_mut(&txn_id) {
            txn.node_write_set.insert(node_id);
        }
    }

    /// Record an edge write in the transaction's write set.
    pub fn txn_write_edge(&mut self, txn_id: TxnId, edge_id: EdgeId) {
        if let Some(txn) = self.active_transactions.get_mut(&txn_id) {
            txn.edge_write_set.insert(edge_id);
        }
    }

    /// Commit a transaction. Returns Err if a write conflict is detected (first-writer-wins).
    ///
    /// Conflict detection: for each entity in the write set, check if it was committed
    /// by another transaction after this transaction started. If so, abort.
    pub fn commit_transaction(&mut self, txn_id: TxnId) -> (r: GraphResult<u64>)
        requires old(self).wf()
        ensures
            !old(self).active_transactions@.contains_key(txn_id) ==> r.is_err() && final(self).current_version == old(self).current_version,
            r.is_ok() ==> r.unwrap() == old(self).current_version + 1 && final(self).current_version == old(self).current_version + 1,
            r.is_err() ==> final(self).current_version == old(self).current_version,
    {
        proof { axiom_nodeid_key_model(); axiom_edgeid_key_model(); }
        let txn = self.active_transactions.get(&txn_id)
            .ok_or_else(|| GraphError::TransactionNotFound(txn_id))?
            .clone();

        if txn.status != TxnStatus::Active {
            return Err(GraphError::TransactionNotActive(txn_id));
        }

        // Write conflict detection: first-writer-wins
        for nid__r in txn.node_write_set.iter() { let nid = *nid__r;
            if let Some(committed_at__r) = self.node_last_commit.get(&nid) { let committed_at = *committed_at__r;
                if committed_at > txn.start_version {
                    // Another transaction committed a write to this node after we started
                    self.active_transactions.get_mut(&txn_id).unwrap().status = TxnStatus::Aborted;
                    return Err(GraphError::WriteConflict(format!(
                        "Node {} was modified by another transaction (committed at version {}, txn started at {})",
                        nid.as_u64(), committed_at, txn.start_version
                    )));
                }
            }
        }
        for eid__r in txn.edge_write_set.iter() { let eid = *eid__r;
            if let Some(committed_at__r) = self.edge_last_commit.get(&eid) { let committed_at = *committed_at__r;
                if committed_at > txn.start_version {
                    self.active_transactions.get_mut(&txn_id).unwrap().status = TxnStatus::Aborted;
                    return Err(GraphError::WriteConflict(format!(
                        "Edge {} was modified by another transaction (committed at version {}, txn started at {})",
                        eid.as_u64(), committed_at, txn.start_version
                    )));
                }
            }
        }

        // No conflicts — commit. Bump global version.
        self.current_version += 1;
        let commit_version = self.current_version;

        // Update last-commit tracking for all written entities
        for nid__r in txn.node_write_set.iter() { let nid = *nid__r;
            self.node_last_commit.insert(nid, commit_version);
        }
        for eid__r in txn.edge_write_set.iter() { let eid = *eid__r;
            self.edge_last_commit.insert(eid, commit_version);
        }

        // Mark transaction as committed
        if let Some(t) = self.active_transactions.get_mut(&txn_id) {
            t.status = TxnStatus::Committed;
            t.commit_version = Some(commit_version);
        }

        Ok(commit_version)
    }

    /// Abort a transaction, discarding its writes.
    /// Note: actual rollback of in-place mutations requires version-aware cleanup.
    /// For now, marks the transaction as aborted so future reads skip its writes.
    pub fn abort_transaction(&mut self, txn_id: TxnId) -> GraphResult<()> {
        let txn = self.active_transactions.get_mut(&txn_id)
            .ok_or_else(|| GraphError::TransactionNotFound(txn_id))?;

        if txn.status != TxnStatus::Active {
            return Err(GraphError::TransactionNotActive(txn_id));
        }

        txn.status = TxnStatus::Aborted;
        Ok(())
    }


}
}
fn main(){}
