#![feature(allocator_api)]
use vstd::prelude::*;
verus!{
pub open spec fn filter_by<T>(s: Seq<T>, keep: Seq<bool>) -> Seq<T>
    recommends s.len() == keep.len()
    decreases s.len()
{
    if s.len() == 0 || keep.len() != s.len() { Seq::empty() }
    else {
        let rest = filter_by(s.drop_last(), keep.drop_last());
        if keep.last() { rest.push(s.last()) } else { rest }
    }
}
pub proof fn lemma_filter_by<T>(s: Seq<T>, keep: Seq<bool>, pred: spec_fn(T) -> bool)
    requires keep.len() == s.len(), forall|i: int| 0 <= i < s.len() ==> keep[i] == pred(s[i])
    ensures filter_by(s, keep) == s.filter(pred)
    decreases s.len()
{
    reveal(Seq::filter);
    if s.len() == 0 {
    } else {
        lemma_filter_by(s.drop_last(), keep.drop_last(), pred);
    }
}
pub assume_specification<T, A: core::alloc::Allocator, F: FnMut(&T) -> bool>[ Vec::<T, A>::retain ](v: &mut Vec<T, A>, f: F)
    requires forall|x: &T| #[trigger] f.requires((x,)),
    ensures
        exists|keep: Seq<bool>| keep.len() == old(v)@.len()
            && (forall|i: int| 0 <= i < keep.len() ==> f.ensures((&old(v)@[i],), #[trigger] keep[i]))
            && final(v)@ == filter_by(old(v)@, keep),
;
pub struct LogEntry { pub index: u64, pub term: u64, pub data: Vec<u8> }

pub struct RaftStorage {
    pub log: Vec<LogEntry>,
    pub snapshot_metadata: Option<(u64, u64)>,
}
impl RaftStorage {
    pub async fn delete_entries_from(&mut self, index: u64) -> (r: Result<(), ()>)
        ensures
            final(self).log@ == old(self).log@.filter(|e: LogEntry| e.index < index),
            final(self).snapshot_metadata == old(self).snapshot_metadata,
            r.is_ok(),
    {
        let mut log = &mut self.log;
        log.retain(|e: &LogEntry| -> (b: bool) ensures b == (e.index < index) { e.index < index });
        proof {
            let s = old(self).log@;
            let keep = choose|keep: Seq<bool>| keep.len() == s.len()
                && (forall|i: int| 0 <= i < keep.len() ==> #[trigger] keep[i] == (s[i].index < index))
                && log@ == filter_by(s, keep);
            lemma_filter_by(s, keep, |e: LogEntry| e.index < index);
        }
        Ok(())
    }
}
}
fn main(){}
