use vstd::prelude::*;
use vstd::set_lib::*;
verus!{
pub proof fn quorum_intersection(v: Set<u64>, x: Set<u64>, y: Set<u64>)
    requires
        x.subset_of(v), y.subset_of(v),
        2 * x.len() > v.len(),
        2 * y.len() > v.len(),
    ensures
        !x.intersect(y).is_empty(),
{
    lemma_set_intersect_union_lens(x, y);
    lemma_len_subset(x.union(y), v);
    if x.intersect(y).is_empty() {
        assert(x.intersect(y).len() == 0);
    }
}
}
fn main(){}
