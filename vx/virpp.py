"""tiny pretty-printer for `verus --log vir` output, to read vstd specs whose
source is not installed.  usage: python3 -m vx.virpp crate.vir NAME_SUBSTRING"""
import re
import sys


def tokenize(s):
    return re.findall(r'"(?:[^"\\]|\\.)*"|[()]|[^\s()]+', s)


def parse(tokens):
    pos = 0

    def rd():
        nonlocal pos
        t = tokens[pos]
        pos += 1
        if t == '(':
            lst = []
            while tokens[pos] != ')':
                lst.append(rd())
            pos += 1
            return lst
        return t
    out = []
    while pos < len(tokens):
        out.append(rd())
    return out


def kw(node, key):
    if isinstance(node, list):
        for i, x in enumerate(node):
            if x == key and i + 1 < len(node):
                return node[i + 1]
    return None


def short(p):
    return re.sub(r'vstd::|core::|std_specs::|impl&%\d+::', '', p)


def ex(n):
    if not isinstance(n, list):
        return str(n)
    if not n:
        return '()'
    h = n[0]
    if h == '>' or h == '->':
        if h == '->':
            return '%s=%s' % (n[1], ex(n[2])) if len(n) > 2 else str(n[1])
        return ex(n[1:])
    if h == 'Call':
        tgt = kw(n, ':target')
        args = kw(n, ':args') or []
        name = '?'
        if isinstance(tgt, list):
            fun = None
            for x in tgt:
                if isinstance(x, list) and x and x[0] == 'Fun':
                    fun = x
            if fun:
                name = short(kw(fun, ':path'))
            else:
                for x in tgt:
                    if isinstance(x, list) and x and x[0] == 'BuiltinSpecFun':
                        name = x[1] if len(x) > 1 and not isinstance(x[1], list) else ex(x[1])
        return '%s(%s)' % (name, ', '.join(ex(a) for a in args))
    if h == 'ReadPlace':
        return ex(n[1])
    if h == 'Place':
        if n[1] == 'Local':
            return ex(n[2])
        if n[1] in ('Temporary', 'DerefMut'):
            return ex(n[2])
        if n[1] == 'Field':
            return ex(n[-1]) + '.' + str(kw(n[2], ':field') if isinstance(n[2], list) else n[2])
        return 'Place<%s>' % ' '.join(ex(x) for x in n[1:])
    if h == 'VarIdent':
        return n[1].strip('"')
    if h == 'Const':
        c = n[1]
        return str(c[-1]) if isinstance(c, list) else str(c)
    if h == 'Binary':
        op = n[1]
        o = ' '.join(str(x) if not isinstance(x, list) else ex(x) for x in op[1:]) if isinstance(op, list) else str(op)
        return '(%s %s %s)' % (ex(n[2]), o, ex(n[3]))
    if h == 'Logical':
        return '(%s %s %s)' % (ex(n[2]), n[1][1], ex(n[3]))
    if h == 'Multi':
        ops = [o[-1][-1] if isinstance(o[-1], list) else o[-1] for o in n[1][2]] if isinstance(n[1], list) and len(n[1]) > 2 else []
        es = [ex(x) for x in n[2]]
        s = es[0]
        for o, e in zip(ops, es[1:]):
            s += ' %s %s' % (o, e)
        return '(' + s + ')'
    if h == 'Unary':
        return ex(n[2]) if isinstance(n[1], list) and n[1][1][0:1] == ['Trigger'] or (isinstance(n[1], list) and 'Trigger' in str(n[1])) else '%s(%s)' % (ex(n[1]), ex(n[2]))
    if h == 'UnaryOpr':
        return '%s[%s]' % (ex(n[2]), ' '.join(str(x) for x in n[1] if not isinstance(x, list)) + ' ' + str(kw(n[1], ':variant') or kw(n[1], ':field') or ''))
    if h == 'Quant':
        return '%s %s. %s' % (ex(n[1]), ' '.join(ex(b) for b in n[2]), ex(n[3]))
    if h == 'Closure':
        return '|%s| %s' % (' '.join(ex(b) for b in n[1]), ex(n[2]))
    if h == 'Block':
        return '{ %s; %s }' % ('; '.join(ex(s) for s in n[1]), ex(n[2]) if len(n) > 2 else '')
    if h == 'Stmt':
        if n[1] == 'Decl':
            pat = kw(n, ':pattern')
            init = kw(n, ':init')
            return 'let %s = %s' % (ex(pat), ex(init))
        return 'stmt ' + ' '.join(ex(x) for x in n[1:])
    if h == 'Pattern':
        b = None
        for x in n:
            if isinstance(x, list) and x and x[0] == 'PatternBinding':
                b = x
        return ex(kw(b, ':name')) if b else 'pat'
    if h == 'If':
        return 'if %s { %s } else { %s }' % (ex(n[1]), ex(n[2]), ex(n[3]) if len(n) > 3 else '')
    if h == 'Ctor':
        return '%s{%s}' % (n[2] if len(n) > 2 else '', ', '.join(ex(x) for x in (n[3] if len(n) > 3 else [])))
    return '<' + ' '.join(ex(x) for x in n) + '>'


def main():
    path, pat = sys.argv[1], sys.argv[2]
    txt = open(path).read()
    # split into top-level (Function ...) forms
    for mm in re.finditer(r'\n\(Function\n', txt):
        start = mm.start() + 1
        head = txt[start:start + 400]
        m2 = re.search(r'\(Fun :path ([^\s)]+)\)', head)
        if not m2 or pat not in m2.group(1):
            continue
        # find end by paren matching
        depth = 0
        i = start
        instr = False
        while i < len(txt):
            c = txt[i]
            if instr:
                if c == '\\':
                    i += 1
                elif c == '"':
                    instr = False
            elif c == '"':
                instr = True
            elif c == '(':
                depth += 1
            elif c == ')':
                depth -= 1
                if depth == 0:
                    break
            i += 1
        form = parse(tokenize(txt[start:i + 1]))[0]
        print('fn', m2.group(1), 'mode', kw(form, ':mode'))
        print('  params:', ', '.join(ex(kw(p, ':name')) for p in (kw(form, ':params') or [])))
        for key in (':require', ':ensure', ':d'):
            v = kw(form, key)
            if v:
                for e in v:
                    print('  %s %s' % (key, ex(e)))
        b = kw(form, ':body')
        if b and b != 'None':
            print('  body:', ex(b))
        print()


if __name__ == '__main__':
    main()
