"""mutation self-test: python3 -m vx.muttest <property> [name-filter]

For every mutant in units/<unit>/mutants.json (small semantic patches of the
*repository text*), a scratch tree holding only the unit's source files is
made, the patch applied, and ./check run against it (VERIF_REPO).  A mutant
expected to break the property must give exit 1; one expected to be harmless
must give exit 0.  Survivors are reported; this never raises an alarm itself."""
import json
import os
import shutil
import subprocess
import sys
import tempfile

ROOT = os.path.dirname(os.path.dirname(os.path.abspath(__file__)))
REPO = os.environ.get('VERIF_REPO', '/repo')


def run(pid, flt=None, quiet=False):
    reg = json.load(open(os.path.join(ROOT, 'registry.json')))
    ent = reg['properties'][pid]
    results = []
    allunits = list(ent['units'])
    for us in ent['units']:
        mp = os.path.join(ROOT, 'units', us['unit'], 'mutants.json')
        if not os.path.exists(mp):
            continue
        muts = json.load(open(mp))
        for m in muts:
            if pid not in m.get('props', [pid]):
                continue
            if flt and flt not in m['name']:
                continue
            tmp = tempfile.mkdtemp(prefix='vxmut_', dir=os.path.join(ROOT, 'build'))
            try:
                files = set([m['file']] + m.get('also', []) + us.get('sources', []))
                # copy every source the unit reads
                tpath = os.path.join(ROOT, 'units', us['unit'], 'template.rs')
                if os.path.exists(tpath):
                    for ln in open(tpath):
                        if ln.strip().startswith('//@source'):
                            files.add(ln.split()[2])
                for u2 in allunits:
                  t2 = os.path.join(ROOT, 'units', u2['unit'], 'template.rs')
                  if os.path.exists(t2):
                    for ln in open(t2):
                        if ln.strip().startswith('//@source'):
                            files.add(ln.split()[2])
                  kdir = os.path.join(ROOT, 'units', u2['unit'], 'kani')
                  if os.path.isdir(kdir):
                    import re as _re
                    for fn in os.listdir(os.path.join(kdir, 'src')):
                        kt = open(os.path.join(kdir, 'src', fn)).read()
                        files.update(_re.findall(r'@REPO@/([\w/\.\-]+)', kt))
                        files.update(_re.findall(r'//@extract\s+(\S+)', kt))
                    km = json.load(open(os.path.join(kdir, 'harnesses.json')))
                    files.update(f['file'] for f in km.get('functions', []))
                    files.add('Cargo.lock')
                for f in files:
                    if f.startswith('verif:'):
                        continue
                    dst = os.path.join(tmp, f)
                    os.makedirs(os.path.dirname(dst), exist_ok=True)
                    shutil.copy(os.path.join(REPO, f), dst)
                p = os.path.join(tmp, m['file'])
                s = open(p).read()
                cnt = s.count(m['old'])
                if cnt != m.get('count', 1):
                    results.append(dict(name=m['name'], status='stale', detail='pattern occurs %d times' % cnt))
                    continue
                s = s.replace(m['old'], m['new'])
                open(p, 'w').write(s)
                env = dict(os.environ, VERIF_REPO=tmp, VERIF_EVIDENCE_DIR=os.path.join(tmp, 'evidence'), VERIF_NO_REPLAY='1')
                r = subprocess.run([sys.executable, '-m', 'vx.driver', pid, '--tier', 'quick'], cwd=ROOT, env=env,
                                   capture_output=True, text=True)
                want = 1 if m.get('expect', 'fail') == 'fail' else 0
                fo = [l for l in r.stdout.split('\n') if l.startswith('FAILED-OBLIGATION')]
                st = 'ok' if r.returncode == want else (('undecided' if r.returncode == 2 else 'survived') if want == 1 else ('undecided' if r.returncode == 2 else 'false-alarm'))
                results.append(dict(name=m['name'], status=st, rc=r.returncode, expect=m.get('expect', 'fail'),
                                    failed=[l.split(' ')[1].rstrip(':') for l in fo][:6],
                                    tail=r.stdout.strip().split('\n')[-1][:300] if st != 'ok' else ''))
            finally:
                shutil.rmtree(tmp, ignore_errors=True)
                # generated files of the scratch run (build/<unit>_<hash>, build/kani/<unit>_<hash>)
                import hashlib
                tag = '_' + hashlib.sha1(tmp.encode()).hexdigest()[:8]
                for base in (os.path.join(ROOT, 'build'), os.path.join(ROOT, 'build', 'kani')):
                    if os.path.isdir(base):
                        for dn in os.listdir(base):
                            if dn.endswith(tag):
                                shutil.rmtree(os.path.join(base, dn), ignore_errors=True)
            if not quiet:
                print(json.dumps(results[-1]))
    return results


if __name__ == '__main__':
    res = run(sys.argv[1], sys.argv[2] if len(sys.argv) > 2 else None)
    bad = [r for r in res if r['status'] not in ('ok', 'undecided')]
    und = [r for r in res if r['status'] == 'undecided']
    print('%d mutants, %d not as expected, %d undecided (exit 2: hints lost or unsupported construct)' % (len(res), len(bad), len(und)))
    sys.exit(0 if not bad else 3)
