"""Brace/quote/comment-aware scanner over Rust source text (stdlib only).

Nothing here parses Rust; it delimits items (fn, struct, enum, const, impl
blocks), loop headers, closures and statements well enough to *copy* their text
verbatim.  Anything it cannot delimit raises ScanError, which the driver turns
into exit 2 (undecided), never into an alarm.
"""
import re


class ScanError(Exception):
    pass


CODE, COMMENT, STRING = 0, 1, 2


def code_mask(src):
    """bytearray, one entry per char: CODE / COMMENT / STRING (incl. char literals)."""
    n = len(src)
    m = bytearray(n)
    i = 0
    while i < n:
        c = src[i]
        if c == '/' and i + 1 < n and src[i + 1] == '/':
            j = src.find('\n', i)
            if j < 0:
                j = n
            for k in range(i, j):
                m[k] = COMMENT
            i = j
        elif c == '/' and i + 1 < n and src[i + 1] == '*':
            depth = 1
            j = i + 2
            while j < n and depth > 0:
                if src.startswith('/*', j):
                    depth += 1
                    j += 2
                elif src.startswith('*/', j):
                    depth -= 1
                    j += 2
                else:
                    j += 1
            for k in range(i, j):
                m[k] = COMMENT
            i = j
        elif c == '"' or (c in 'rb' and _raw_or_byte_string_at(src, i)):
            j = _string_end(src, i)
            for k in range(i, j):
                m[k] = STRING
            i = j
        elif c == "'":
            # char literal or lifetime
            if i + 1 < n and src[i + 1] == '\\':
                j = src.find("'", i + 2)
                # '\'' : the quote right after backslash is escaped
                if j == i + 2:
                    j = src.find("'", i + 3)
                if j < 0:
                    raise ScanError('unterminated char literal at %d' % i)
                for k in range(i, j + 1):
                    m[k] = STRING
                i = j + 1
            elif i + 2 < n and src[i + 2] == "'":
                for k in range(i, i + 3):
                    m[k] = STRING
                i += 3
            else:
                i += 1  # lifetime
        else:
            i += 1
    return m


def _raw_or_byte_string_at(src, i):
    # r"..", r#".."#, b"..", br"..", b'.' handled as string when followed by quote
    if i > 0 and (src[i - 1].isalnum() or src[i - 1] == '_'):
        return False
    mm = re.match(r'(br|rb|b|r)(#*)"', src[i:i + 12])
    return bool(mm)


def _string_end(src, i):
    mm = re.match(r'(br|rb|b|r)?(#*)"', src[i:i + 12])
    prefix, hashes = mm.group(1) or '', mm.group(2)
    j = i + mm.end()
    if 'r' in prefix:
        term = '"' + hashes
        k = src.find(term, j)
        if k < 0:
            raise ScanError('unterminated raw string at %d' % i)
        return k + len(term)
    n = len(src)
    while j < n:
        if src[j] == '\\':
            j += 2
        elif src[j] == '"':
            return j + 1
        else:
            j += 1
    raise ScanError('unterminated string at %d' % i)


OPEN = {'(': ')', '[': ']', '{': '}'}
CLOSE = {')': '(', ']': '[', '}': '{'}


def match_close(src, mask, i):
    """src[i] is an opening bracket in code; return index of its closing bracket."""
    assert src[i] in OPEN and mask[i] == CODE
    stack = []
    n = len(src)
    j = i
    while j < n:
        if mask[j] == CODE:
            c = src[j]
            if c in OPEN:
                stack.append(c)
            elif c in CLOSE:
                if not stack or stack[-1] != CLOSE[c]:
                    raise ScanError('unbalanced bracket at %d' % j)
                stack.pop()
                if not stack:
                    return j
        j += 1
    raise ScanError('no closing bracket for %d' % i)


def next_code(src, mask, i, chars):
    """index of the first code char in `chars` at bracket depth 0 starting at i."""
    n = len(src)
    j = i
    while j < n:
        if mask[j] == CODE:
            c = src[j]
            if c in chars:
                return j
            if c in OPEN:
                j = match_close(src, mask, j)
            elif c in CLOSE:
                return -1
        j += 1
    return -1


def _is_ident(c):
    return c.isalnum() or c == '_'


def find_kw(src, mask, kw, start, end):
    """yield positions of keyword kw in code within [start,end)."""
    for mm in re.finditer(r'\b' + re.escape(kw) + r'\b', src[start:end]):
        p = start + mm.start()
        if mask[p] == CODE:
            yield p


def test_mod_ranges(src, mask):
    """ranges of `#[cfg(test)] mod x { .. }` blocks, to be ignored."""
    out = []
    for mm in re.finditer(r'#\[cfg\(test\)\]\s*(pub\s+)?mod\s+\w+\s*\{', src):
        if mask[mm.start()] != CODE:
            continue
        ob = mm.end() - 1
        out.append((mm.start(), match_close(src, mask, ob) + 1))
    return out


def _in_ranges(p, ranges):
    return any(a <= p < b for a, b in ranges)


def norm_ws(s):
    return re.sub(r'\s+', ' ', s).strip()


class Source:
    def __init__(self, path, text=None):
        self.path = path
        self.text = text if text is not None else open(path).read()
        self.mask = code_mask(self.text)
        self.skip = test_mod_ranges(self.text, self.mask)

    # ---- impl blocks ----------------------------------------------------
    def impl_blocks(self):
        """list of (header_text_normalised, body_open, body_close)."""
        src, mask = self.text, self.mask
        out = []
        for p in find_kw(src, mask, 'impl', 0, len(src)):
            if _in_ranges(p, self.skip):
                continue
            # must be at item position: preceded by start/;/}/attr/newline-ish
            q = p - 1
            while q >= 0 and src[q] in ' \t\r\n':
                q -= 1
            if q >= 0 and mask[q] == CODE and src[q] not in '};]':
                # e.g. `-> impl Trait`, `: impl Fn`, `unsafe impl`
                if not src[:p].rstrip().endswith('unsafe'):
                    continue
            ob = next_code(src, mask, p, '{')
            if ob < 0:
                continue
            semi = next_code(src, mask, p, ';')
            if 0 <= semi < ob:
                continue
            header = norm_ws(src[p:ob])
            out.append((header, ob, match_close(src, mask, ob)))
        return out

    def find_impl(self, selector):
        """selector: 'Type' (inherent impl of Type, any generics) or
        'Trait for Type' (trait impl) or a full normalised header 'impl<..> X'."""
        hits = []
        for header, ob, cb in self.impl_blocks():
            if selector.startswith('impl'):
                if header == norm_ws(selector):
                    hits.append((ob, cb))
                continue
            h = re.sub(r'^impl\s*(<[^{]*?>)?\s*', '', header) if False else header
            # strip leading `impl` and its generic parameter list
            rest = header[4:].lstrip()
            if rest.startswith('<'):
                depth = 0
                for k, ch in enumerate(rest):
                    if ch == '<':
                        depth += 1
                    elif ch == '>' and rest[k - 1] != '-':
                        depth -= 1
                        if depth == 0:
                            rest = rest[k + 1:].lstrip()
                            break
            rest = re.split(r'\bwhere\b', rest)[0].strip()
            if ' for ' in selector:
                tr, ty = [x.strip() for x in selector.split(' for ', 1)]
                if ' for ' in rest:
                    rtr, rty = [x.strip() for x in rest.split(' for ', 1)]
                    if _base(rtr) == tr and _base(rty) == ty:
                        hits.append((ob, cb))
            else:
                if ' for ' not in rest and _base(rest) == selector:
                    hits.append((ob, cb))
        return hits

    # ---- functions --------------------------------------------------------
    def find_fn(self, path):
        """path: 'name' (free fn), 'Type::name', '<Trait for Type>::name'.
        returns dict(start,end,sig_start,body_open,body_close,name)"""
        if '::' in path:
            sel, name = path.rsplit('::', 1)
            sel = sel.strip()
            if sel.startswith('<') and sel.endswith('>'):
                sel = sel[1:-1]
            blocks = self.find_impl(sel)
            if not blocks:
                raise ScanError('impl block not found: %s in %s' % (sel, self.path))
            hits = []
            for ob, cb in blocks:
                hits += self._fns_in(ob + 1, cb, name)
        else:
            name = path
            hits = self._fns_in(0, len(self.text), name, toplevel=True)
        if len(hits) != 1:
            raise ScanError('function %s: %d matches in %s' % (path, len(hits), self.path))
        return hits[0]

    def _fns_in(self, start, end, name, toplevel=False):
        src, mask = self.text, self.mask
        out = []
        j = start
        depth_pos = start
        # iterate over items at depth 0 of [start,end)
        for p in find_kw(src, mask, 'fn', start, end):
            if _in_ranges(p, self.skip):
                continue
            if not re.match(r'fn\s+' + re.escape(name) + r'\b', src[p:p + 4 + len(name) + 8]):
                continue
            if self._depth_between(start, p) != 0:
                continue
            ob = next_code(src, mask, p, '{;')
            if ob < 0 or src[ob] == ';':
                continue
            cb = match_close(src, mask, ob)
            item_start = self._item_start(start, p)
            out.append(dict(name=name, start=item_start, fn_kw=p, body_open=ob,
                            body_close=cb, end=cb + 1))
        return out

    def _depth_between(self, a, b):
        src, mask = self.text, self.mask
        d = 0
        for k in range(a, b):
            if mask[k] == CODE:
                if src[k] == '{':
                    d += 1
                elif src[k] == '}':
                    d -= 1
        return d

    def _item_start(self, lo, p):
        """walk back from keyword at p over qualifiers, attributes and doc
        comments to the end of the previous item."""
        src, mask = self.text, self.mask
        q = p - 1
        while q >= lo:
            if mask[q] == CODE and src[q] in '};{':
                # `}` may close an attribute's bracket? attributes use [] so fine
                return q + 1
            q -= 1
        return lo

    # ---- type-level items -----------------------------------------------
    def find_item(self, kind, name):
        """kind in struct/enum/const/type/static. returns (start,end) text span
        starting at end of previous item (attrs included)."""
        src, mask = self.text, self.mask
        hits = []
        for p in find_kw(src, mask, kind, 0, len(src)):
            if _in_ranges(p, self.skip):
                continue
            if not re.match(kind + r'\s+' + re.escape(name) + r'\b', src[p:p + len(kind) + len(name) + 8]):
                continue
            if kind in ('struct', 'enum'):
                e = next_code(src, mask, p, '{;(')
                if e < 0:
                    continue
                if src[e] == '(':
                    e = match_close(src, mask, e)
                    e = next_code(src, mask, e + 1, ';')
                elif src[e] == '{':
                    e = match_close(src, mask, e)
                end = e + 1
            else:
                e = next_code(src, mask, p, ';')
                end = e + 1
            hits.append((self._item_start(0, p), p, end))
        if len(hits) != 1:
            raise ScanError('%s %s: %d matches in %s' % (kind, name, len(hits), self.path))
        return hits[0]

    def line_of(self, pos):
        return self.text.count('\n', 0, pos) + 1


def _base(ty):
    """base identifier of a type path with generics: ColumnData<T> -> ColumnData"""
    ty = ty.strip()
    mm = re.match(r'([A-Za-z_][\w:]*)', ty)
    if not mm:
        return ty
    return mm.group(1).split('::')[-1]


# ---------------------------------------------------------------------------
# helpers operating on a standalone snippet (function text)
# ---------------------------------------------------------------------------

class Snippet:
    def __init__(self, text):
        self.text = text
        self.mask = code_mask(text)

    def strip_attrs_and_docs(self):
        """remove leading attributes and doc comments of an item (D1). returns
        (new_text, dropped list)."""
        t = self.text
        dropped = []
        i = 0
        n = len(t)
        while True:
            while i < n and t[i] in ' \t\r\n':
                i += 1
            if t.startswith('///', i) or t.startswith('//', i):
                j = t.find('\n', i)
                j = n if j < 0 else j
                i = j
            elif t.startswith('/*', i):
                j = t.find('*/', i) + 2
                i = j
            elif t.startswith('#[', i):
                j = match_close(t, self.mask, i + 1)
                dropped.append(norm_ws(t[i:j + 1]))
                i = j + 1
            else:
                break
        return t[i:], dropped

    def loops(self, start, end):
        """positions (kw_pos, kind, open_brace) of loops in [start,end) in text order."""
        t, m = self.text, self.mask
        out = []
        for mm in re.finditer(r'\b(for|while|loop)\b', t[start:end]):
            p = start + mm.start()
            if m[p] != CODE:
                continue
            kind = mm.group(1)
            if kind == 'for':
                # exclude `impl X for Y` and `for<'a>`
                after = t[p + 3:p + 8].lstrip()
                if after.startswith('<'):
                    continue
            ob = next_code(t, m, p + len(kind), '{')
            if ob < 0:
                raise ScanError('loop header without body at %d' % p)
            out.append((p, kind, ob))
        return out

    def closures(self, start, end):
        """closures in [start,end) in text order:
        list of dict(start, params_open, params_close, body_start, body_end, is_block, move)"""
        t, m = self.text, self.mask
        out = []
        i = start
        while i < end:
            if m[i] == CODE and t[i] == '|':
                # expression-start position?
                q = i - 1
                while q >= start and t[q] in ' \t\r\n':
                    q -= 1
                prev = t[q] if q >= start else '{'
                is_start = prev in '(,={;' or t[max(0, q - 3):q + 1] == 'move' or t[max(0, q - 5):q + 1] == 'return'
                if prev == '|' or not is_start:
                    i += 1
                    continue
                cstart = i
                if t[max(0, q - 3):q + 1] == 'move':
                    cstart = q - 3
                if t[i + 1] == '|':
                    pclose = i + 1
                else:
                    pclose = None
                    k = i + 1
                    while k < end:
                        if m[k] == CODE:
                            if t[k] in OPEN:
                                k = match_close(t, m, k)
                            elif t[k] == '|':
                                pclose = k
                                break
                        k += 1
                    if pclose is None:
                        raise ScanError('closure params not closed at %d' % i)
                b = pclose + 1
                while t[b] in ' \t\r\n':
                    b += 1
                ret_ty = None
                if t.startswith('->', b):
                    ob = next_code(t, m, b, '{')
                    ret_ty = t[b + 2:ob].strip()
                    b = ob
                if t[b] == '{':
                    be = match_close(t, m, b) + 1
                    is_block = True
                else:
                    is_block = False
                    k = b
                    while k < end:
                        if m[k] == CODE:
                            if t[k] in OPEN:
                                k = match_close(t, m, k)
                            elif t[k] in ',;)]}':
                                break
                        k += 1
                    be = k
                # callee: identifier before the nearest enclosing unmatched '('
                callee = None
                depth = 0
                k2 = cstart - 1
                while k2 >= start:
                    if m[k2] == CODE:
                        if t[k2] in ')]}':
                            depth += 1
                        elif t[k2] in '([{':
                            if depth == 0:
                                if t[k2] == '(':
                                    e2 = k2
                                    while e2 > start and t[e2 - 1] in ' \t\r\n':
                                        e2 -= 1
                                    b2 = e2
                                    while b2 > start and _is_ident(t[b2 - 1]):
                                        b2 -= 1
                                    callee = t[b2:e2] or None
                                break
                            depth -= 1
                    k2 -= 1
                out.append(dict(start=cstart, bar=i, callee=callee, params=t[i + 1:pclose] if pclose > i else '',
                                params_close=pclose, body_start=b, body_end=be, is_block=is_block,
                                ret_ty=ret_ty, move=cstart != i))
                i = pclose + 1
                # do not skip the body: nested closures are also listed
                continue
            i += 1
        return out

    def stmt_end_after(self, pos):
        """index just after the `;` that ends the statement containing pos
        (depth relative to pos)."""
        t, m = self.text, self.mask
        k = pos
        n = len(t)
        while k < n:
            if m[k] == CODE:
                if t[k] in OPEN:
                    k = match_close(t, m, k)
                elif t[k] == ';':
                    return k + 1
                elif t[k] in CLOSE:
                    raise ScanError('statement containing anchor has no terminating `;`')
            k += 1
        raise ScanError('no statement end')

    def line_start(self, pos):
        k = self.text.rfind('\n', 0, pos)
        return k + 1
