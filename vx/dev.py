"""developer helper: python3 -m vx.dev <unit> [verus args]  -- generate and run verus with human-readable output"""
import os, sys, subprocess
from . import template as T
ROOT = os.path.dirname(os.path.dirname(os.path.abspath(__file__)))
unit = sys.argv[1]
u = T.Unit(os.path.join(ROOT, 'units', unit, 'template.rs'), repo=os.environ.get('VERIF_REPO', '/repo'))
text = u.build()
os.makedirs(os.path.join(ROOT, 'build', unit), exist_ok=True)
p = os.path.join(ROOT, 'build', unit, unit + '.rs')
open(p, 'w').write(text)
if u.lost_anchors:
    print('LOST ANCHORS:', u.lost_anchors)
print('obligations:', len(u.obligations), 'functions:', len(u.functions), 'lemmas:', len(u.lemmas))
r = subprocess.run(['verus', p, '--multiple-errors', '20', '--rlimit', '30', '--triggers-mode', 'silent'] + sys.argv[2:], cwd=os.path.dirname(p))
sys.exit(r.returncode)
