"""developer helper: python3 -m vx.dev <unit> [--full] [verus args]"""
import os, sys, subprocess
from . import template as T
from . import verus as V
ROOT = os.path.dirname(os.path.dirname(os.path.abspath(__file__)))
unit = sys.argv[1]
full = '--full' in sys.argv
rest = [a for a in sys.argv[2:] if a != '--full']
u = T.Unit(os.path.join(ROOT, 'units', unit, 'template.rs'), repo=os.environ.get('VERIF_REPO', '/repo'))
text = u.build()
os.makedirs(os.path.join(ROOT, 'build', unit), exist_ok=True)
p = os.path.join(ROOT, 'build', unit, unit + '.rs')
open(p, 'w').write(text)
if u.lost_anchors:
    print('LOST ANCHORS:', u.lost_anchors)
print('obligations:', len(u.obligations), 'functions:', len(u.functions), 'lemmas:', len(u.lemmas))
if full:
    r = subprocess.run(['verus', p, '--multiple-errors', '20', '--rlimit', '30', '--triggers-mode', 'silent'] + rest, cwd=os.path.dirname(p))
    sys.exit(r.returncode)
res = V.run(p, extra=rest)
an = V.analyse(res, u)
for e in an['tool_errors']:
    print('TOOL-ERROR:', e['message'], '\n', e['rendered'][:1200])
for e in an['undecided']:
    print('UNDECIDED:', e)
for f in an['failed']:
    lines = [l for l in f['rendered'].split('\n') if ('-->' in l or 'at this exit' in l or 'at the end' in l or 'failed' in l)]
    print('FAIL %-70s %s L%s' % (f['id'], f['message'], f['line']))
    for s in f['detail'].split('; '):
        print('       ', s[:150])
print(res['results'], 'wall %.1fs' % res['wall_s'])
slow = sorted(res['functions'], key=lambda x: -x.get('time', 0))[:5]
print('slowest:', [(f['function'].split('::')[-1], f['time']) for f in slow])
