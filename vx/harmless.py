"""harmless-refactoring self-test: python3 -m vx.harmless
Applies behaviour-preserving edits (renamed locals, reordered independent statements, added comments, re-bracketing) to a
scratch copy of the sources and expects every affected check to stay quiet (exit 0) or, at worst, undecided (exit 2) --
never exit 1."""
import json, os, re, shutil, subprocess, sys, tempfile
ROOT = os.path.dirname(os.path.dirname(os.path.abspath(__file__)))
SRC = ['src/protocol/resp.rs', 'src/persistence/mod.rs', 'src/persistence/tenant.rs', 'src/persistence/wal.rs', 'src/persistence/storage.rs',
       'src/raft/state_machine.rs', 'src/raft/storage.rs', 'src/raft/cluster.rs', 'src/graph/store.rs', 'src/graph/types.rs', 'src/query/mod.rs',
       'src/graph/storage/columnar.rs', 'src/graph/property.rs', 'Cargo.lock']
EDITS = json.load(open(os.path.join(ROOT, 'units', 'harmless_edits.json')))


def main():
    bad = 0
    flt = sys.argv[1] if len(sys.argv) > 1 else None
    for e in EDITS:
        if flt and flt not in e['name']:
            continue
        tmp = tempfile.mkdtemp(prefix='vxharm_', dir=os.path.join(ROOT, 'build'))
        try:
            for f in SRC:
                dst = os.path.join(tmp, f)
                os.makedirs(os.path.dirname(dst), exist_ok=True)
                shutil.copy(os.path.join('/repo', f), dst)
            p = os.path.join(tmp, e['file'])
            s = open(p).read()
            ok = True
            for old, new in e['subs']:
                if old not in s:
                    print(json.dumps(dict(name=e['name'], status='stale', missing=old[:60])))
                    ok = False
                    break
                s = s.replace(old, new)
            if not ok:
                continue
            open(p, 'w').write(s)
            for pid in e['props']:
                env = dict(os.environ, VERIF_REPO=tmp, VERIF_EVIDENCE_DIR=os.path.join(tmp, 'evidence'), VERIF_NO_REPLAY='1')
                r = subprocess.run([sys.executable, '-m', 'vx.driver', pid, '--tier', 'quick'], cwd=ROOT, env=env, capture_output=True, text=True)
                st = {0: 'quiet', 2: 'undecided', 1: 'FALSE-ALARM'}.get(r.returncode, 'rc%d' % r.returncode)
                if r.returncode == 1:
                    bad += 1
                fo = [l.split(' ')[1].rstrip(':') for l in r.stdout.split('\n') if l.startswith('FAILED-OBLIGATION')][:3]
                print(json.dumps(dict(name=e['name'], property=pid, status=st, failed=fo, tail=r.stdout.strip().split('\n')[-1][:160] if r.returncode else '')))
        finally:
            shutil.rmtree(tmp, ignore_errors=True)
            import hashlib
            tag = '_' + hashlib.sha1(tmp.encode()).hexdigest()[:8]
            for base in (os.path.join(ROOT, 'build'), os.path.join(ROOT, 'build', 'kani')):
                if os.path.isdir(base):
                    for dn in os.listdir(base):
                        if dn.endswith(tag):
                            shutil.rmtree(os.path.join(base, dn), ignore_errors=True)
    print('false alarms: %d' % bad)
    sys.exit(1 if bad else 0)


if __name__ == '__main__':
    main()
