"""Unit templates: a Rust file whose `//@` directives are replaced, on every
run, by text re-extracted from /repo with contracts spliced in.

Directive grammar (one per line, leading blanks allowed):

  //@unit NAME
  //@properties C31 [C..]
  //@source ALIAS repo/relative/path.rs
  //@rules D2 R1 R3 R5 R2            unit-wide rewrite rules
  //@struct NAME [from=ALIAS] [keep=a,b] [derive=Clone,Copy] [erase]  (D3/D5/R1)
  //@enum NAME [from=ALIAS] [derive=..]
  //@item const|type|static NAME [from=ALIAS]
  //@fn PATH [from=ALIAS] [selfmut] [ret=r] [props=C31,C32] [novis] [optional] [rules=+R2,-D2] [r9=expr;expr]
  //@requires            following plain lines, up to the next //@ line
  //@ensures             clause labels are trailing `//#label`
  //@decreases
  //@loop N [iter=it]    invariant / decreases text for the N-th loop of the body
  //@closure N (params) -> (b: bool) ensures EXPR     @BODY = the closure's own body text
  //@before "anchor"     ghost text inserted before the line holding the anchor
  //@after "anchor"      ghost text inserted after the statement holding the anchor
  //@atstart             ghost text inserted right after the opening brace of the body
  //@atend               ghost text inserted right before the tail expression of the body
  //@afterloop N         ghost text inserted right after the closing brace of the N-th loop
  //@loopstart N / //@loopend N   ghost text at the beginning / end of the body of the N-th loop
  //@beforeloop N        ghost text on the line before the N-th loop
  //@tail NAME           the tail expression E becomes `let NAME = E; <ghost text> NAME` (R16)
  //@replace "old" => "new" :: reason      function-specific rewrite (logged as F)
  //@replaceall "old" => "new" :: reason   the same for every occurrence
  //@replace? "old" => "new" :: reason     the same, for an expression only some versions of the code contain (absence is not a lost anchor)
  //@replacespan "from" .. "to" => "new" :: reason   a whole block between two anchors (logged as F)
  //@end

Everything else in the template is proof-only or assumed text (prelude,
lemmas) and is copied unchanged.
"""
import hashlib
import json
import os
import re
import shlex

from . import rules as R
from .rustscan import Source, Snippet, ScanError, norm_ws, code_mask, next_code, match_close, CODE


class TemplateError(Exception):
    pass


_BINDER = re.compile(r"\blet\s+(?:mut\s+)?([a-z_][a-z0-9_]*)\b|\bfor\s+([a-z_][a-z0-9_]*)\s+in\b|\b(?:Some|Ok|Err)\(\s*(?:mut\s+|ref\s+)?([a-z_][a-z0-9_]*)\s*\)")


def binders(text):
    """ordered list of the local names a function binds (let / for / Some(x) / Ok(x) / Err(x)), code only"""
    mask = code_mask(text)
    out = []
    for mm in _BINDER.finditer(text):
        if mask[mm.start()] != CODE:
            continue
        nm = mm.group(1) or mm.group(2) or mm.group(3)
        if nm in ('mut', 'ref', '_'):
            continue
        out.append(nm)
    return out


def sig_params(text, name):
    """[(param name, normalised type)] of fn `name` in text, self receivers skipped; None if it cannot be read"""
    mask = code_mask(text)
    for mm in re.finditer(r'\bfn\s+' + re.escape(name) + r'\b', text):
        if mask[mm.start()] != CODE:
            continue
        k = mm.end()
        # skip generics
        while k < len(text) and text[k] in ' \t\r\n':
            k += 1
        if k < len(text) and text[k] == '<':
            depth = 0
            while k < len(text):
                if text[k] == '<':
                    depth += 1
                elif text[k] == '>' and text[k - 1] != '-':
                    depth -= 1
                    if depth == 0:
                        k += 1
                        break
                k += 1
        op = text.find('(', k)
        if op < 0:
            return None
        cp = match_close(text, mask, op)
        inner = text[op + 1:cp]
        parts, depth, cur = [], 0, ''
        for ch in inner:
            if ch in '([{<':
                depth += 1
            elif ch in ')]}>':
                depth -= 1
            if ch == ',' and depth == 0:
                parts.append(cur)
                cur = ''
            else:
                cur += ch
        if cur.strip():
            parts.append(cur)
        out = []
        for p_ in parts:
            p_ = p_.strip()
            if re.match(r'(&\s*(\'\w+\s+)?)?(mut\s+)?self\b', p_):
                continue
            m2 = re.match(r'(?:mut\s+)?([A-Za-z_][A-Za-z0-9_]*)\s*:\s*(.*)$', p_, re.S)
            if not m2:
                return None
            out.append((m2.group(1), norm_ws(m2.group(2))))
        return out
    return None


def rename_map(base, cur):
    """a consistent old->new renaming when the two binder lists have the same shape, else None"""
    if base is None or len(base) != len(cur) or base == cur:
        return None
    m = {}
    for a, b in zip(base, cur):
        if a != b:
            if m.get(a, b) != b:
                return None
            m[a] = b
    # names merely permuted among themselves: statements were reordered, nothing was renamed
    if m and all(b in base for b in m.values()):
        return None
    # a new name must not collide with an unrenamed old one
    for a, b in m.items():
        if b in base and m.get(b) is None and b != a:
            return None
    return m


class Gen:
    """accumulates generated text and a per-line tag table."""

    def __init__(self):
        self.lines = []     # text lines
        self.tags = []      # parallel: dict or None

    def emit(self, text, tag=None):
        if text.endswith('\n'):
            text = text[:-1]
        for ln in text.split('\n'):
            self.lines.append(ln)
            self.tags.append(tag)

    def emit_tagged_lines(self, pairs):
        for ln, tag in pairs:
            self.lines.append(ln)
            self.tags.append(tag)

    def text(self):
        return '\n'.join(self.lines) + '\n'


def _kv(tokens):
    flags, kv = [], {}
    for t in tokens:
        if '=' in t:
            k, v = t.split('=', 1)
            kv[k] = v
        else:
            flags.append(t)
    return flags, kv


def _split_label(line):
    mm = re.search(r'//#\s*([\w\-]+)\s*$', line)
    if mm:
        return line[:mm.start()].rstrip(), mm.group(1)
    return line, None


class Unit:
    def __init__(self, template_path, repo='/repo', strip_hints=()):
        # functions whose proof hints are dropped (fallback after a shape change): path -> level (1 = ghost text and loop
        # invariants; 2 = closure annotations as well)
        self.strip_hints = dict(strip_hints) if isinstance(strip_hints, dict) else {k: 2 for k in strip_hints}
        self.path = template_path
        self.repo = repo
        self.name = None
        self.properties = []
        self.sources = {}
        self.src_cache = {}
        self.rules = []
        self.log = []            # extraction log
        self.functions = []      # functions under contract
        self.lemmas = []         # template fns
        self.obligations = []    # dict(id, fn, kind, label, props)
        self.trusted = []        # trusted base scan
        self.lost_anchors = []   # proof hints whose anchor disappeared (hint skipped)
        self.canary_points = []  # (gen line index) where assert(false) may be inserted
        self.binders = {}
        self.binders_raw = {}
        self.params = {}
        self.closure_ord = {}
        self.pending_replace_rename = {}
        lp = os.path.join(os.path.dirname(template_path), 'locals.json')
        base = json.load(open(lp)) if os.path.exists(lp) else {}
        self.base_binders = base.get('after_rules', {})
        self.base_binders_raw = base.get('raw', {})
        self.base_params = base.get('params', {})
        self.base_closure_ord = base.get('closures', {})
        self.gen = Gen()

    def source(self, alias):
        if alias not in self.sources:
            raise TemplateError('unknown source alias %s' % alias)
        if alias not in self.src_cache:
            rel = self.sources[alias]
            if rel.startswith('verif:'):
                # proof-side Rust text kept in /verif (e.g. a reference implementation used as a Kani oracle)
                p = os.path.join(os.path.dirname(os.path.dirname(os.path.dirname(self.path))), rel[6:])
            else:
                p = os.path.join(self.repo, rel)
            self.src_cache[alias] = Source(p)
        return self.src_cache[alias]

    # ------------------------------------------------------------------
    def build(self):
        tl = open(self.path).read().split('\n')
        i = 0
        n = len(tl)
        default_src = None
        verb = []

        def flush_verbatim():
            nonlocal verb
            if verb:
                self._emit_verbatim('\n'.join(verb))
                verb = []

        while i < n:
            ln = tl[i]
            s = ln.strip()
            if not s.startswith('//@'):
                verb.append(ln)
                i += 1
                continue
            d = s[3:].strip()
            toks = shlex.split(d) if d else ['']
            kw = toks[0]
            if kw == 'unit':
                self.name = toks[1]
            elif kw == 'properties':
                self.properties = toks[1:]
            elif kw == 'source':
                self.sources[toks[1]] = toks[2]
                if default_src is None:
                    default_src = toks[1]
            elif kw == 'rules':
                self.rules = toks[1:]
            elif kw == 'include':
                flush_verbatim()
                ip = os.path.join(os.path.dirname(os.path.dirname(self.path)), toks[1])
                self._emit_verbatim('// ---- included from units/%s ----\n' % toks[1] + open(ip).read())
            elif kw in ('struct', 'enum'):
                flush_verbatim()
                flags, kv = _kv(toks[2:])
                self._emit_type(kw, toks[1], kv.get('from', default_src), flags, kv)
            elif kw == 'item':
                flush_verbatim()
                flags, kv = _kv(toks[3:])
                self._emit_item(toks[1], toks[2], kv.get('from', default_src))
            elif kw == 'fn':
                flush_verbatim()
                # collect block
                j = i + 1
                block = []
                while j < n and tl[j].strip() != '//@end':
                    block.append(tl[j])
                    j += 1
                if j >= n:
                    raise TemplateError('//@fn without //@end at template line %d' % (i + 1))
                flags, kv = _kv(toks[2:])
                self._emit_fn(toks[1], kv.get('from', default_src), flags, kv, block)
                i = j
            elif kw in ('', 'end'):
                pass
            else:
                raise TemplateError('unknown directive %r at template line %d' % (kw, i + 1))
            i += 1
        flush_verbatim()
        return self.gen.text()

    # ------------------------------------------------------------------
    def _emit_verbatim(self, text):
        sn = Snippet(text)
        # tag lines that belong to template functions (lemmas, spec fns, assumed specs)
        line_starts = [0]
        for mm in re.finditer('\n', text):
            line_starts.append(mm.end())
        tags = [None] * len(line_starts)
        for mm in re.finditer(r'\b(proof\s+fn|spec\s+fn|exec\s+fn|fn)\s+([A-Za-z_]\w*)', text):
            if sn.mask[mm.start()] != CODE:
                continue
            kind = norm_ws(mm.group(1))
            name = mm.group(2)
            ob = next_code(text, sn.mask, mm.end(), '{;')
            if ob < 0 or text[ob] == ';':
                continue
            cb = match_close(text, sn.mask, ob)
            l0 = text.count('\n', 0, mm.start())
            l1 = text.count('\n', 0, cb)
            for l in range(l0, l1 + 1):
                if tags[l] is None:
                    tags[l] = dict(fn=name, kind='lemma', label=None, tmpl=True, fkind=kind)
            if kind == 'proof fn':
                self.lemmas.append(name)
        # trusted-base scan
        for mm in re.finditer(r'(assume_specification[^\[]*\[\s*([^\]]+?)\s*\]|#\[verifier::external_body\]\s*(?:pub\s+)?(?:proof\s+|spec\s+)?fn\s+(\w+)|#\[verifier::external[_a-z]*\]|\badmit\(\)|\bassume\()', text):
            if sn.mask[mm.start()] != CODE:
                continue
            if mm.group(2):
                self.trusted.append('assume_specification[%s]' % norm_ws(mm.group(2)))
            elif mm.group(3):
                self.trusted.append('external_body fn %s' % mm.group(3))
            else:
                self.trusted.append(norm_ws(mm.group(0)))
        lines = text.split('\n')
        self.gen.emit_tagged_lines(zip(lines, tags))

    # ------------------------------------------------------------------
    def _emit_item(self, kind, name, alias):
        src = self.source(alias)
        start, kwpos, end = src.find_item(kind, name)
        text = src.text[kwpos:end]
        log = []
        if 'R3' in self.rules:
            text = R.r3_hasher(text, log)
        self._log(log, '%s %s' % (kind, name))
        self.gen.emit('pub ' + text, dict(fn=None, kind='item', label=name))

    def _emit_type(self, kind, name, alias, flags, kv):
        src = self.source(alias)
        start, kwpos, end = src.find_item(kind, name)
        raw = src.text[start:end]
        sn = Snippet(raw)
        body, dropped = sn.strip_attrs_and_docs()
        log = [dict(rule='D1', before=a, after='') for a in dropped]
        derive = kv.get('derive')
        out = []
        if derive:
            out.append('#[derive(%s)]' % derive.replace(',', ', '))
            log.append(dict(rule='D1', before='', after='#[derive(%s)] (re-emitted)' % derive))
        if kind == 'struct':
            keep = kv.get('keep')
            keep = keep.split(',') if keep else None
            out.append(self._struct_text(body, keep, 'erase' in flags or 'R1' in self.rules, log, name))
        else:
            out.append(self._enum_text(body, log))
        self._log(log, '%s %s' % (kind, name))
        self.gen.emit('\n'.join(out), dict(fn=None, kind='item', label=name))

    def _strip_inner_attrs(self, text, log):
        """drop attributes and doc comments inside a type body."""
        mask = code_mask(text)
        out = []
        i = 0
        n = len(text)
        while i < n:
            if mask[i] == CODE and text.startswith('#[', i):
                j = match_close(text, mask, i + 1)
                log.append(dict(rule='D1', before=norm_ws(text[i:j + 1]), after=''))
                i = j + 1
            elif text.startswith('///', i) and mask[i] != 0:
                j = text.find('\n', i)
                i = n if j < 0 else j
            else:
                out.append(text[i])
                i += 1
        return ''.join(out)

    def _struct_text(self, body, keep, erase, log, name):
        body = self._strip_inner_attrs(body, log)
        mask = code_mask(body)
        ob = next_code(body, mask, 0, '{')
        if ob < 0:
            # tuple struct: make positional fields pub (D5)
            b = body.lstrip().removeprefix('pub ').lstrip()
            mt = re.match(r'(struct\s+\w+\s*(?:<[^>]*>)?\s*)\((.*)\)\s*;\s*$', b, re.S)
            if mt:
                flds = [f.strip() for f in mt.group(2).split(',') if f.strip()]
                flds = [f if f.startswith('pub') else 'pub ' + f for f in flds]
                log.append(dict(rule='D5', before=norm_ws(b), after='positional fields made pub'))
                return 'pub %s(%s);' % (mt.group(1), ', '.join(flds))
            return 'pub ' + b
        cb = match_close(body, mask, ob)
        header = body[:ob].strip()
        if not header.startswith('pub'):
            header = 'pub ' + header
        inner = body[ob + 1:cb]
        imask = code_mask(inner)
        fields = []
        k = 0
        start = 0
        depth = 0
        angle = 0
        for k, ch in enumerate(inner):
            if imask[k] != CODE:
                continue
            if ch in '([{':
                depth += 1
            elif ch in ')]}':
                depth -= 1
            elif ch == '<':
                angle += 1
            elif ch == '>' and inner[k - 1] != '-':
                angle -= 1
            elif ch == ',' and depth == 0 and angle == 0:
                fields.append(inner[start:k])
                start = k + 1
        fields.append(inner[start:])
        out_fields = []
        for f in fields:
            # remove comments
            fm = code_mask(f)
            fc = ''.join(c for c, m in zip(f, fm) if m != 1).strip()
            if not fc:
                continue
            mm = re.match(r'(pub(?:\([^)]*\))?\s+)?([A-Za-z_]\w*)\s*:\s*(.*)$', fc, re.S)
            if not mm:
                raise ScanError('cannot parse field %r of %s' % (fc, name))
            fname, fty = mm.group(2), norm_ws(mm.group(3))
            if keep is not None and fname not in keep:
                log.append(dict(rule='D3', before='%s: %s' % (fname, fty), after=''))
                continue
            if 'R3' in self.rules:
                fty = R.r3_hasher(fty, log)
            if erase:
                fty = R.r1_erase_type(fty, log)
            if not mm.group(1):
                log.append(dict(rule='D5', before=fname, after='pub ' + fname))
            out_fields.append('    pub %s: %s,' % (fname, fty))
        if keep is not None:
            missing = [k for k in keep if not any(re.match(r'\s*pub %s:' % re.escape(k), f) for f in out_fields)]
            if missing:
                raise ScanError('struct %s: projected fields not found: %s' % (name, missing))
        return header + ' {\n' + '\n'.join(out_fields) + '\n}'

    def _enum_text(self, body, log):
        body = self._strip_inner_attrs(body, log)
        if 'R3' in self.rules:
            body = R.r3_hasher(body, log)
        b = body.lstrip()
        if not b.startswith('pub'):
            b = 'pub ' + b
        return b

    # ------------------------------------------------------------------
    def _parse_fn_block(self, block):
        spec = dict(requires=[], ensures=[], decreases=[], loops={}, closures={}, hints=[], replaces=[], chains=[], names=[], tail=None, spans=[])
        cur = None
        for ln in block:
            s = ln.strip()
            if s.startswith('//@'):
                d = s[3:].strip()
                kw = d.split(None, 1)[0] if d else ''
                rest = d[len(kw):].strip()
                if kw in ('requires', 'ensures', 'decreases'):
                    cur = spec[kw]
                elif kw == 'loop':
                    toks = rest.split()
                    flags, kv = _kv(toks[1:])
                    ent = dict(n=int(toks[0]), iter=kv.get('iter'), hoist=kv.get('hoist'), desugar=kv.get('desugar'), index=kv.get('index'), keys=kv.get('keys'), lines=[])
                    spec['loops'][ent['n']] = ent
                    cur = ent['lines']
                elif kw == 'closure':
                    mm = re.match(r'([\w#]+)\s+(.*)$', rest, re.S)
                    key = mm.group(1)
                    spec['closures'][int(key) if key.isdigit() else key] = mm.group(2)
                    cur = None
                elif kw in ('before', 'after'):
                    mm = re.match(r'"((?:[^"\\]|\\.)*)"\s*(\d+)?', rest)
                    if not mm:
                        raise TemplateError('bad anchor: %s' % rest)
                    ent = dict(where=kw, anchor=mm.group(1).replace('\\"', '"'), nth=int(mm.group(2) or 0), lines=[])
                    spec['hints'].append(ent)
                    cur = ent['lines']
                elif kw == 'name':
                    # //@name VAR "regex with one group": VAR is bound to the group's text in the function body; `@{VAR}` in
                    # anchors and ghost text of this function is replaced by it (keeps hints independent of local names)
                    mm = re.match(r'(\w+)\s+"((?:[^"\\]|\\.)*)"', rest)
                    if not mm:
                        raise TemplateError('bad name directive: %s' % rest)
                    spec['names'].append((mm.group(1), mm.group(2).replace('\\"', '"')))
                    cur = None
                elif kw == 'atend':
                    # //@atend: ghost text placed right before the tail expression of the body (the function's final exit)
                    ent = dict(where='atend', anchor=None, nth=0, lines=[])
                    spec['hints'].append(ent)
                    cur = ent['lines']
                elif kw in ('loopstart', 'loopend', 'beforeloop'):
                    # //@loopstart N / //@loopend N: ghost text at the beginning / the end of the body of the N-th loop (positional:
                    # independent of the statements in the body)
                    ent = dict(where=kw, anchor=None, nth=int(rest.strip()), lines=[])
                    spec['hints'].append(ent)
                    cur = ent['lines']
                elif kw == 'afterloop':
                    # //@afterloop N: ghost text placed right after the closing brace of the N-th loop
                    ent = dict(where='afterloop', anchor=None, nth=int(rest.strip()), lines=[])
                    spec['hints'].append(ent)
                    cur = ent['lines']
                elif kw == 'tail':
                    # //@tail NAME: the body's tail expression E becomes `let NAME = E; <ghost text> NAME` (rule R16)
                    ent = dict(name=rest.strip(), lines=[])
                    spec['tail'] = ent
                    cur = ent['lines']
                elif kw == 'atstart':
                    ent = dict(where='start', anchor=None, nth=0, lines=[])
                    spec['hints'].append(ent)
                    cur = ent['lines']
                elif kw == 'chain':
                    mm = re.match(r'"((?:[^"\\]|\\.)*)"\s*(\w+)?\s*(mut)?', rest)
                    spec['chains'].append((mm.group(1).replace('\\"', '"'), mm.group(2) or 'c', bool(mm.group(3))))
                    cur = None
                elif kw == 'replacespan':
                    # //@replacespan "from" .. "to" => "new" :: reason   -- everything from the (unique) first anchor through the
                    # first occurrence of the second anchor after it is replaced (for blocks outside the projected state)
                    mm = re.match(r'"((?:[^"\\]|\\.)*)"\s*\.\.\s*"((?:[^"\\]|\\.)*)"\s*=>\s*"((?:[^"\\]|\\.)*)"\s*::\s*(.*)$', rest)
                    if not mm:
                        raise TemplateError('bad replacespan: %s' % rest)
                    un = lambda t: t.replace('\\"', '"').replace('<NL>', '\n')
                    spec['spans'].append((un(mm.group(1)), un(mm.group(2)), un(mm.group(3)), mm.group(4)))
                    cur = None
                elif kw in ('replace', 'replaceall', 'replace?'):
                    mm = re.match(r'"((?:[^"\\]|\\.)*)"\s*=>\s*"((?:[^"\\]|\\.)*)"\s*::\s*(.*)$', rest)
                    if not mm:
                        raise TemplateError('bad replace: %s' % rest)
                    spec['replaces'].append((mm.group(1).replace('\\"', '"').replace('<NL>', '\n'), mm.group(2).replace('\\"', '"').replace('<NL>', '\n'), mm.group(3) + (' [every occurrence]' if kw == 'replaceall' else '') + (' [only in some versions of the code]' if kw == 'replace?' else '')))
                    cur = None
                else:
                    raise TemplateError('unknown fn sub-directive %r' % kw)
            else:
                if cur is None:
                    if s:
                        raise TemplateError('stray text in fn block: %r' % ln)
                else:
                    cur.append(ln)
        return spec

    def _emit_fn(self, path, alias, flags, kv, block):
        spec = self._parse_fn_block(block)
        if path in self.strip_hints:
            # keep the structural loop rewrites (R12/R13/desugar/hoist: needed for Verus to accept the text at all), drop the invariants
            spec['loops'] = {n_: dict(ent, lines=[]) for n_, ent in spec['loops'].items()
                             if ent.get('index') or ent.get('keys') or ent.get('desugar') or ent.get('hoist')}
            if self.strip_hints[path] >= 2:
                spec['closures'] = {}
            spec['hints'] = []
            spec['chains'] = []
            spec['tail'] = None
        src = self.source(alias)
        try:
            loc = src.find_fn(path)
        except ScanError as e:
            if 'optional' in flags:
                # a helper that only some versions of the code have: without it, its callers are checked against
                # whatever they call instead
                self.lost_anchors.append('%s: optional function not present (%s)' % (path, e))
                return
            raise
        raw = src.text[loc['start']:loc['end']]
        props = kv.get('props').split(',') if kv.get('props') else list(self.properties)
        sha = hashlib.sha256(raw.encode()).hexdigest()
        log = []
        sn = Snippet(raw)
        text, dropped = sn.strip_attrs_and_docs()
        for a in dropped:
            log.append(dict(rule='D1', before=a, after=''))
        rules = list(self.rules)
        for r in (kv.get('rules') or '').split(','):
            if r.startswith('+'):
                rules.append(r[1:])
            elif r.startswith('-') and r[1:] in rules:
                rules.remove(r[1:])
        # (replace anchors follow local renames too: binder lists are compared on the text before any rewrite)
        rm0 = rename_map(self.base_binders_raw.get(path), binders(text))
        self.binders_raw[path] = binders(text)
        if rm0:
            def rn0(t):
                for a, b in rm0.items():
                    t = re.sub(r'(?<![A-Za-z0-9_])' + re.escape(a) + r'(?![A-Za-z0-9_])', b, t)
                return t
            spec['replaces'] = [(rn0(o), rn0(n), w) for o, n, w in spec['replaces']]
        # --- function-specific textual replacements (logged) ---
        for a0, a1, new, why in spec.get('spans', []):
            occ = [m_.start() for m_ in re.finditer(re.escape(a0), text)]
            if len(occ) != 1:
                self.lost_anchors.append('%s: replacespan anchor %r occurs %d times' % (path, a0, len(occ)))
                continue
            e0 = text.find(a1, occ[0] + len(a0))
            if e0 < 0:
                self.lost_anchors.append('%s: replacespan end anchor %r not found' % (path, a1))
                continue
            log.append(dict(rule='F', before=norm_ws(text[occ[0]:e0 + len(a1)])[:400], after=new, reason=why))
            text = text[:occ[0]] + new + text[e0 + len(a1):]
        for old, new, why in spec['replaces']:
            # layout-insensitive: a line break plus indentation in the anchor matches any (or no) white space, other
            # white space matches any white-space run
            rx = re.escape(old)
            rx = re.sub(r'(?:\\\n|\n)(?:\\ )*', lambda m: r'\s*', rx)
            rx = re.sub(r'(?:\\ )+', lambda m: r'\s+', rx)
            hits = list(re.finditer(rx, text))
            cnt = len(hits)
            if cnt >= 1 and why.endswith(' [every occurrence]'):
                text = re.sub(rx, lambda m_: new, text)
                log.append(dict(rule='F', before=old, after=new, reason=why))
                continue
            if cnt == 0 and why.endswith(' [only in some versions of the code]'):
                continue
            if cnt != 1:
                # the expression this rewrite stands for is gone (or duplicated): leave the text as it is; what
                # Verus then makes of it (unconstrained result, or unsupported construct) decides
                self.lost_anchors.append('%s: replace anchor %r occurs %d times' % (path, old, cnt))
                continue
            mm = hits[0]
            text = text[:mm.start()] + new + text[mm.end():]
            log.append(dict(rule='F', before=mm.group(0), after=new, reason=why))
        # --- rules on whole function text ---
        if 'D2' in rules:
            text = R.d2_drop_tracing(text, log)
        if 'R3' in rules:
            text = R.r3_hasher(text, log)
        if 'R5' in rules:
            text = R.r5_unreachable(text, log)
        if 'R10' in rules:
            text = R.r10_byte_strings(text, log)
        if 'R14' in rules:
            text = R.r14_split_or_guard(text, log)
        if 'R15' in rules:
            text = R.r15_iter_wrappers(text, log)
        text = R.r18_enumerate(text, log)
        if 'R19' in rules:
            text = R.r19_extend_cloned(text, log)
        if 'R20' in rules:
            text = R.r20_extend_taken(text, log)
        if 'R1' in rules:
            text = R.r1_erase_guards(text, log, 'selfmut' in flags)
            text = R.r1_erase_ctor(text, log)
        if 'R2' in rules:
            text = R.r2_ref_patterns(text, log)
            text = R.r2_some_ref(text, log)
            text = R.r2_closure_params(text, log)
        if kv.get('r9'):
            text = R.r9_iter(text, log, kv['r9'].split(';'))
        # --- local renames: hints are written against the locals' names at authoring time (units/<unit>/locals.json);
        # if the function binds the same number of locals in the same order but under other names, the hints follow ---
        cur_b = binders(text)
        self.binders[path] = cur_b
        rm = rename_map(self.base_binders.get(path), cur_b)
        if rm:
            def rn(t):
                # outside string literals only ("nodes" the column family is not nodes the local)
                parts = re.split(r'("(?:[^"\\]|\\.)*")', t)
                for k in range(0, len(parts), 2):
                    for a, b in rm.items():
                        parts[k] = re.sub(r'(?<![A-Za-z0-9_@{])' + re.escape(a) + r'(?![A-Za-z0-9_])', b, parts[k])
                return ''.join(parts)
            def rn_anchor(t):
                for a, b in rm.items():
                    t = re.sub(r'(?<![A-Za-z0-9_@{])' + re.escape(a) + r'(?![A-Za-z0-9_])', b, t)
                return t
            for h in spec['hints']:
                if h.get('anchor'):
                    h['anchor'] = rn_anchor(h['anchor'])
                h['lines'] = [rn(l) for l in h['lines']]
            for ent in spec['loops'].values():
                ent['lines'] = [rn(l) for l in ent['lines']]
            spec['closures'] = {k: rn(v) for k, v in spec['closures'].items()}
            spec['names'] = [(v, rn_anchor(rx)) for v, rx in spec['names']]
            log.append(dict(rule='hint-rename', before=', '.join(sorted(rm)), after=', '.join(rm[k] for k in sorted(rm)),
                            reason='locals renamed in the code; proof hints follow (contracts mention parameters only)'))
            self.pending_replace_rename[path] = rn
        # --- parameter renames: contracts are written against the parameters' names at authoring time; if the signature has
        # the same parameter types in the same order under other names, contracts and hints follow ---
        cur_p = sig_params(text, loc['name'])
        self.params[path] = cur_p
        base_p = self.base_params.get(path)
        if base_p and cur_p and len(base_p) == len(cur_p) and [t_ for _, t_ in base_p] == [t_ for _, t_ in cur_p] and [n_ for n_, _ in base_p] != [n_ for n_, _ in cur_p]:
            prm = {a: b for (a, _), (b, _) in zip(base_p, cur_p) if a != b}
            if not any(b in [n_ for n_, _ in base_p] for b in prm.values()):
                def rnp(t):
                    parts = re.split(r'("(?:[^"\\]|\\.)*")', t)
                    for k in range(0, len(parts), 2):
                        for a, b in prm.items():
                            parts[k] = re.sub(r'(?<![A-Za-z0-9_@{.])' + re.escape(a) + r'(?![A-Za-z0-9_])', b, parts[k])
                    return ''.join(parts)
                for key in ('requires', 'ensures', 'decreases'):
                    spec[key] = [rnp(l) for l in spec[key]]
                for h in spec['hints']:
                    if h.get('anchor'):
                        h['anchor'] = rnp(h['anchor'])
                    h['lines'] = [rnp(l) for l in h['lines']]
                for ent in spec['loops'].values():
                    ent['lines'] = [rnp(l) for l in ent['lines']]
                spec['closures'] = {k: rnp(v) for k, v in spec['closures'].items()}
                if spec.get('tail'):
                    spec['tail']['lines'] = [rnp(l) for l in spec['tail']['lines']]
                log.append(dict(rule='param-rename', before=', '.join(sorted(prm)), after=', '.join(prm[k] for k in sorted(prm)),
                                reason='parameters renamed in the code (same types, same order); contracts and hints follow'))
        # --- split signature / body ---
        sn = Snippet(text)
        mfn = None
        for mm in re.finditer(r'\bfn\s+' + re.escape(loc['name']) + r'\b', text):
            if sn.mask[mm.start()] == CODE:
                mfn = mm
                break
        if not mfn:
            raise ScanError('%s: fn keyword lost after rewriting' % path)
        ob = next_code(text, sn.mask, mfn.end(), '{')
        cb = match_close(text, sn.mask, ob)
        sig = text[:ob].rstrip()
        body = text[ob:cb + 1]
        if 'selfmut' in flags:
            sig = R.r1_selfmut(sig, log)
        if 'novis' not in flags and not re.match(r'\s*pub\b', sig):
            sig = 'pub ' + sig.lstrip()
            log.append(dict(rule='D5', before='fn ' + loc['name'], after='pub fn ' + loc['name']))
        ret = kv.get('ret')
        if ret:
            sig = self._name_return(sig, ret, path)
        # --- body edits: collect (pos, order, text) insertions + closure replacements ---
        body = self._splice_body(path, body, spec, log)
        # --- emit ---
        fq = path
        tagbase = dict(fn=fq, tmpl=False)
        g = self.gen
        if 'noisolation' in flags:
            g.emit('#[verifier::loop_isolation(false)]', dict(tagbase, kind='sig', label=None))
        if 'nodecreases' in flags or (path in self.strip_hints and spec['loops']):
            # (also when the invariants of rewritten `while` loops were dropped with the hints: their decreases clauses went with them)
            # termination of this function's loops is NOT checked (recorded in the trusted base)
            g.emit('#[verifier::exec_allows_no_decreases_clause]', dict(tagbase, kind='sig', label=None))
            self.trusted.append('termination not checked: fn %s (exec_allows_no_decreases_clause)' % path)
        g.emit(sig, dict(tagbase, kind='sig', label=None))
        obl = []

        def emit_clauses(kwd, lines, kind):
            if not any(l.strip() for l in lines):
                return
            g.emit('    ' + kwd, dict(tagbase, kind=kind, label=None))
            # assign labels: a label closes a clause; lines w/o label get auto label
            pend = []
            auto = 0
            for ln in lines:
                txt, lab = _split_label(ln)
                pend.append(txt)
                if lab:
                    for p in pend:
                        g.emit(p, dict(tagbase, kind=kind, label=lab))
                    obl.append((kind, lab))
                    pend = []
            if pend and any(p.strip() for p in pend):
                auto += 1
                lab = 'rest%d' % auto
                for p in pend:
                    g.emit(p, dict(tagbase, kind=kind, label=lab))
                obl.append((kind, lab))

        emit_clauses('requires', spec['requires'], 'requires')
        emit_clauses('ensures', spec['ensures'], 'ensures')
        if any(l.strip() for l in spec['decreases']):
            g.emit('    decreases', dict(tagbase, kind='decreases', label=None))
            for ln in spec['decreases']:
                g.emit(ln, dict(tagbase, kind='decreases', label=None))
        # body lines carry tags possibly refined by loop invariants
        first = True
        for ln, tag in body:
            t = dict(tagbase, kind='body', label=None)
            if tag:
                t.update(tag)
                if tag.get('kind') == 'inv' and tag.get('label'):
                    key = ('inv%d' % tag['loop'], tag['label'])
                    if key not in obl:
                        obl.append(key)
            g.emit(ln, t)
            if first:
                self.canary_points.append((len(g.lines) - 1, fq))
                first = False
        self._log(log, 'fn ' + path)
        self.functions.append(dict(path=path, file=self.sources[alias], line_start=src.line_of(loc['fn_kw']),
                                   line_end=src.line_of(loc['end'] - 1), sha256=sha, props=props))
        for kind, lab in obl:
            if kind == 'requires':
                continue
            k = 'post' if kind == 'ensures' else kind
            self.obligations.append(dict(id='%s::%s::%s#%s' % (self.name, path, k, lab), fn=path, kind=k, label=lab, props=props))
        self.obligations.append(dict(id='%s::%s::body' % (self.name, path), fn=path, kind='body', label=None, props=props))

    def _name_return(self, sig, ret, path):
        mask = code_mask(sig)
        # last `->` at paren depth 0
        depth = 0
        pos = -1
        for k, ch in enumerate(sig):
            if mask[k] != CODE:
                continue
            if ch in '([':
                depth += 1
            elif ch in ')]':
                depth -= 1
            elif ch == '-' and sig[k + 1:k + 2] == '>' and depth == 0:
                pos = k
        if pos < 0:
            raise ScanError('%s: no return type to name' % path)
        mm = re.search(r'\bwhere\b', sig[pos:])
        endp = pos + mm.start() if mm else len(sig)
        ty = sig[pos + 2:endp].strip()
        return sig[:pos] + '-> (%s: %s)' % (ret, ty) + (' ' + sig[endp:] if mm else '')

    def _splice_body(self, path, body, spec, log):
        """returns list of (line, tag) for the body with ghost text inserted."""
        if spec.get('names'):
            binds = {}
            for var, rx in spec['names']:
                mm = re.search(rx, body)
                if mm:
                    binds[var] = mm.group(1)
                else:
                    self.lost_anchors.append('%s: name %s: pattern %r not found' % (path, var, rx))

            def sub(t):
                for k, v in binds.items():
                    t = t.replace('@{%s}' % k, v)
                return t
            for h in spec['hints']:
                if h.get('anchor'):
                    h['anchor'] = sub(h['anchor'])
                h['lines'] = [sub(l) for l in h['lines']]
            for ent in spec['loops'].values():
                ent['lines'] = [sub(l) for l in ent['lines']]
            spec['closures'] = {k: sub(v) for k, v in spec['closures'].items()}
        # hoist: `for PAT in EXPR {` -> `let NAME = EXPR; for PAT in NAME {` (names the iterator so that ghost
        # text before the loop can mention it; evaluation order unchanged)
        for n_, ent in sorted(spec['loops'].items()):
            if not ent.get('hoist'):
                continue
            sn0 = Snippet(body)
            loops0 = sn0.loops(0, len(body))
            if n_ < 1 or n_ > len(loops0) or loops0[n_ - 1][1] != 'for':
                continue
            p0, kind0, ob0 = loops0[n_ - 1]
            mm0 = re.match(r'for\s+(.*?)\s+in\s+', body[p0:ob0], re.S)
            if not mm0:
                continue
            expr = body[p0 + mm0.end():ob0].strip()
            ls = sn0.line_start(p0)
            indent = body[ls:p0]
            newhead = 'let %s = %s;\n%sfor %s in %s ' % (ent['hoist'], expr, indent, mm0.group(1), ent['hoist'])
            log.append(dict(rule='R8', before=norm_ws(body[p0:ob0]), after=norm_ws(newhead)))
            body = body[:p0] + newhead + body[ob0:]
        # R7 desugar: `for PAT in EXPR { B }` -> `let mut IT = EXPR; loop { let nx = IT.next(); let PAT = match nx { Some(x) => x, None => break }; B }`
        # (the language definition of `for`), for iterators of external types Verus has no model for
        for n_, ent in sorted(spec['loops'].items()):
            if not ent.get('desugar'):
                continue
            sn0 = Snippet(body)
            loops0 = sn0.loops(0, len(body))
            if n_ < 1 or n_ > len(loops0) or loops0[n_ - 1][1] != 'for':
                continue
            p0, kind0, ob0 = loops0[n_ - 1]
            mm0 = re.match(r'for\s+(.*?)\s+in\s+', body[p0:ob0], re.S)
            if not mm0:
                continue
            expr = body[p0 + mm0.end():ob0].strip()
            ls = sn0.line_start(p0)
            indent = body[ls:p0]
            it = ent['desugar']
            newhead = 'let mut %s = %s;\n%sloop ' % (it, expr, indent)
            first = ' let nx__ = %s.next(); let %s = match nx__ { Some(x__) => x__, None => break, };' % (it, mm0.group(1))
            log.append(dict(rule='R7', before=norm_ws(body[p0:ob0 + 1]), after=norm_ws(newhead + '{' + first)))
            body = body[:p0] + newhead + '{' + first + body[ob0 + 1:]
        # R12: `for PAT in &mut V { B }` over a Vec -> `let mut I = 0; while I < V.len() { let PAT = &mut V[I]; I += 1; B }`
        # (Verus has no `continue` in for-loops and no model of slice::IterMut; the index form visits the same
        # elements in the same order, and the increment precedes B so that `continue` keeps its meaning)
        # R13: `for (&K, PAT) in &mut M { B }` over a HashMap -> a snapshot of the keys (assumed: every key once) walked by
        # index, `let K = KS[I]; let PAT = M.get_mut(&K).unwrap();` -- the body cannot add or remove keys while the
        # iterator borrows the map, so every entry is still visited exactly once; visiting order is unspecified in both
        for n_, ent in sorted(spec['loops'].items()):
            if not (ent.get('index') or ent.get('keys')):
                continue
            sn0 = Snippet(body)
            loops0 = sn0.loops(0, len(body))
            if n_ < 1 or n_ > len(loops0) or loops0[n_ - 1][1] != 'for':
                continue
            p0, kind0, ob0 = loops0[n_ - 1]
            mm0 = re.match(r'for\s+(.*?)\s+in\s+&mut\s+', body[p0:ob0], re.S)
            if not mm0 and ent.get('index'):
                # R12, second spelling: `for PAT in V.iter_mut() { B }`
                mm2 = re.match(r'for\s+(\w+)\s+in\s+(.+?)\.iter_mut\(\)\s*$', body[p0:ob0], re.S)
                if mm2:
                    expr = mm2.group(2).strip()
                    iv = ent['index']
                    ls = sn0.line_start(p0)
                    indent = body[ls:p0]
                    newhead = 'let mut %s: usize = 0;\n%swhile %s < %s.len() ' % (iv, indent, iv, expr)
                    first = ' let %s = &mut %s[%s]; %s += 1;' % (mm2.group(1), expr, iv, iv)
                    log.append(dict(rule='R12', before=norm_ws(body[p0:ob0 + 1]), after=norm_ws(newhead + '{' + first)))
                    body = body[:p0] + newhead + '{' + first + body[ob0 + 1:]
                    continue
            if not mm0:
                # R13 (shared form): `for (K, V) in M { B }` over a borrowed HashMap (K, V bound by reference) -> the same key
                # snapshot, `let K = &KS[I]; let V = map_get_present(M, K);`
                mm1 = re.match(r'for\s+\(\s*(\w+)\s*,\s*(\w+)\s*\)\s+in\s+', body[p0:ob0], re.S)
                if mm1 and ent.get('keys'):
                    expr = body[p0 + mm1.end():ob0].strip()
                    ks = ent['keys']
                    iv = ks + '_i'
                    ls = sn0.line_start(p0)
                    indent = body[ls:p0]
                    newhead = 'let %s = map_keys_snapshot(%s);\n%slet mut %s: usize = 0;\n%swhile %s < %s.len() ' % (ks, expr, indent, iv, indent, iv, ks)
                    first = ' let %s = &%s[%s]; %s += 1; let %s = map_get_present(%s, %s);' % (mm1.group(1), ks, iv, iv, mm1.group(2), expr, mm1.group(1))
                    log.append(dict(rule='R13', before=norm_ws(body[p0:ob0 + 1]), after=norm_ws(newhead + '{' + first)))
                    body = body[:p0] + newhead + '{' + first + body[ob0 + 1:]
                continue
            expr = body[p0 + mm0.end():ob0].strip()
            pat = mm0.group(1)
            ls = sn0.line_start(p0)
            indent = body[ls:p0]
            if ent.get('index'):
                iv = ent['index']
                newhead = 'let mut %s: usize = 0;\n%swhile %s < %s.len() ' % (iv, indent, iv, expr)
                first = ' let %s = &mut %s[%s]; %s += 1;' % (pat, expr, iv, iv)
                rule = 'R12'
            else:
                ks = ent['keys']
                iv = ks + '_i'
                mk = re.match(r'\(\s*&(\w+)\s*,\s*(\w+)\s*\)$', pat)
                if not mk:
                    continue
                kname, vname = mk.group(1), mk.group(2)
                newhead = 'let %s = map_keys_snapshot(&%s);\n%slet mut %s: usize = 0;\n%swhile %s < %s.len() ' % (ks, expr, indent, iv, indent, iv, ks)
                first = ' let %s = %s[%s]; %s += 1; let %s = map_get_mut_present(&mut %s, &%s);' % (kname, ks, iv, iv, vname, expr, kname)
                rule = 'R13'
            log.append(dict(rule=rule, before=norm_ws(body[p0:ob0 + 1]), after=norm_ws(newhead + '{' + first)))
            body = body[:p0] + newhead + '{' + first + body[ob0 + 1:]
        for anchor, prefix, mut in spec['chains']:
            body, err = R.r8_let_chain(body, anchor, prefix, log, mut)
            if err:
                self.lost_anchors.append('%s: %s' % (path, err))
        if spec.get('tail'):
            # R16: name the tail expression so that ghost text can follow its evaluation (value and order unchanged)
            sn0 = Snippet(body)
            t0, m0 = sn0.text, sn0.mask
            close = len(t0.rstrip()) - 1
            k, last = 1, 1
            while k < close:
                if m0[k] == CODE:
                    if t0[k] in '([{':
                        k = match_close(t0, m0, k)
                    elif t0[k] == ';':
                        last = k + 1
                k += 1
            # block statements (for / while / loop / if-else / match / bare blocks) after the last `;` are statements, not the tail,
            # unless nothing follows them
            def _skip_ws(k_):
                while k_ < close and (m0[k_] != CODE or t0[k_] in ' \t\r\n'):
                    k_ += 1
                return k_
            while True:
                k_ = _skip_ws(last)
                mkw = re.match(r'(for|while|loop|if|match|unsafe)\b|\{', t0[k_:close])
                if not mkw:
                    break
                ob_ = k_
                while ob_ < close and not (m0[ob_] == CODE and t0[ob_] == '{'):
                    if m0[ob_] == CODE and t0[ob_] in '([':
                        ob_ = match_close(t0, m0, ob_)
                    ob_ += 1
                if ob_ >= close:
                    break
                e_ = match_close(t0, m0, ob_) + 1
                while True:
                    n_ = _skip_ws(e_)
                    if t0.startswith('else', n_) and mkw.group(0) == 'if':
                        ob2 = n_
                        while ob2 < close and not (m0[ob2] == CODE and t0[ob2] == '{'):
                            ob2 += 1
                        e_ = match_close(t0, m0, ob2) + 1
                    else:
                        break
                if _skip_ws(e_) >= close:
                    break       # the block is itself the tail expression
                last = e_
            tail = t0[last:close]
            if not tail.strip():
                self.lost_anchors.append('%s: no tail expression to name' % path)
            else:
                lead = tail[:len(tail) - len(tail.lstrip())]
                nm = spec['tail']['name']
                new = '%slet %s = %s;\n%s\n        %s\n' % (lead, nm, tail.strip(), '\n'.join(spec['tail']['lines']), nm)
                log.append(dict(rule='R16', before=norm_ws(tail), after=norm_ws('let %s = %s; <ghost> %s' % (nm, tail.strip(), nm))))
                body = t0[:last] + new + t0[close:]
        sn = Snippet(body)
        edits = []   # (pos, end, replacement_text, taglines) ; insertion when pos==end
        # loops
        loops = sn.loops(0, len(body))
        for n_, ent in spec['loops'].items():
            if n_ < 1 or n_ > len(loops):
                self.lost_anchors.append('%s: loop %d not found (function has %d loops)' % (path, n_, len(loops)))
                continue
            p, kind, ob = loops[n_ - 1]
            if ent['iter']:
                if kind != 'for':
                    raise ScanError('%s: loop %d is not a for loop' % (path, n_))
                mm = re.match(r'for\s+(.*?)\s+in\s+', body[p:ob], re.S)
                if not mm:
                    raise ScanError('%s: cannot parse for header' % path)
                ins = p + mm.end()
                edits.append((ins, ins, '%s: ' % ent['iter'], None))
            inv_lines = []
            for ln in ent['lines']:
                txt, lab = _split_label(ln)
                inv_lines.append((txt, lab))
            # propagate labels backwards: a clause's label sits on its last line
            labs = [None] * len(inv_lines)
            cur = None
            for k in range(len(inv_lines) - 1, -1, -1):
                if inv_lines[k][1]:
                    cur = inv_lines[k][1]
                labs[k] = cur or 'inv'
            tagged = [(t, dict(kind='inv', loop=n_, label=l)) for (t, _), l in zip(inv_lines, labs)]
            edits.append((ob, ob, '\n', None))
            edits.append((ob, ob, tagged, 'lines'))
        # closures
        cls = sn.closures(0, len(body))
        annotated = []
        for n_, ann in spec['closures'].items():
            if isinstance(n_, str):
                callee, _, k_ = n_.partition('#')
                cands = [c for c in cls if c.get('callee') == callee]
                k_ = int(k_ or 1)
                if k_ < 1 or k_ > len(cands):
                    # the callee changed (another method of the same family): if the function still has the same number of
                    # closures, the annotation goes to the closure in the same position as at authoring time
                    bo = self.base_closure_ord.get(path) or {}
                    if bo.get('n') == len(cls) and n_ in (bo.get('ord') or {}):
                        c = cls[bo['ord'][n_] - 1]
                        log.append(dict(rule='closure-by-position', before=n_, after='closure %d of %d (callee now %s)' % (bo['ord'][n_], len(cls), c.get('callee')),
                                        reason='the call the annotated closure was passed to is spelled differently; same closure position'))
                    else:
                        self.lost_anchors.append('%s: closure %s not found (%d closures passed to %s)' % (path, n_, len(cands), callee))
                        continue
                else:
                    c = cands[k_ - 1]
                self.closure_ord.setdefault(path, dict(n=len(cls), ord={}))['ord'][n_] = cls.index(c) + 1
            else:
                if n_ < 1 or n_ > len(cls):
                    self.lost_anchors.append('%s: closure %d not found (%d closures)' % (path, n_, len(cls)))
                    continue
                c = cls[n_ - 1]
            cbody = body[c['body_start']:c['body_end']]
            inner = cbody[1:-1].strip() if c['is_block'] else cbody.strip()
            mm = re.match(r'\((.*?)\)\s*->\s*(\([^)]*\))\s*(?:ensures\s+(.*))?$', ann, re.S)
            if not mm:
                raise TemplateError('%s: bad closure annotation %r' % (path, ann))
            params, retb, ens = mm.group(1), mm.group(2), mm.group(3)
            new = '%s|%s| -> %s' % ('move ' if c['move'] else '', params, retb)
            # R2 inside an annotated closure: a by-reference pattern parameter `&x` is taken as `x__r` and copied out first
            pre = ''
            inner_spec = inner
            for mref in re.finditer(r'&\s*([a-z_][a-z0-9_]*)\b', c.get('params') or ''):
                if re.search(r'\b%s__r\b' % re.escape(mref.group(1)), params):
                    pre += 'let %s = *%s__r; ' % (mref.group(1), mref.group(1))
                    inner_spec = re.sub(r'(?<![A-Za-z0-9_.])%s(?![A-Za-z0-9_])' % re.escape(mref.group(1)), '(*%s__r)' % mref.group(1), inner_spec)
            if ens:
                new += ' ensures ' + ens.replace('@BODY', inner_spec)
            new += ' { ' + pre + inner + ' }'
            log.append(dict(rule='closure-annotation', before=norm_ws(body[c['start']:c['body_end']]), after=norm_ws(new)))
            edits.append((c['start'], c['body_end'], new, None))
            annotated.append((c['start'], c['body_end']))
        # R2 for closures without an annotation: a wildcard parameter `_` gets a fresh name (Verus accepts only variables there)
        for c in cls:
            if any(a <= c['start'] < b for a, b in annotated) or not c.get('params'):
                continue
            cnt = [0]
            def fresh(mm):
                cnt[0] += 1
                return '_u%d' % cnt[0]
            newp = re.sub(r'(?<![A-Za-z0-9_])_(?![A-Za-z0-9_])', fresh, c['params'])
            if newp != c['params']:
                log.append(dict(rule='R2', before='|%s|' % norm_ws(c['params']), after='|%s|' % norm_ws(newp)))
                edits.append((c['bar'] + 1, c['params_close'], newp, None))
        # hints
        for h in spec['hints']:
            if h['where'] == 'start':
                # ghost text placed right after the opening brace of the body (cannot be lost)
                edits.append((1, 1, '\n' + '\n'.join(h['lines']), None))
                continue
            if h['where'] == 'atend':
                at = self._tail_start(body, sn)
                ls_ = body.rfind('\n', 0, at) + 1
                # whole-line insertion before the line the tail expression starts on (or before the closing brace)
                if body[ls_:at].strip() == '':
                    edits.append((ls_, ls_, '\n'.join(h['lines']) + '\n', None))
                else:
                    edits.append((at, at, '\n' + '\n'.join(h['lines']) + '\n', None))
                continue
            if h['where'] in ('loopstart', 'loopend', 'beforeloop'):
                if h['nth'] < 1 or h['nth'] > len(loops):
                    self.lost_anchors.append('%s: %s %d: function has %d loops' % (path, h['where'], h['nth'], len(loops)))
                    continue
                ob_ = loops[h['nth'] - 1][2]
                if h['where'] == 'beforeloop':
                    ls_ = sn.line_start(loops[h['nth'] - 1][0])
                    edits.append((ls_, ls_, '\n'.join(h['lines']) + '\n', None))
                    continue
                if h['where'] == 'loopstart':
                    nl_ = body.find('\n', ob_)
                    edits.append((nl_ + 1, nl_ + 1, '\n'.join(h['lines']) + '\n', None))
                else:
                    cb_ = match_close(body, sn.mask, ob_)
                    ls_ = body.rfind('\n', 0, cb_) + 1
                    edits.append((ls_, ls_, '\n'.join(h['lines']) + '\n', None))
                continue
            if h['where'] == 'afterloop':
                if h['nth'] < 1 or h['nth'] > len(loops):
                    self.lost_anchors.append('%s: afterloop %d: function has %d loops' % (path, h['nth'], len(loops)))
                    continue
                cb = match_close(body, sn.mask, loops[h['nth'] - 1][2])
                edits.append((cb + 1, cb + 1, '\n' + '\n'.join(h['lines']), None))
                continue
            occ = [mm.start() for mm in re.finditer(re.escape(h['anchor']), body) if sn.mask[mm.start()] == CODE]
            if not occ and not h['nth']:
                # the anchored statement was edited slightly: take the one line that is still nearly the same text -- by overall
                # similarity, or because (nearly) all of the anchor's text still occurs in it in order -- among the lines that lie
                # between the neighbouring hints' anchors (hints are written in code order)
                import difflib
                lo_, hi_ = 0, len(body)
                k_h = spec['hints'].index(h)
                for h2 in spec['hints'][:k_h]:
                    if h2.get('anchor') and not h2.get('nth'):
                        o2 = [mm.start() for mm in re.finditer(re.escape(h2['anchor']), body) if sn.mask[mm.start()] == CODE]
                        if len(o2) == 1:
                            lo_ = max(lo_, o2[0])
                for h2 in spec['hints'][k_h + 1:]:
                    if h2.get('anchor') and not h2.get('nth'):
                        o2 = [mm.start() for mm in re.finditer(re.escape(h2['anchor']), body) if sn.mask[mm.start()] == CODE]
                        if len(o2) == 1:
                            hi_ = min(hi_, o2[0])
                            break
                if lo_ >= hi_:
                    lo_, hi_ = 0, len(body)
                a_ = h['anchor']

                def _cands(lo2, hi2):
                    out_, pos_ = [], 0
                    for ln_ in body.split('\n'):
                        st_ = ln_.strip()
                        p0_ = pos_ + (len(ln_) - len(ln_.lstrip()))
                        if st_ and lo2 <= p0_ < hi2 and sn.mask[p0_] == CODE:
                            smm = difflib.SequenceMatcher(None, a_, st_, autojunk=False)
                            cover = sum(bl.size for bl in smm.get_matching_blocks() if bl.size >= 3) / max(1, len(a_))
                            r_ = max(smm.ratio(), difflib.SequenceMatcher(None, a_, st_[:len(a_) + 4], autojunk=False).ratio(), cover if len(a_) >= 12 else 0)
                            out_.append((r_, p0_))
                        pos_ += len(ln_) + 1
                    out_.sort(reverse=True)
                    return out_
                cands = _cands(lo_, hi_)
                if not (cands and cands[0][0] >= 0.8):
                    cands = _cands(0, len(body))      # the hints of this function are not in code order
                if cands and cands[0][0] >= 0.8 and (len(cands) == 1 or cands[1][0] <= cands[0][0] - 0.08):
                    occ = [cands[0][1]]
                    log.append(dict(rule='fuzzy-anchor', before=h['anchor'], after=norm_ws(body[occ[0]:body.find('\n', occ[0])])[:160],
                                    reason='the anchored statement differs slightly from the text the hint was written against; similarity %.2f' % cands[0][0]))
            if h['nth']:
                if len(occ) < h['nth']:
                    self.lost_anchors.append('%s: anchor %r occurrence %d not found' % (path, h['anchor'], h['nth']))
                    continue
                pos = occ[h['nth'] - 1]
            else:
                if len(occ) != 1:
                    self.lost_anchors.append('%s: anchor %r occurs %d times' % (path, h['anchor'], len(occ)))
                    continue
                pos = occ[0]
            txt = '\n'.join(h['lines'])
            if h['where'] == 'before':
                at = sn.line_start(pos)
                edits.append((at, at, txt + '\n', None))
            else:
                at = sn.stmt_end_after(pos)
                edits.append((at, at, '\n' + txt, None))
        # apply edits back to front; build line/tag list
        edits.sort(key=lambda e: (e[0], 0 if e[0] == e[1] else 1))
        # check overlap
        for a, b in zip(edits, edits[1:]):
            if a[1] > b[0]:
                raise ScanError('%s: overlapping splice edits' % path)
        pieces = []   # (text, tag) sequences
        last = 0
        for pos, end, rep, mode in edits:
            pieces.append((body[last:pos], None))
            if mode == 'lines':
                for t, tag in rep:
                    pieces.append(('\n' + t, tag))
                pieces.append(('\n', None))
            else:
                pieces.append((rep, None))
            last = end
        pieces.append((body[last:], None))
        # flatten into lines with tags: tag of a line = tag of the piece that starts it (non-None wins)
        lines = ['']
        tags = [None]
        for txt, tag in pieces:
            parts = txt.split('\n')
            for k, part in enumerate(parts):
                if k > 0:
                    lines.append('')
                    tags.append(None)
                lines[-1] += part
                if tag and part.strip():
                    tags[-1] = tag
        return list(zip(lines, tags))

    def _tail_start(self, body, sn):
        """index in body where the tail expression of the outermost block starts (or the closing brace if there is none)"""
        t0, m0 = sn.text, sn.mask
        close = len(t0.rstrip()) - 1
        k, last = 1, 1
        while k < close:
            if m0[k] == CODE:
                if t0[k] in '([{':
                    k = match_close(t0, m0, k)
                elif t0[k] == ';':
                    last = k + 1
            k += 1

        def _skip_ws(k_):
            while k_ < close and (m0[k_] != CODE or t0[k_] in ' \t\r\n'):
                k_ += 1
            return k_
        while True:
            k_ = _skip_ws(last)
            mkw = re.match(r'(for|while|loop|if|match|unsafe)\b|\{', t0[k_:close])
            if not mkw:
                break
            ob_ = k_
            while ob_ < close and not (m0[ob_] == CODE and t0[ob_] == '{'):
                if m0[ob_] == CODE and t0[ob_] in '([':
                    ob_ = match_close(t0, m0, ob_)
                ob_ += 1
            if ob_ >= close:
                break
            e_ = match_close(t0, m0, ob_) + 1
            while True:
                n_ = _skip_ws(e_)
                if t0.startswith('else', n_) and mkw.group(0) == 'if':
                    ob2 = n_
                    while ob2 < close and not (m0[ob2] == CODE and t0[ob2] == '{'):
                        ob2 += 1
                    e_ = match_close(t0, m0, ob2) + 1
                else:
                    break
            if _skip_ws(e_) >= close:
                break
            last = e_
        return _skip_ws(last)

    def _log(self, entries, where):
        for e in entries:
            e = dict(e)
            e['where'] = where
            self.log.append(e)


def canary_text(unit, text):
    """same generated file with assert(false) as first statement of every
    function under contract (vacuity guard)."""
    lines = text.split('\n')
    for idx, fq in unit.canary_points:
        ln = lines[idx]
        k = ln.find('{')
        if k < 0:
            raise TemplateError('canary: no brace on first body line of %s' % fq)
        lines[idx] = ln[:k + 1] + ' assert(false); ' + ln[k + 1:]
    return '\n'.join(lines)
