"""python3 -m vx.cleancheck: are the files in evidence/ records of runs on which the property held?

A proof-level record of a quiet run has discharged == obligations and violations == 0.  A record left behind by a
run against a changed /repo (a seeded change, a mutant applied in place) is an honest record of THAT tree and must
not be committed as the evidence of the unchanged one.  Exit 1 names such files."""
import glob
import json
import os
import sys

ROOT = os.path.dirname(os.path.dirname(os.path.abspath(__file__)))


def main():
    ok = True
    for f in sorted(glob.glob(os.path.join(ROOT, 'evidence', '*.json'))):
        d = json.load(open(f))
        c = d['coverage']
        if d['level'] == 'proof' and (c.get('obligations') != c.get('discharged') or d.get('violations')):
            print('NOT A CLEAN-TREE RECORD: %s obligations=%s discharged=%s violations=%s'
                  % (f, c.get('obligations'), c.get('discharged'), d.get('violations')))
            ok = False
    return 0 if ok else 1


if __name__ == '__main__':
    sys.exit(main())
