"""Kani back end: generate the harness crate of a unit from /repo's working tree,
run the selected harnesses in parallel, map results to obligations, and on a
failure obtain concrete values (concrete playback) and replay them natively
against the real code.

units/<unit>/kani/
   Cargo.toml, src/*.rs     crate template; `@REPO@` -> repository root;
                            `//@extract <alias> <Type::fn>` lines are replaced by the function text
                            re-extracted from /repo (rules listed in harnesses.json)
   harnesses.json           harness -> obligation map, tiers, bounds, trusted base
"""
import json
import os
import re
import shutil
import subprocess
import time
import hashlib

from .rustscan import Source, Snippet, ScanError, norm_ws


class KaniUndecided(Exception):
    pass


def gen_crate(udir, bdir, repo, meta, log, functions):
    os.makedirs(os.path.join(bdir, 'src'), exist_ok=True)
    os.makedirs(os.path.join(bdir, '.cargo'), exist_ok=True)
    shutil.copy(os.path.join(udir, 'Cargo.toml'), os.path.join(bdir, 'Cargo.toml'))
    lock = os.path.join(repo, 'Cargo.lock')
    if not os.path.exists(lock):
        lock = '/repo/Cargo.lock'
    shutil.copy(lock, os.path.join(bdir, 'Cargo.lock'))
    open(os.path.join(bdir, '.cargo', 'config.toml'), 'w').write('[net]\noffline = true\n')
    srcs = {}
    for fn in os.listdir(os.path.join(udir, 'src')):
        text = open(os.path.join(udir, 'src', fn)).read()
        text = text.replace('@REPO@', repo)
        out = []
        for ln in text.split('\n'):
            mi = re.match(r'\s*//@include_file\s+(\S+)', ln)
            if mi:
                # the repository file, verbatim
                rel = mi.group(1)
                raw = open(os.path.join(repo, rel)).read()
                out.append(raw)
                log.append(dict(rule='copy', before=rel, after='copied verbatim (sha256 %s)' % hashlib.sha256(raw.encode()).hexdigest()[:16], where=fn))
                continue
            mr = re.match(r'\s*//@require_text\s+(\S+)\s+(\S+)\s+(.*)$', ln)
            if mr:
                # the harness re-types an expression of this function: insist that the function still contains it
                rel, path, needle = mr.group(1), mr.group(2), mr.group(3).strip()
                if rel not in srcs:
                    srcs[rel] = Source(os.path.join(repo, rel))
                loc = srcs[rel].find_fn(path)
                body = srcs[rel].text[loc['start']:loc['end']]
                if norm_ws(needle) not in norm_ws(body):
                    raise KaniUndecided('%s no longer contains the expression the harness checks: %s' % (path, needle))
                out.append('// (checked) %s contains: %s' % (path, needle))
                functions.append(dict(path=path, file=rel, line_start=srcs[rel].line_of(loc['fn_kw']), line_end=srcs[rel].line_of(loc['end'] - 1),
                                      sha256=hashlib.sha256(body.encode()).hexdigest(), mode='expression `%s` re-typed in the harness (presence checked)' % needle))
                continue
            ma = re.match(r'\s*//@append\s+(\S+)', ln)
            if ma:
                out.append(open(os.path.join(udir, ma.group(1))).read().replace('@VERIF@', os.path.dirname(os.path.dirname(os.path.dirname(udir)))))
                log.append(dict(rule='append', before='', after='harness module %s appended as a child module' % ma.group(1), where=fn))
                continue
            mm = re.match(r'\s*//@extract\s+(\S+)\s+(\S+)(.*)$', ln)
            if not mm:
                out.append(ln)
                continue
            rel, path, opts = mm.group(1), mm.group(2), mm.group(3)
            if rel not in srcs:
                srcs[rel] = Source(os.path.join(repo, rel))
            s = srcs[rel]
            loc = s.find_fn(path)
            raw = s.text[loc['start']:loc['end']]
            body, dropped = Snippet(raw).strip_attrs_and_docs()
            for a in dropped:
                log.append(dict(rule='D1', before=a, after='', where='fn ' + path))
            if 'pub' in opts and not re.match(r'\s*pub\b', body):
                body = 'pub ' + body.lstrip()
                log.append(dict(rule='D5', before='fn', after='pub fn', where='fn ' + path))
            out.append(body)
            functions.append(dict(path=path, file=rel, line_start=s.line_of(loc['fn_kw']), line_end=s.line_of(loc['end'] - 1),
                                  sha256=hashlib.sha256(raw.encode()).hexdigest(), mode='extracted'))
        open(os.path.join(bdir, 'src', fn), 'w').write('\n'.join(out))
    # functions included whole-file via #[path]
    for f in meta.get('functions', []):
        rel = f['file']
        if rel not in srcs:
            srcs[rel] = Source(os.path.join(repo, rel))
        s = srcs[rel]
        try:
            loc = s.find_fn(f['path'])
        except ScanError as e:
            raise KaniUndecided('function under contract not found: %s' % e)
        raw = s.text[loc['start']:loc['end']]
        functions.append(dict(path=f['path'], file=rel, line_start=s.line_of(loc['fn_kw']), line_end=s.line_of(loc['end'] - 1),
                              sha256=hashlib.sha256(raw.encode()).hexdigest(), mode='file included unmodified by #[path]'))


def parse_output(text):
    """-> {harness: dict(status, failed_checks[], time, covers_sat, covers_total, checks)}"""
    res = {}
    cur_thread = None
    thread_h = {}
    cur = None
    lines = text.split('\n')
    single = None
    for i, ln in enumerate(lines):
        mm = re.match(r'(?:Thread (\d+): )?Checking harness ([\w:]+)\.\.\.', ln)
        if mm:
            h = mm.group(2).split('::')[-1]
            if mm.group(1) is not None:
                thread_h[mm.group(1)] = h
            else:
                single = h
                cur = res.setdefault(h, dict(status=None, failed_checks=[], time=None, covers_sat=None, covers_total=None, checks=None))
            continue
        mm = re.match(r'Thread (\d+):\s*$', ln)
        if mm:
            h = thread_h.get(mm.group(1))
            cur = res.setdefault(h, dict(status=None, failed_checks=[], time=None, covers_sat=None, covers_total=None, checks=None)) if h else None
            continue
        if cur is None:
            continue
        mm = re.match(r'\s*\*\* (\d+) of (\d+) failed', ln)
        if mm:
            cur['checks'] = int(mm.group(2))
            cur['nfailed'] = int(mm.group(1))
            continue
        mm = re.match(r'\s*\*\* (\d+) of (\d+) cover properties satisfied', ln)
        if mm:
            cur['covers_sat'], cur['covers_total'] = int(mm.group(1)), int(mm.group(2))
            continue
        mm = re.match(r'Failed Checks: (.*)$', ln)
        if mm:
            loc = lines[i + 1].strip() if i + 1 < len(lines) else ''
            cur['failed_checks'].append(dict(check=mm.group(1), where=loc))
            continue
        mm = re.match(r'VERIFICATION:- (\w+)', ln)
        if mm:
            cur['status'] = mm.group(1)
            continue
        mm = re.match(r'Verification Time: ([\d.]+)s', ln)
        if mm:
            cur['time'] = float(mm.group(1))
            continue
    return res


def cargo_env(build):
    env = dict(os.environ)
    env['CARGO_NET_OFFLINE'] = 'true'
    env['CARGO_TARGET_DIR'] = os.path.join(build, 'kani-target')
    return env


def run_harnesses(bdir, build, names, jobs, timeout, extra=None):
    cmd = ['cargo', 'kani', '--output-format', 'terse', '-j', str(jobs)]
    for n in names:
        cmd += ['--harness', n]
    if extra:
        cmd += extra
    t0 = time.time()
    outp = os.path.join(bdir, 'kani_out.txt')
    with open(outp, 'w') as fo:
        try:
            p = subprocess.run(cmd, cwd=bdir, env=cargo_env(build), stdout=fo, stderr=subprocess.STDOUT, timeout=timeout)
            rc = p.returncode
            to = False
        except subprocess.TimeoutExpired:
            rc, to = None, True
    text = open(outp, errors='replace').read()
    text = '\n'.join(l for l in text.split('\n') if not l.startswith('Unwinding') and not l.startswith('Not unwinding'))
    open(outp, 'w').write(text)
    return dict(cmd=' '.join(cmd), rc=rc, timeout=to, wall=time.time() - t0, text=text)


def concrete_playback(bdir, build, harness, timeout=1800):
    """re-run one failing harness with concrete playback; return (values_text, test_code) or None"""
    cmd = ['cargo', 'kani', '--harness', harness, '-Z', 'concrete-playback', '--concrete-playback=print', '--output-format', 'terse']
    try:
        p = subprocess.run(cmd, cwd=bdir, env=cargo_env(build), capture_output=True, text=True, timeout=timeout)
    except subprocess.TimeoutExpired:
        return None
    out = p.stdout + p.stderr
    mm = re.search(r'```\s*\n(.*?#\[test\].*?)```', out, re.S)
    if not mm:
        mm = re.search(r'(#\[test\]\s*fn kani_concrete_playback_\w+\(\)\s*\{.*?\n\})', out, re.S)
    if not mm:
        return None
    code = mm.group(1)
    vals = re.findall(r'//\s*(.+)\n\s*vec!\[([^\]]*)\]', code)
    return dict(test=code, values=[dict(value=v.strip(), bytes=b.strip()) for v, b in vals])


def native_replay(bdir, build, harness, playback):
    """append the generated unit test to the crate and run it natively with `cargo kani playback`:
    the harness body executes on the real code with the concrete values; a failing assert confirms."""
    marker = '// @PLAYBACK@'
    lib = None
    for fn in sorted(os.listdir(os.path.join(bdir, 'src'))):
        if marker in open(os.path.join(bdir, 'src', fn)).read():
            lib = os.path.join(bdir, 'src', fn)
    if lib is None:
        return dict(ran=False, reason='no playback marker in the harness crate')
    src = open(lib).read()
    tname = re.search(r'fn (kani_concrete_playback_\w+)', playback['test']).group(1)
    # the test must live inside the harness module to see the harness fn
    new = src.replace(marker, playback['test'] + '\n' + marker)
    open(lib, 'w').write(new)
    try:
        cmd = ['cargo', 'kani', 'playback', '-Z', 'concrete-playback', '--', tname]
        p = subprocess.run(cmd, cwd=bdir, env=cargo_env(build), capture_output=True, text=True, timeout=1800)
        out = (p.stdout + p.stderr)[-3000:]
        confirmed = ('panicked' in out or 'FAILED' in out) and p.returncode != 0
        return dict(ran=True, cmd=' '.join(cmd), confirmed=confirmed, rc=p.returncode, output_tail=out)
    finally:
        open(lib, 'w').write(src)


def run_unit(us, pid, tier, repo, build, root):
    unit = us['unit']
    udir = os.path.join(root, 'units', unit, 'kani')
    meta = json.load(open(os.path.join(udir, 'harnesses.json')))
    tag = unit if repo == '/repo' else unit + '_' + hashlib.sha1(repo.encode()).hexdigest()[:8]
    bdir = os.path.join(build, 'kani', tag)
    if os.path.exists(os.path.join(bdir, 'src')):
        shutil.rmtree(os.path.join(bdir, 'src'))
    log, functions = [], []
    try:
        gen_crate(udir, bdir, repo, meta, log, functions)
    except ScanError as e:
        raise KaniUndecided('%s: extraction failed: %s' % (unit, e))
    hs = [h for h in meta['harnesses'] if pid in h.get('props', [pid]) and h.get('tier', 'quick') != 'disabled' and (tier == 'thorough' or h.get('tier', 'quick') == 'quick')]
    if not hs:
        return dict(per_obligation=[], failed=[], trusted=[], functions=[], extraction_log=[], cmds=[], bounded=[], covers={}, solver_ms=0)
    names = [h['name'] for h in hs]
    jobs = int(os.environ.get('VERIF_JOBS', '14'))
    r = run_harnesses(bdir, build, names, jobs, meta.get('timeout_s', 3000), extra=meta.get('kani_flags'))
    res = parse_output(r['text'])
    if r['timeout']:
        raise KaniUndecided('%s: kani run exceeded %ss' % (unit, meta.get('timeout_s', 3000)))
    if 'error: could not compile' in r['text'] or (r['rc'] not in (0, 1)) or not res:
        errs = [l for l in r['text'].split('\n') if l.startswith('error')][:5]
        raise KaniUndecided('%s: harness crate did not build/run (rc=%s): %s' % (unit, r['rc'], errs))
    per, failed, covers = [], [], {}
    solver_ms = 0
    for h in hs:
        hr = res.get(h['name'])
        oid = '%s::%s' % (unit, h['obligation'])
        if hr is None or hr['status'] is None:
            raise KaniUndecided('%s: no verdict for harness %s' % (unit, h['name']))
        solver_ms += int((hr['time'] or 0) * 1000)
        covers[h['name']] = dict(sat=hr['covers_sat'], total=hr['covers_total'])
        if hr['covers_total'] and hr['covers_sat'] != hr['covers_total'] and hr['status'] == 'SUCCESSFUL':
            raise KaniUndecided('%s: vacuity guard: harness %s has unsatisfied cover properties (%s of %s)' % (unit, h['name'], hr['covers_sat'], hr['covers_total']))
        tool_fail = [c for c in hr['failed_checks'] if 'unwinding assertion' in c['check'] or 'unsupported' in c['check'].lower()
                     or 'not supported' in c['check'].lower()]
        sem_fail = [c for c in hr['failed_checks'] if c not in tool_fail]
        if hr['status'] == 'FAILED' and tool_fail and not sem_fail:
            raise KaniUndecided('%s: harness %s hit a tool limit: %s' % (unit, h['name'], tool_fail[0]))
        ok = hr['status'] == 'SUCCESSFUL'
        per.append(dict(id=oid, backend='kani/cbmc', harness=h['name'], result='discharged' if ok else 'failed', kind=h.get('kind', 'complete'),
                        checks=hr['checks'], time_s=hr['time'], bound=h.get('bound')))
        if not ok:
            f = dict(id=oid, fn=h.get('fn', h['name']), kind='kani', label=h['name'], backend='kani', unit=unit,
                     message='Kani: ' + '; '.join(c['check'] for c in sem_fail)[:300],
                     detail='; '.join('%s @ %s' % (c['check'], c['where']) for c in sem_fail)[:600],
                     rendered='\n'.join('%s\n  %s' % (c['check'], c['where']) for c in hr['failed_checks']))
            failed.append(f)
    return dict(per_obligation=per, failed=failed, trusted=['%s: %s' % (unit, t) for t in meta.get('trusted', [])],
                functions=[dict(f, unit=unit, props=[pid]) for f in functions], extraction_log=[dict(e, unit=unit) for e in log],
                cmds=[r['cmd']], bounded=[dict(unit=unit, **b) for b in meta.get('bounded', []) if pid in b.get('props', [pid])],
                covers=covers, solver_ms=solver_ms, bdir=bdir)


def witness(failure, build):
    """concrete playback + native replay for a failed Kani obligation; mutates failure."""
    bdir = failure.get('bdir')
    if not bdir:
        return
    pb = concrete_playback(bdir, build, failure['label'])
    if not pb:
        return
    failure['counterexample'] = pb['values']
    rp = native_replay(bdir, build, failure['label'], pb)
    failure['replay'] = rp
    failure['playback_test'] = pb['test']
