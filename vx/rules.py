"""Mechanical rewrite rules (DESIGN §1.4).  Each rule is a function
text -> (text, [log entries]); every application is logged with before/after
so the evidence shows exactly how the verified text differs from /repo."""
import re
from .rustscan import code_mask, match_close, CODE, ScanError, Snippet, norm_ws

TRACE_MACROS = ('trace', 'debug', 'info', 'warn', 'error', 'eprintln', 'println')


def _code_sub(text, pattern, repl_fn, rule, log, flags=0):
    """regex substitution restricted to matches that *start* in code."""
    mask = code_mask(text)
    out = []
    last = 0
    for mm in re.finditer(pattern, text, flags):
        if mask[mm.start()] != CODE:
            continue
        if mm.start() < last:
            continue
        new = repl_fn(mm)
        if new is None:
            continue
        out.append(text[last:mm.start()])
        out.append(new)
        log.append(dict(rule=rule, before=norm_ws(mm.group(0)), after=norm_ws(new)))
        last = mm.end()
    out.append(text[last:])
    return ''.join(out)


def d2_drop_tracing(text, log):
    """D2: statements that are exactly one tracing macro call are dropped."""
    mask = code_mask(text)
    out = []
    last = 0
    for mm in re.finditer(r'(?m)^([ \t]*)(?:tracing::|log::)?(%s)!\s*\(' % '|'.join(TRACE_MACROS), text):
        p = mm.start()
        if mask[mm.end() - 1] != CODE or p < last:
            continue
        close = match_close(text, mask, mm.end() - 1)
        k = close + 1
        while k < len(text) and text[k] in ' \t':
            k += 1
        if k < len(text) and text[k] == ';':
            k += 1
            # swallow to end of line
            while k < len(text) and text[k] in ' \t':
                k += 1
            if k < len(text) and text[k] == '\n':
                k += 1
            out.append(text[last:p])
            log.append(dict(rule='D2', before=norm_ws(text[p:k]), after=''))
            last = k
    out.append(text[last:])
    return ''.join(out)


LOCK_WRAPPERS = ('Arc', 'RwLock', 'Mutex', 'tokio::sync::RwLock', 'tokio::sync::Mutex',
                 'std::sync::RwLock', 'std::sync::Mutex', 'std::sync::Arc', 'parking_lot::RwLock',
                 'parking_lot::Mutex')


def r1_erase_type(ty, log):
    """Arc<RwLock<T>> -> T (outer wrappers only, repeatedly)."""
    orig = ty
    changed = True
    while changed:
        changed = False
        t = ty.strip()
        for w in LOCK_WRAPPERS:
            if t.startswith(w + '<') and t.endswith('>'):
                ty = t[len(w) + 1:-1].strip()
                changed = True
                break
    if ty != orig:
        log.append(dict(rule='R1', before=norm_ws(orig), after=norm_ws(ty)))
    return ty


def r1_erase_guards(text, log, selfmut):
    """self.f.read().await -> (&self.f); write/lock -> (&mut self.f)."""
    pat = r'\b((?:self|[a-z_][a-z0-9_]*)(?:\s*\.\s*[a-z_][a-z0-9_]*)*?)\s*\.\s*(read|write|lock)\(\)\s*(\.await|\.unwrap\(\)|\.expect\("[^"]*"\))'

    def repl(mm):
        base = re.sub(r'\s+', '', mm.group(1))
        if not base.startswith('self.'):
            return None
        kind = mm.group(2)
        if kind == 'read':
            return '(&%s)' % base
        return '(&mut %s)' % base
    return _code_sub(text, pat, repl, 'R1', log)


def r1_erase_ctor(text, log):
    """Arc::new(RwLock::new(X)) -> X  (constructor side of lock erasure)."""
    pat = r'\b(?:std::sync::)?(?:Arc|RwLock|Mutex|tokio::sync::RwLock|tokio::sync::Mutex)::new\s*\('
    while True:
        mask = code_mask(text)
        hit = None
        for mm in re.finditer(pat, text):
            if mask[mm.start()] == CODE:
                hit = mm
                break
        if not hit:
            return text
        close = match_close(text, mask, hit.end() - 1)
        inner = text[hit.end():close]
        log.append(dict(rule='R1', before=norm_ws(text[hit.start():close + 1]), after=norm_ws(inner)))
        text = text[:hit.start()] + inner.strip() + text[close + 1:]


def r1_selfmut(sig, log):
    new = re.sub(r'&\s*self\b', '&mut self', sig, count=1)
    if new != sig:
        log.append(dict(rule='R1', before='&self', after='&mut self'))
    return new


def r3_hasher(text, log):
    def repl(mm):
        return {'FxHashMap': 'HashMap', 'FxHashSet': 'HashSet'}[mm.group(0)]
    return _code_sub(text, r'\bFx(HashMap|HashSet)\b', lambda mm: 'Hash' + mm.group(1)[4:], 'R3', log)


def r5_unreachable(text, log):
    mask = code_mask(text)
    out = []
    last = 0
    for mm in re.finditer(r'\bunreachable!\s*\(', text):
        if mask[mm.start()] != CODE or mm.start() < last:
            continue
        close = match_close(text, mask, mm.end() - 1)
        out.append(text[last:mm.start()])
        new = '{ assert(false); vstd::pervasive::unreached() }'
        out.append(new)
        log.append(dict(rule='R5', before=norm_ws(text[mm.start():close + 1]), after=new))
        last = close + 1
    out.append(text[last:])
    return ''.join(out)


def r2_ref_patterns(text, log):
    """R2: `for &x in E {` -> `for x__r in E { let x = *x__r;`
           `for (&k, v) in E {` -> `for (k__r, v) in E { let k = *k__r;`
           `if let Some(&x) = E {` -> `if let Some(x__r) = E { let x = *x__r;`
           closure params `|&x|` -> handled by closure directives."""
    sn_mask = code_mask(text)
    # for-loops
    out = []
    last = 0
    for kwm in re.finditer(r'\bfor\b', text):
        if sn_mask[kwm.start()] != CODE or kwm.start() < last:
            continue
        mm = re.compile(r'for\s+([^{};]*?)\s+in\b').match(text, kwm.start())
        if not mm:
            continue
        pat = mm.group(1)
        if '&' not in pat:
            continue
        mt = re.match(r'&\s*\(\s*((?:[a-z_][a-z0-9_]*\s*,\s*)*[a-z_][a-z0-9_]*)\s*\)\s*$', pat)
        if mt:
            # `for &(a, _) in E {` -> `for t__rN in E { let (a, _kN) = *t__rN;` (tuple of Copy components; `_` gets a fresh name)
            from .rustscan import next_code
            ob = next_code(text, sn_mask, mm.end(), '{')
            if ob < 0:
                raise ScanError('R2: for loop without body')
            tn = 't__r%d' % (len(out) + 1)
            comps = [c_.strip() for c_ in mt.group(1).split(',')]
            comps = [('_k%d' % k_ if c_ == '_' else c_) for k_, c_ in enumerate(comps)]
            lets = ' let (%s) = *%s;' % (', '.join(comps), tn)
            out.append(text[last:mm.start()])
            out.append('for %s in' % tn)
            out.append(text[mm.end():ob + 1])
            out.append(lets)
            log.append(dict(rule='R2', before=norm_ws(text[mm.start():ob + 1]), after=norm_ws('for %s in%s%s' % (tn, text[mm.end():ob + 1], lets))))
            last = ob + 1
            continue
        names = re.findall(r'&\s*(?:mut\s+)?([a-z_][a-z0-9_]*)', pat)
        if not names:
            continue
        newpat = re.sub(r'&\s*([a-z_][a-z0-9_]*)', lambda m2: m2.group(1) + '__r', pat)
        # find body open
        from .rustscan import next_code
        ob = next_code(text, sn_mask, mm.end(), '{')
        if ob < 0:
            raise ScanError('R2: for loop without body')
        lets = ''.join(' let %s = *%s__r;' % (nm, nm) for nm in names)
        out.append(text[last:mm.start()])
        out.append('for %s in' % newpat)
        out.append(text[mm.end():ob + 1])
        out.append(lets)
        log.append(dict(rule='R2', before=norm_ws(text[mm.start():ob + 1]),
                        after=norm_ws('for %s in%s%s' % (newpat, text[mm.end():ob + 1], lets))))
        last = ob + 1
    out.append(text[last:])
    text = ''.join(out)
    # if let / while let Some(&x) = E {
    sn_mask = code_mask(text)
    out = []
    last = 0
    for kwm in re.finditer(r'\b(if|while)\b', text):
        if sn_mask[kwm.start()] != CODE or kwm.start() < last:
            continue
        mm = re.compile(r'(if|while)\s+let\s+Some\(\s*&\s*([a-z_][a-z0-9_]*)\s*\)\s*=').match(text, kwm.start())
        if not mm:
            continue
        from .rustscan import next_code
        ob = next_code(text, sn_mask, mm.end(), '{')
        if ob < 0:
            raise ScanError('R2: if-let without body')
        nm = mm.group(2)
        out.append(text[last:mm.start()])
        out.append('%s let Some(%s__r) =' % (mm.group(1), nm))
        out.append(text[mm.end():ob + 1])
        out.append(' let %s = *%s__r;' % (nm, nm))
        log.append(dict(rule='R2', before=norm_ws(text[mm.start():ob + 1]),
                        after=norm_ws('%s let Some(%s__r) =%s let %s = *%s__r;' % (mm.group(1), nm, text[mm.end():ob + 1], nm, nm))))
        last = ob + 1
    out.append(text[last:])
    text = ''.join(out)
    # let PATTERN-with-&x = EXPR [else { .. }];   ->  pattern with x__r, followed by `let x = *x__r;`
    sn_mask = code_mask(text)
    out = []
    last = 0
    for kwm in re.finditer(r'\blet\b', text):
        if sn_mask[kwm.start()] != CODE or kwm.start() < last:
            continue
        mm = re.compile(r'let\s+([^=;]*?&[^=;]*?)=(?!=)').match(text, kwm.start())
        if not mm:
            continue
        pat = mm.group(1)
        if re.match(r'\s*(mut\s+)?[a-z_][a-z0-9_]*\s*(:[^=]*)?$', pat):
            continue   # `let x: &T = ..` is a type, not a pattern
        names = re.findall(r'&\s*(?:mut\s+)?([a-z_][a-z0-9_]*)', pat)
        if not names or ':' in pat.split('(')[0]:
            continue
        newpat = re.sub(r'&\s*([a-z_][a-z0-9_]*)', lambda m2: m2.group(1) + '__r', pat)
        sn = Snippet(text)
        try:
            end = sn.stmt_end_after(mm.end())
        except ScanError:
            continue
        lets = ''.join(' let %s = *%s__r;' % (nm, nm) for nm in names)
        out.append(text[last:kwm.start()])
        out.append('let ' + newpat + '=' + text[mm.end():end] + lets)
        log.append(dict(rule='R2', before=norm_ws(text[kwm.start():end]), after=norm_ws('let ' + newpat + '=' + text[mm.end():end] + lets)))
        last = end
    out.append(text[last:])
    return ''.join(out)


def r2_some_ref(text, log):
    """R2, general form: `Some(&PAT)` in `if let`/`while let`/match arms, PAT any (Copy) pattern:
       if let Some(&PAT) = E {        -> if let Some(p__rN) = E { let PAT = *p__rN;
       Some(&PAT) => EXPR,            -> Some(p__rN) => { let PAT = *p__rN; EXPR },"""
    from .rustscan import next_code, OPEN, CLOSE
    n = 0
    while True:
        mask = code_mask(text)
        hit = None
        for mm in re.finditer(r'\bSome\(\s*&', text):
            if mask[mm.start()] != CODE:
                continue
            cp0 = match_close(text, mask, mm.start() + 4)
            k0 = cp0 + 1
            while k0 < len(text) and text[k0] in ' \t\r\n':
                k0 += 1
            # a pattern is followed by `=>` (match arm) or a single `=` (if/while let); anything else is an expression
            if text.startswith('=>', k0) or (text[k0:k0 + 1] == '=' and text[k0:k0 + 2] != '=='):
                hit = mm
                break
        if not hit:
            return text
        n += 1
        op = hit.start() + 4
        cp = match_close(text, mask, op)
        pat = text[hit.end():cp].strip()
        if pat.startswith('mut '):
            pat = pat[4:]
        name = 'p__r%d' % n
        k = cp + 1
        while text[k] in ' \t\r\n':
            k += 1
        if text.startswith('=>', k):
            b = k + 2
            while text[b] in ' \t\r\n':
                b += 1
            if text[b] == '{':
                new = text[:hit.start()] + 'Some(%s)' % name + text[cp + 1:b + 1] + ' let %s = *%s;' % (pat, name) + text[b + 1:]
            else:
                e = b
                while e < len(text):
                    if mask[e] == CODE:
                        if text[e] in OPEN:
                            e = match_close(text, mask, e)
                        elif text[e] == ',' or text[e] in CLOSE:
                            break
                    e += 1
                new = text[:hit.start()] + 'Some(%s)' % name + text[cp + 1:b] + '{ let %s = *%s; %s }' % (pat, name, text[b:e].strip()) + text[e:]
        elif text[k] == '=':
            ob = next_code(text, mask, k, '{')
            if ob < 0:
                raise ScanError('R2: Some(&pat) = .. without a block')
            new = text[:hit.start()] + 'Some(%s)' % name + text[cp + 1:ob + 1] + ' let %s = *%s;' % (pat, name) + text[ob + 1:]
        else:
            raise ScanError('R2: unsupported context for Some(&%s)' % pat)
        log.append(dict(rule='R2', before='Some(&%s)' % pat, after='Some(%s) .. let %s = *%s;' % (name, pat, name)))
        text = new


def r2_closure_params(text, log):
    """R2 for closures: `|&x| BODY` -> `|x__r| { let x = *x__r; BODY }` (single by-reference pattern parameter)."""
    while True:
        sn = Snippet(text)
        hit = None
        for c in sn.closures(0, len(text)):
            mm = re.match(r'\s*&\s*([a-z_][a-z0-9_]*)\s*$', c['params'])
            if mm:
                hit = (c, mm.group(1), None)
                break
            mt = re.match(r'\s*&\s*\(\s*((?:[a-z_][a-z0-9_]*\s*,\s*)*[a-z_][a-z0-9_]*)\s*\)\s*$', c['params'])
            if mt:
                # `|&(a, _)| BODY` -> `|p__r| { let (a, _k1) = *p__r; BODY }` (tuple of Copy components; `_` gets a fresh name)
                names = [n.strip() for n in mt.group(1).split(',')]
                names = [('_k%d' % k if n == '_' else n) for k, n in enumerate(names)]
                hit = (c, 'p', names)
                break
        if not hit:
            return text
        c, nm, names = hit
        body = text[c['body_start']:c['body_end']]
        inner = body[1:-1].strip() if c['is_block'] else body.strip()
        if names is None:
            new = '|%s__r| { let %s = *%s__r; %s }' % (nm, nm, nm, inner)
        else:
            new = '|p__r| { let (%s) = *p__r; %s }' % (', '.join(names), inner)
        log.append(dict(rule='R2', before=norm_ws(text[c['bar']:c['body_end']]), after=norm_ws(new)))
        text = text[:c['bar']] + new + text[c['body_end']:]


def r9_iter(text, log, exprs):
    """R9: `for p in &C {` -> `for p in C.iter() {` for listed hash collections C."""
    for e in exprs:
        pat = r'\bin\s+&\s*' + re.escape(e) + r'\s*\{'
        text = _code_sub(text, pat, lambda mm: 'in %s.iter() {' % e, 'R9', log)
    return text


def r8_let_chain(body, anchor, prefix, log, mut=False):
    """R8: let-normalise a method chain.  The statement (or tail expression)
    containing `anchor` must have the shape  [let PAT =|return] BASE.m1(..).m2(..)...[;]
    and becomes  let p1 = BASE.m1(..); let p2 = p1.m2(..); ... [let PAT =|return] pN[;]
    Evaluation order of a method chain is left-to-right, so this only names the
    intermediate values (temporaries live to the end of the enclosing block)."""
    from .rustscan import OPEN, CLOSE
    mask = code_mask(body)
    occ = [mm.start() for mm in re.finditer(re.escape(anchor), body) if mask[mm.start()] == CODE]
    if len(occ) != 1:
        return body, 'chain anchor %r occurs %d times' % (anchor, len(occ))
    pos = occ[0]
    # statement start: walk back to previous ; { } at depth 0
    k = pos - 1
    depth = 0
    while k >= 0:
        if mask[k] == CODE:
            c = body[k]
            if c in CLOSE:
                depth += 1
            elif c in OPEN:
                if depth == 0:
                    break
                depth -= 1
            elif c == ';' and depth == 0:
                break
        k -= 1
    st = k + 1
    # statement end: next ; at depth 0 or the closing brace of the block
    k = pos
    n = len(body)
    while k < n:
        if mask[k] == CODE:
            c = body[k]
            if c in OPEN:
                k = match_close(body, mask, k)
            elif c == ';' or c in CLOSE:
                break
        k += 1
    en = k
    has_semi = body[en] == ';'
    stmt = body[st:en]
    lead_ws = re.match(r'\s*', stmt).group(0)
    core = stmt.strip()
    head = ''
    mm = re.match(r'(let\s+[^=]+?=\s*|return\s+)', core)
    if mm:
        head = mm.group(1)
        core = core[mm.end():]
    cmask = code_mask(core)
    # split at depth-0 `.ident(`  (method calls); keep `.await`, `.field`, `?` attached
    cuts = []
    i = 0
    while i < len(core):
        if cmask[i] == CODE:
            c = core[i]
            if c in OPEN:
                i = match_close(core, cmask, i)
            elif c == '.':
                m2 = re.match(r'\.\s*([A-Za-z_]\w*)\s*(::\s*<[^>]*>\s*)?\(', core[i:])
                if m2:
                    cuts.append(i)
        i += 1
    if len(cuts) < 2:
        return body, 'chain at %r has fewer than two method calls' % anchor
    segs = []
    prev = 0
    # first segment = base + first call
    bounds = cuts[1:] + [len(core)]
    start = 0
    for b in bounds:
        segs.append(core[start:b])
        start = b
    indent = re.sub(r'^\n*', '', lead_ws)
    indent = indent.split('\n')[-1] if '\n' in lead_ws else lead_ws
    out = []
    for idx, sg in enumerate(segs):
        name = '%s%d' % (prefix, idx + 1)
        if idx == 0:
            out.append('let %s%s = %s;' % ('mut ' if mut else '', name, sg.strip()))
        elif idx < len(segs) - 1:
            out.append('let %s%s = %s%d%s;' % ('mut ' if mut else '', name, prefix, idx, sg.strip()))
        else:
            out.append('%s%s%d%s%s' % (head, prefix, idx, sg.strip(), ';' if has_semi else ''))
    if not has_semi and not head:
        # tail expression: name the result too so that ghost code can follow it
        last = out.pop()
        out.append('let %s%d = %s;' % (prefix, len(segs), last))
        out.append('%s%d' % (prefix, len(segs)))
    new = lead_ws + ('\n' + indent).join(out) + stmt[len(stmt.rstrip()):]
    log.append(dict(rule='R8', before=norm_ws(stmt), after=norm_ws(new)))
    return body[:st] + new + body[en + (1 if has_semi else 0):], None


def r10_byte_strings(text, log):
    """R10: a byte-string literal b"..." becomes the reference to the array literal of its bytes,
    &[b0u8, b1u8, ...] -- the same value of the same type &'static [u8; N] by the language definition.
    Verus knows the length but not the contents of a byte-string literal."""
    from .rustscan import code_mask, STRING
    mask = code_mask(text)
    out = []
    i = 0
    n = len(text)
    while i < n:
        if text[i] == 'b' and i + 1 < n and text[i + 1] == '"' and mask[i] == STRING and (i == 0 or mask[i - 1] != STRING):
            j = i + 2
            bs = []
            ok = True
            while j < n and text[j] != '"':
                c = text[j]
                if c == '\\':
                    e = text[j + 1]
                    simple = {'n': 10, 'r': 13, 't': 9, '\\': 92, '0': 0, '"': 34, "'": 39}
                    if e in simple:
                        bs.append(simple[e])
                        j += 2
                    elif e == 'x':
                        bs.append(int(text[j + 2:j + 4], 16))
                        j += 4
                    else:
                        ok = False
                        break
                else:
                    if ord(c) > 127:
                        ok = False
                        break
                    bs.append(ord(c))
                    j += 1
            if ok and j < n:
                lit = text[i:j + 1]
                new = '&[' + ', '.join('%du8' % b for b in bs) + ']'
                log.append(dict(rule='R10', before=lit, after=new))
                out.append(new)
                i = j + 1
                continue
        out.append(text[i])
        i += 1
    return ''.join(out)



_LIT = r"(?:'(?:[^'\\]|\\.)'|b'(?:[^'\\]|\\.)'|\d+)"
_R14 = re.compile(r"(?m)^(\s*)(" + _LIT + r"(?:\s*\|\s*" + _LIT + r")+)\s+if\s+([^=\n]+?)\s*=>\s*\{")


def r14_split_or_guard(text, log):
    """R14: a match arm `P1 | P2 if G => { B }` becomes `P1 if G => { B } P2 if G => { B }` (Verus does not support an
    or-pattern together with a guard; the two forms are equivalent: patterns are tried in order, the guard is evaluated
    for the first pattern that matches, and the literal patterns handled here are disjoint)."""
    while True:
        mask = code_mask(text)
        hit = None
        for mm in _R14.finditer(text):
            ob = mm.end() - 1
            if mask[ob] != CODE:
                continue
            hit = (mm, ob)
            break
        if not hit:
            return text
        mm, ob = hit
        cb = match_close(text, mask, ob)
        indent, pats, guard = mm.group(1), mm.group(2), mm.group(3)
        body = text[ob:cb + 1]
        plist = [p_.strip() for p_ in re.split(r"\s*\|\s*", pats)]
        new = '\n'.join('%s%s if %s => %s' % (indent, p_, guard, body) for p_ in plist)
        log.append(dict(rule='R14', before=norm_ws(text[mm.start():ob + 1]), after=norm_ws(' / '.join('%s if %s => {' % (p_, guard) for p_ in plist))))
        text = text[:mm.start()] + new + text[cb + 1:]


_R15 = re.compile(r"(?<![A-Za-z0-9_\.])((?:self\.)?[a-z_][a-z0-9_]*(?:\.[a-z_][a-z0-9_]*)*)\s*\.iter\(\)\s*\.(position|any|all)\(")


def r15_iter_wrappers(text, log):
    """R15: `RECV.iter().position(` / `.any(` / `.all(` on a Vec (RECV a plain path) -> `it_position(&RECV, ` etc.: the
    wrappers of units/common/iter_wrappers.rs, whose bodies are the original expressions (provided Iterator methods cannot
    be given a Verus specification)."""
    mask = code_mask(text)

    def repl(mm):
        if mask[mm.start()] != CODE:
            return mm.group(0)
        new = 'it_%s(&%s, ' % (mm.group(2), mm.group(1))
        log.append(dict(rule='R15', before=norm_ws(mm.group(0)), after=new))
        return new
    return _R15.sub(repl, text)


_R18 = re.compile(r'\bfor\s+\(\s*([a-z_][a-z0-9_]*)\s*,\s*([a-z_][a-z0-9_]*)\s*\)\s+in\s+((?:\*?[A-Za-z_][A-Za-z0-9_]*)(?:\.[A-Za-z_][A-Za-z0-9_]*)*)\.iter\(\)\.enumerate\(\)\s*\{')


def r18_enumerate(text, log):
    """R18: `for (I, X) in V.iter().enumerate() { B }` over a Vec or slice V (a plain path) -> `for I in 0..V.len() { let X = &V[I]; B }`:
    the same elements with the same indices in the same order (Verus has no model of the Enumerate adapter)."""
    mask = code_mask(text)

    def repl(mm):
        if mask[mm.start()] != CODE:
            return mm.group(0)
        i, x, v = mm.group(1), mm.group(2), mm.group(3)
        new = 'for %s in 0..%s.len() { let %s = &%s[%s];' % (i, v, x, v, i)
        log.append(dict(rule='R18', before=norm_ws(mm.group(0)), after=new))
        return new
    return _R18.sub(repl, text)


_R19 = re.compile(r'((?:[A-Za-z_][A-Za-z0-9_]*)(?:\.[A-Za-z_][A-Za-z0-9_]*)*)\s*\.extend\(\s*((?:[A-Za-z_][A-Za-z0-9_]*)(?:\.[A-Za-z_][A-Za-z0-9_]*)*)\.iter\(\)\s*\.map\(\s*\|\s*\(\s*([a-z_][a-z0-9_]*)\s*,\s*([a-z_][a-z0-9_]*)\s*\)\s*\|\s*\(\s*\3\.clone\(\)\s*,\s*\4\.clone\(\)\s*\)\s*\)\s*\)')


def r19_extend_cloned(text, log):
    """R19: `DST.extend(SRC.iter().map(|(k, v)| (k.clone(), v.clone())))` on maps (DST, SRC plain paths) -> `map_extend_cloned(&mut DST, &SRC)`:
    a wrapper the unit defines, whose body is the original statement (iterator adapters and closures over tuple patterns are
    outside Verus)."""
    mask = code_mask(text)

    def repl(mm):
        if mask[mm.start()] != CODE:
            return mm.group(0)
        new = 'map_extend_cloned(&mut %s, &%s)' % (mm.group(1), mm.group(2))
        log.append(dict(rule='R19', before=norm_ws(mm.group(0)), after=new))
        return new
    return _R19.sub(repl, text)


_R20 = re.compile(r'((?:[A-Za-z_][A-Za-z0-9_]*)(?:\.[A-Za-z_][A-Za-z0-9_]*)*)\s*\.extend\(\s*std::mem::take\(\s*&mut\s+([^()]*?(?:\[[^\]]*\])?)\s*\)\s*\.into_iter\(\)\s*\.map\(\s*\|\s*\(\s*_\s*,\s*([a-z_][a-z0-9_]*)\s*\)\s*\|\s*\3\s*\)\s*\)')


def r20_extend_taken(text, log):
    """R20: `DST.extend(std::mem::take(&mut SRC).into_iter().map(|(_, x)| x))` -> `extend_with_taken_ids(&mut DST, &mut SRC)`: a wrapper
    the unit defines, whose body is the original statement (IntoIter/Map adapters and closures over tuple patterns are outside
    Verus): SRC is emptied, the second components of its entries are appended to DST in order."""
    mask = code_mask(text)

    def repl(mm):
        if mask[mm.start()] != CODE:
            return mm.group(0)
        new = 'extend_with_taken_ids(&mut %s, &mut %s)' % (mm.group(1), mm.group(2))
        log.append(dict(rule='R20', before=norm_ws(mm.group(0)), after=new))
        return new
    return _R20.sub(repl, text)
