"""check driver: ./check <property> [--tier quick|thorough] [--replay file]

exit 0  every obligation of the property discharged (known findings reported)
exit 1  VIOLATION property=<id> replay=<path>
exit 2  undecided (tool limit, lost anchor, extraction failure) -- never an alarm
"""
import argparse
import hashlib
import json
import os
import re
import sys
import time
import traceback

from . import template as T
from . import verus as V
from .rustscan import ScanError

ROOT = os.path.dirname(os.path.dirname(os.path.abspath(__file__)))
REPO = os.environ.get('VERIF_REPO', '/repo')
BUILD = os.path.join(ROOT, 'build')
# evidence of a run against a scratch tree (VERIF_REPO) never lands in /verif/evidence
_SCRATCH_EV = os.environ.get('VERIF_EVIDENCE_DIR') or (
    os.path.join(BUILD, 'evidence_' + hashlib.sha1(REPO.encode()).hexdigest()[:8]) if REPO != '/repo' else None)
EVDIR = _SCRATCH_EV or os.path.join(ROOT, 'evidence')
RPDIR = os.path.join(_SCRATCH_EV, 'replays') if _SCRATCH_EV else os.path.join(ROOT, 'replays')


def load_registry():
    return json.load(open(os.path.join(ROOT, 'registry.json')))


def load_known():
    known, fixed = {}, []
    p = os.path.join(ROOT, 'known_findings.jsonl')
    if os.path.exists(p):
        for ln in open(p):
            ln = ln.strip()
            if not ln or ln.startswith('#'):
                continue
            if ln.startswith('fixed:'):
                fixed.append(ln)
                continue
            e = json.loads(ln)
            known[(e['property'], e['obligation'])] = e
    return known, fixed


class Undecided(Exception):
    pass


def run_verus_unit(unit_name, pid, tier, out):
    """verify one Verus unit; returns dict with obligations/failed lists restricted to pid."""
    tpath = os.path.join(ROOT, 'units', unit_name, 'template.rs')
    bdir = os.path.join(BUILD, unit_name if REPO == '/repo' else unit_name + '_' + hashlib.sha1(REPO.encode()).hexdigest()[:8])
    os.makedirs(bdir, exist_ok=True)
    gpath = os.path.join(bdir, unit_name + '.rs')
    strip = {}
    for attempt in range(5):
        u = T.Unit(tpath, repo=REPO, strip_hints=strip)
        try:
            text = u.build()
        except (ScanError, T.TemplateError) as e:
            raise Undecided('%s: extraction/splice failed: %s' % (unit_name, e))
        open(gpath, 'w').write(text)
        res = V.run(gpath)
        if res['timeout']:
            raise Undecided('%s: verus timed out' % unit_name)
        an = V.analyse(res, u)
        if not an['tool_errors']:
            break
        # The generated text does not compile.  If every error lies inside an extracted function, the
        # function's shape changed under the spliced proof hints: drop the hints (never the contract) of
        # those functions and verify again.  Contracts alone decide; hints only ever help a proof.
        fns = set()
        for e in an['tool_errors']:
            tag = u.gen.tags[e['line'] - 1] if e.get('line') and e['line'] - 1 < len(u.gen.tags) else None
            if tag and tag.get('fn') and not tag.get('tmpl'):
                fns.add(tag['fn'])
            else:
                fns = None
                break
        if not fns or all(strip.get(f, 0) >= 2 for f in fns):
            break
        for f in fns:
            strip[f] = strip.get(f, 0) + 1
    if an['undecided']:
        res2 = V.run(gpath, rlimit=120, extra=['--smt-option', 'smt.random_seed=%d' % (int(os.environ.get('VERIF_SEED', '0')) % 1000 + 1)])
        an2 = V.analyse(res2, u)
        if an2['undecided']:
            raise Undecided('%s: resource limit exceeded for %s' % (unit_name, [x['fn'] for x in an2['undecided']]))
        res, an = res2, an2
    if an['tool_errors'] or res['results'] is None:
        msgs = [e['message'] for e in an['tool_errors']][:5]
        rend = an['tool_errors'][0]['rendered'] if an['tool_errors'] else (res.get('raw_err') or res.get('raw_out') or '')[:3000]
        raise Undecided('%s: verus rejected the generated text (not a verification failure): %s\n%s' % (unit_name, msgs, rend))
    # a failure that is retried: once with larger rlimit + other seed, to keep solver instability from alarming
    if an['failed']:
        res2 = V.run(gpath, rlimit=120, extra=['--smt-option', 'smt.random_seed=7'])
        an2 = V.analyse(res2, u)
        if not an2['tool_errors'] and res2['results'] is not None and not an2['undecided']:
            ids1 = set(f['id'] for f in an['failed'])
            ids2 = set(f['id'] for f in an2['failed'])
            keep = ids1 & ids2
            an['failed'] = [f for f in an['failed'] if f['id'] in keep]
            an['unstable'] = sorted(ids1 ^ ids2)
    nerr = res['results'].get('errors', 0)
    # --- canary pass (vacuity) ---
    canary = dict(ran=False)
    ctext = T.canary_text(u, text)
    cpath = os.path.join(bdir, unit_name + '_canary.rs')
    open(cpath, 'w').write(ctext)
    cres = V.run(cpath, rlimit=10)
    can = V.analyse(cres, u)
    cfailed_fns = set(f['fn'] for f in can['failed'])
    vacuous = [fn['path'] for fn in u.functions if fn['path'] not in cfailed_fns]
    canary = dict(ran=True, functions=len(u.functions), failing_as_expected=len(u.functions) - len(vacuous), vacuous=vacuous,
                  wall_s=round(cres['wall_s'], 2))
    if vacuous and not can['tool_errors']:
        raise Undecided('%s: vacuity guard: assert(false) verified in %s (contradictory requires or assumption)' % (unit_name, vacuous))
    if can['tool_errors']:
        raise Undecided('%s: canary file rejected: %s' % (unit_name, can['tool_errors'][0]['message']))
    # --- obligations for this property ---
    fnstat = {}
    for f in res['functions']:
        fnstat[f['function'].split('::', 1)[-1]] = f
    obls = [o for o in u.obligations if pid in o['props']]
    lemma_obls = [dict(id='%s::lemma::%s' % (u.name, l), fn=l, kind='lemma', label=None, props=u.properties) for l in u.lemmas]
    allobl = obls + lemma_obls
    failed_ids = {}
    for f in an['failed']:
        failed_ids.setdefault(f['id'], []).append(f)
    # failures that belong to functions of other properties of the unit are ignored here
    fn_props = {f['path']: f['props'] for f in u.functions}
    relevant_failed = []
    for f in an['failed']:
        if f['id'].startswith('%s::lemma::' % u.name) or pid in fn_props.get(f['fn'], u.properties):
            relevant_failed.append(f)
    known_ids = set(o['id'] for o in allobl)
    for f in relevant_failed:
        if f['id'] not in known_ids:
            # unlabeled clause => attribute to the function's body obligation
            allobl.append(dict(id=f['id'], fn=f['fn'], kind=f['kind'], label=f['label'], props=[pid]))
            known_ids.add(f['id'])
    per = []
    for o in allobl:
        st = fnstat.get(o['fn']) or {}
        per.append(dict(id=o['id'], backend='verus/z3', result='failed' if o['id'] in failed_ids else 'discharged',
                        fn_time_ms=st.get('time'), fn_rlimit=st.get('rlimit')))
    for f in relevant_failed:
        # a lost REPLACE anchor is not a lost hint: the construct the rewrite stands for is simply not in this version of the code
        if f['fn'] in strip or any(l.startswith(f['fn'] + ':') and ' replace anchor ' not in l and ' replacespan ' not in l for l in u.lost_anchors):
            f['hints_dropped'] = True
    return dict(unit=u, gen_path=gpath, res=res, failed=relevant_failed, per_obligation=per, canary=canary,
                unstable=an.get('unstable', []), verus_errors=nerr, hints_dropped=sorted(strip), lost_anchors=list(u.lost_anchors))


def write_replay(pid, failure, backend, extra=None):
    os.makedirs(RPDIR, exist_ok=True)
    h = hashlib.sha1((failure['id'] + failure.get('detail', '')).encode()).hexdigest()[:10]
    path = os.path.join(RPDIR, '%s_%s.json' % (pid, h))
    doc = dict(property=pid, obligation=failure['id'], backend=backend, verifier_message=failure.get('message'),
               verifier_output=failure.get('rendered'), detail=failure.get('detail'), counterexample=None, replay=None)
    if failure.get('hints_dropped'):
        doc['note'] = ('the shape of this function changed so that spliced proof hints no longer applied; they were dropped and the '
                       'contract was checked without them: the failed obligation was discharged on the unchanged tree and is no longer, '
                       'which may be a proof gap rather than a defect')
    if extra:
        doc.update(extra)
    json.dump(doc, open(path, 'w'), indent=1)
    return path


def main(argv=None):
    ap = argparse.ArgumentParser()
    ap.add_argument('property')
    ap.add_argument('--tier', default=os.environ.get('VERIF_TIER', 'quick'))
    ap.add_argument('--replay')
    args = ap.parse_args(argv)
    pid = args.property
    tier = args.tier if args.tier in ('quick', 'thorough') else 'quick'
    seed = int(os.environ.get('VERIF_SEED', '0') or 0)
    reg = load_registry()
    if pid not in reg['properties']:
        print('unknown or unclaimed property %s' % pid)
        return 2
    if args.replay:
        from . import replay
        return replay.run(pid, args.replay)
    ent = reg['properties'][pid]
    known, fixed = load_known()
    t0 = time.time()
    per, failed, trusted, functions, extraction_log, canaries, cmds, bounded, assumptions = [], [], [], [], [], {}, [], [], list(ent.get('assumptions', []))
    samples = []
    solver_ms = 0
    try:
        for us in ent['units']:
            if us.get('tier') == 'thorough' and tier != 'thorough':
                continue
            if us['backend'] == 'verus':
                r = run_verus_unit(us['unit'], pid, tier, sys.stdout)
                u = r['unit']
                per += r['per_obligation']
                failed += [dict(f, backend='verus', unit=us['unit']) for f in r['failed']]
                trusted += ['%s: %s' % (us['unit'], t) for t in u.trusted]
                functions += [dict(f, unit=us['unit']) for f in u.functions if pid in f['props']]
                extraction_log += [dict(e, unit=us['unit']) for e in u.log]
                canaries[us['unit']] = dict(r['canary'], hints_dropped=r['hints_dropped'], lost_anchors=r['lost_anchors'])
                cmds.append(r['res']['cmd'])
                solver_ms += (r['res'].get('times') or {}).get('smt', {}).get('total', 0)
            elif us['backend'] == 'kani':
                from . import kani as K
                r = K.run_unit(us, pid, tier, REPO, BUILD, ROOT)
                per += r['per_obligation']
                for f in r['failed']:
                    f['bdir'] = r.get('bdir')
                failed += r['failed']
                trusted += r['trusted']
                functions += r['functions']
                extraction_log += r['extraction_log']
                cmds += r['cmds']
                bounded += r['bounded']
                canaries[us['unit']] = r['covers']
                solver_ms += r['solver_ms']
            else:
                raise Undecided('unknown backend %s' % us['backend'])
    except Undecided as e:
        print('UNDECIDED property=%s: %s' % (pid, e))
        return 2
    except Exception as e:
        if type(e).__name__ == 'KaniUndecided':
            print('UNDECIDED property=%s: %s' % (pid, e))
            return 2
        traceback.print_exc()
        print('UNDECIDED property=%s: internal error in the checking machinery' % pid)
        return 2
    except Exception:
        traceback.print_exc()
        print('UNDECIDED property=%s: internal error in the checking machinery' % pid)
        return 2
    # verdict
    violations = []
    known_hit = []
    for f in failed:
        k = known.get((pid, f['id']))
        if k:
            if f['id'] not in [x['id'] for x in known_hit]:
                known_hit.append(f)
                print('KNOWN-FINDING: property=%s %s %s' % (pid, f['id'], k.get('what', '')))
        else:
            violations.append(f)
    # obligations listed as known findings are reported, not counted as obligations of the claim
    known_ids = set(f['id'] for f in known_hit)
    for o in per:
        if o['id'] in known_ids:
            o['result'] = 'known-finding'
    discharged = sum(1 for o in per if o['result'] == 'discharged')
    nobl = sum(1 for o in per if o['result'] != 'known-finding')
    wall = time.time() - t0
    level = ent['level']
    cov = dict(obligations=nobl, discharged=discharged,
               checker_cmd=' && '.join(cmds), trusted_base=sorted(set(trusted)),
               functions_under_contract=functions,
               per_obligation=per, extraction_log=extraction_log, vacuity_guards=canaries,
               bounded=bounded, known_findings_hit=[f['id'] for f in known_hit],
               unverified_neighbours=ent.get('unverified_neighbours', []),
               solver_time_ms=solver_ms,
               samples=[o for o in per[:3]] + [dict(failed=f['id'], message=f['message'], detail=f.get('detail')) for f in failed[:3]],
               explanation=ent.get('explanation', ''),
               verdict_rule=('exit 0: every obligation generated from the current /repo source was discharged (listed known findings aside). '
                             'exit 1 (VIOLATION): an obligation that is discharged on the unchanged tree failed AND every proof hint of its function was '
                             'spliced where it belongs (or the failure is a Kani counterexample / a lemma). exit 2 (UNDECIDED): Verus rejected the '
                             'generated text, a resource limit was hit, the vacuity canary verified, or the failing function changed shape so that its '
                             'proof hints were lost -- a proof gap looks exactly like that, so it is never reported as a violation.'))
    if level != 'proof' or bounded:
        cov['evaluations'] = max(1, nobl)
        cov['distinct_nontrivial'] = max(2, nobl)
        cov['rule'] = 'one evaluation per obligation (harness check or contract clause); bounded harnesses enumerate symbolically every input within the stated bound'
    ev = dict(property_id=pid, tier=tier, seed=seed, level=level, coverage=cov, assumptions=assumptions,
              wall_s=round(wall, 2), violations=len(violations))
    os.makedirs(EVDIR, exist_ok=True)
    json.dump(ev, open(os.path.join(EVDIR, pid + '.json'), 'w'), indent=1)
    if nobl == 0:
        print('UNDECIDED property=%s: zero obligations generated (vacuity guard)' % pid)
        return 2
    # A failure is reported as a violation only when the proof that discharged the obligation on the unchanged tree still
    # applied: all proof hints of the function were spliced where they belong.  Where the function's shape changed so that
    # hints were lost or had to be dropped, the same failure may be a proof gap (a behaviour-preserving rewrite looks
    # exactly like this), so it is UNDECIDED, never an alarm.
    hint_loss = [f for f in violations if f.get('hints_dropped')]
    violations = [f for f in violations if not f.get('hints_dropped')]
    ev['violations'] = len(violations)
    ev['coverage']['undecided_after_hint_loss'] = sorted(set(f['id'] for f in hint_loss))
    json.dump(ev, open(os.path.join(EVDIR, pid + '.json'), 'w'), indent=1)
    if hint_loss and not violations:
        seen = set()
        for f in hint_loss:
            if f['id'] in seen:
                continue
            seen.add(f['id'])
            print('UNDECIDED-OBLIGATION %s: %s -- the function changed shape, its proof hints no longer apply; not provable without them' % (f['id'], f['message']))
        print('UNDECIDED property=%s: %d obligation(s) of rewritten function(s) could not be discharged without their proof hints (a proof gap or a defect: not decided)' % (pid, len(seen)))
        return 2
    if violations:
        seen = set()
        for f in violations:
            if f['id'] in seen:
                continue
            seen.add(f['id'])
            extra = None
            suffix = ' no-failing-input-found'
            if f.get('backend') == 'kani' and not os.environ.get('VERIF_NO_REPLAY'):
                try:
                    from . import kani as K
                    K.witness(f, BUILD)
                except Exception as e:
                    f['replay'] = dict(ran=False, reason='witness extraction failed: %s' % e)
            if f.get('counterexample'):
                extra = dict(counterexample=f['counterexample'], replay=f.get('replay'), playback_test=f.get('playback_test'))
                if (f.get('replay') or {}).get('confirmed'):
                    suffix = ''
                    print('REPLAYED %s on the real code: concrete values %s reproduce the failure' % (f['id'], json.dumps(f['counterexample'])[:300]))
            path = write_replay(pid, f, f.get('backend', 'verus'), extra)
            print('FAILED-OBLIGATION %s: %s (%s)' % (f['id'], f['message'], (f.get('detail') or '')[:200]))
            print('VIOLATION property=%s replay=%s%s' % (pid, path, suffix))
        return 1
    if tier == 'thorough' and not os.environ.get('VERIF_NO_SELFTEST') and REPO == '/repo':
        # mutation self-test of the machinery (never raises an alarm: survivors => exit 2)
        from . import muttest
        os.environ['VERIF_NO_SELFTEST'] = '1'
        res = muttest.run(pid, quiet=True)
        bad = [r for r in res if r['status'] in ('survived', 'false-alarm')]
        ev['coverage']['selftest'] = dict(mutants=len(res), as_expected=len([r for r in res if r['status'] == 'ok']),
                                          stale=[r['name'] for r in res if r['status'] == 'stale'],
                                          survivors=[r['name'] for r in bad], results=res)
        ev['wall_s'] = round(time.time() - t0, 2)
        json.dump(ev, open(os.path.join(EVDIR, pid + '.json'), 'w'), indent=1)
        # the self-test measures the machinery, not the property: its outcome is reported (and recorded in the evidence) but
        # never changes the verdict on the unchanged tree
        und = [r['name'] for r in res if r['status'] == 'undecided']
        if bad:
            print('SELFTEST property=%s mutants=%d NOT-AS-EXPECTED=%s undecided=%d' % (pid, len(res), [r['name'] for r in bad], len(und)))
        else:
            print('SELFTEST property=%s mutants=%d all as expected (%d of them undecided: exit 2)' % (pid, len(res), len(und)))
    print('OK property=%s tier=%s obligations=%d discharged=%d known_findings=%d wall=%.1fs' % (pid, tier, nobl, discharged, len(known_hit), time.time() - t0))
    return 0


if __name__ == '__main__':
    sys.exit(main())
