"""Run Verus on a generated unit file and map diagnostics to obligation ids."""
import json
import os
import re
import subprocess
import time

SEMANTIC = [
    ('postcondition not satisfied', 'post'),
    ('precondition not satisfied', 'precondition'),
    ('assertion failed', 'assert'),
    ('unable to prove post-condition of closure', 'assert'),
    ('invariant not satisfied before loop', 'inv_entry'),
    ('invariant not satisfied at end of loop body', 'inv_preserve'),
    ('loop invariant not preserved', 'inv_preserve'),
    ('loop invariant not satisfied', 'inv_preserve'),
    ('possible arithmetic underflow/overflow', 'overflow'),
    ('possible division by zero', 'divzero'),
    ('possible bit shift underflow/overflow', 'overflow'),
    ('decreases not satisfied', 'decreases'),
    ('could not prove termination', 'decreases'),
    ('index out of bounds', 'bounds'),
    ('unreachable', 'unreachable'),
    ('constructed value may fail to meet its declared type invariant', 'type_inv'),
    ('cannot show invariant holds', 'inv_entry'),
    ('recommendation not met', 'recommends'),
    ('function body check', 'body'),
]
UNDECIDED = ['Resource limit (rlimit) exceeded', 'rlimit exceeded', 'timed out', 'while checking this function']


def classify(msg):
    for pat, kind in SEMANTIC:
        if pat in msg:
            return kind
    return None


def run(gen_path, rlimit=30, extra=None, timeout=1800):
    cmd = ['verus', gen_path, '--output-json', '--time', '--multiple-errors', '20',
           '--rlimit', str(rlimit), '--error-format=json', '--triggers-mode', 'silent']
    if extra:
        cmd += extra
    t0 = time.time()
    env = dict(os.environ)
    try:
        p = subprocess.run(cmd, capture_output=True, text=True, timeout=timeout, cwd=os.path.dirname(gen_path), env=env)
        out, err, rc = p.stdout, p.stderr, p.returncode
    except subprocess.TimeoutExpired as e:
        return dict(cmd=' '.join(cmd), rc=None, timeout=True, wall_s=time.time() - t0, diags=[], results=None,
                    functions=[], raw_err=str(e.stderr)[:4000] if e.stderr else '')
    wall = time.time() - t0
    results = None
    functions = []
    times = None
    try:
        j = json.loads(out)
        results = j.get('verification-results')
        times = j.get('times-ms')
        for mod in (times or {}).get('smt', {}).get('smt-run-module-times', []):
            for f in mod.get('function-breakdown', []):
                functions.append(f)
    except Exception:
        pass
    diags = []
    for ln in err.split('\n'):
        ln = ln.strip()
        if not ln.startswith('{'):
            continue
        try:
            d = json.loads(ln)
        except Exception:
            continue
        if d.get('$message_type') != 'diagnostic':
            continue
        diags.append(d)
    return dict(cmd=' '.join(cmd), rc=rc, timeout=False, wall_s=wall, diags=diags, results=results,
                functions=functions, times=times, raw_err=err if not diags else '', raw_out=out if results is None else '')


def analyse(res, unit):
    """returns dict(failed=[{id, fn, kind, label, message, detail}], tool_errors=[...], undecided=[...])"""
    tags = unit.gen.tags
    failed, tool_errors, undecided = [], [], []
    for d in res['diags']:
        if d.get('level') != 'error':
            continue
        msg = d.get('message', '')
        if msg.startswith('aborting due to') or 'previous error' in msg:
            continue
        prim = [s for s in d.get('spans', []) if s.get('is_primary')]
        sec = [s for s in d.get('spans', []) if not s.get('is_primary')]
        line = prim[0]['line_start'] if prim else None
        tag = tags[line - 1] if line and line - 1 < len(tags) else None
        if any(u in msg for u in UNDECIDED):
            undecided.append(dict(message=msg, fn=tag.get('fn') if tag else None, line=line))
            continue
        kind = classify(msg)
        if kind is None:
            tool_errors.append(dict(message=msg, line=line, rendered=(d.get('rendered') or '')[:1500]))
            continue
        # which function? prefer the span that lies in an exec/lemma function body
        fn = None
        label = None
        okind = 'body'
        if kind == 'post':
            # primary: failed clause; secondary: function body end
            if tag and tag.get('kind') == 'ensures':
                fn, label, okind = tag['fn'], tag['label'], 'post'
            elif tag:
                fn = tag.get('fn')
                okind = 'post'
                label = 'line%d' % line if tag.get('tmpl') else None
        elif kind in ('inv_entry', 'inv_preserve'):
            if tag and tag.get('kind') == 'inv':
                fn, label, okind = tag['fn'], tag['label'], 'inv%d' % tag['loop']
            else:
                # e.g. "loop invariant not satisfied" at a `continue`: the primary span is the statement, the clause is secondary
                for s2 in sec:
                    t2 = tags[s2['line_start'] - 1] if s2['line_start'] - 1 < len(tags) else None
                    if t2 and t2.get('kind') == 'inv':
                        fn, label, okind = t2['fn'], t2['label'], 'inv%d' % t2['loop']
                        break
                if fn is None and tag:
                    fn = tag.get('fn')
        else:
            # primary span is in the body of the failing function
            if tag:
                fn = tag.get('fn')
        if fn is None:
            for s in sec:
                t2 = tags[s['line_start'] - 1] if s['line_start'] - 1 < len(tags) else None
                if t2 and t2.get('fn'):
                    fn = t2['fn']
                    break
        detail = '; '.join('%s: %s' % (s.get('label') or '', (s.get('text') or [{}])[0].get('text', '').strip()) for s in (prim + sec))[:600]
        if fn is None:
            tool_errors.append(dict(message='unmapped verification failure: ' + msg, line=line, rendered=(d.get('rendered') or '')[:1500]))
            continue
        tmpl = bool(tag and tag.get('tmpl'))
        if tmpl or (tag and tag.get('kind') == 'lemma'):
            oid = '%s::lemma::%s' % (unit.name, fn)
        elif okind == 'post' and label:
            oid = '%s::%s::post#%s' % (unit.name, fn, label)
        elif okind.startswith('inv') and label:
            oid = '%s::%s::%s#%s' % (unit.name, fn, okind, label)
        else:
            oid = '%s::%s::body' % (unit.name, fn)
        failed.append(dict(id=oid, fn=fn, kind=kind, label=label, message=msg, detail=detail, line=line,
                           rendered=(d.get('rendered') or '')[:3000]))
    return dict(failed=failed, tool_errors=tool_errors, undecided=undecided)
