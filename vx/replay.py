"""./check <property> --replay <file>

A replay file names one failed obligation (written by the driver next to a
VIOLATION line).  Replaying decides that obligation again on the *current*
working tree of the repository:

  Verus obligation   the unit is re-extracted and re-verified; the obligation
                     either still fails (exit 1, verifier output printed) or
                     is discharged (exit 0).  Verus gives no failing input.
  Kani obligation    if the file carries a concrete-playback test, the harness
                     crate is regenerated from the current tree and the test is
                     executed natively on the real code (a firing assertion
                     confirms, exit 1); otherwise the one harness is re-run.

exit 0 not reproduced / known finding, 1 reproduced, 2 undecided."""
import json
import os


def run(pid, path):
    from . import driver as D
    try:
        doc = json.load(open(path))
    except Exception as e:
        print('UNDECIDED property=%s: cannot read replay file %s: %s' % (pid, path, e))
        return 2
    oid = doc.get('obligation') or ''
    if doc.get('property') != pid or '::' not in oid:
        print('UNDECIDED property=%s: %s is not a replay file of this property' % (pid, path))
        return 2
    reg = D.load_registry()
    ent = reg['properties'][pid]
    unit = oid.split('::', 1)[0]
    us = [u for u in ent['units'] if u['unit'] == unit]
    if not us:
        print('UNDECIDED property=%s: obligation %s belongs to no unit of this property' % (pid, oid))
        return 2
    us = us[0]
    known, _ = D.load_known()
    reproduced, suffix, shown = False, ' no-failing-input-found', ''
    try:
        if us['backend'] == 'verus':
            r = D.run_verus_unit(unit, pid, 'quick', None)
            hit = [f for f in r['failed'] if f['id'] == oid]
            if hit:
                reproduced = True
                shown = hit[0].get('rendered') or hit[0].get('detail') or ''
        else:
            from . import kani as K
            udir = os.path.join(D.ROOT, 'units', unit, 'kani')
            meta = json.load(open(os.path.join(udir, 'harnesses.json')))
            hs = [h for h in meta['harnesses'] if '%s::%s' % (unit, h['obligation']) == oid]
            if not hs:
                print('UNDECIDED property=%s: no harness for %s' % (pid, oid))
                return 2
            h = hs[0]
            bdir = os.path.join(D.BUILD, 'kani', unit + '_replay')
            K.gen_crate(udir, bdir, D.REPO, meta, [], [])
            if doc.get('playback_test'):
                rp = K.native_replay(bdir, D.BUILD, h['name'], dict(test=doc['playback_test']))
                if rp.get('ran') and rp.get('confirmed'):
                    reproduced, suffix = True, ''
                    shown = 'concrete values %s\n%s' % (json.dumps(doc.get('counterexample')), rp.get('output_tail', '')[-1500:])
            else:
                rr = K.run_harnesses(bdir, D.BUILD, [h['name']], 1, meta.get('timeout_s', 3000), extra=meta.get('kani_flags'))
                if rr['timeout']:
                    print('UNDECIDED property=%s: kani timed out' % pid)
                    return 2
                res = K.parse_output(rr['text']).get(h['name'])
                if res is None or res['status'] is None:
                    print('UNDECIDED property=%s: no verdict for harness %s' % (pid, h['name']))
                    return 2
                if res['status'] != 'SUCCESSFUL':
                    reproduced = True
                    shown = '\n'.join('%s\n  %s' % (c['check'], c['where']) for c in res['failed_checks'])
    except D.Undecided as e:
        print('UNDECIDED property=%s: %s' % (pid, e))
        return 2
    except Exception as e:
        if type(e).__name__ in ('KaniUndecided', 'ScanError'):
            print('UNDECIDED property=%s: %s' % (pid, e))
            return 2
        raise
    if not reproduced:
        print('REPLAY property=%s obligation=%s: discharged on the current tree (not reproduced)' % (pid, oid))
        return 0
    print('FAILED-OBLIGATION %s' % oid)
    if shown:
        print(shown)
    k = known.get((pid, oid))
    if k:
        print('KNOWN-FINDING: property=%s %s %s' % (pid, oid, k.get('what', '')))
        return 0
    print('VIOLATION property=%s replay=%s%s' % (pid, path, suffix))
    return 1
