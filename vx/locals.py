"""record the local-binder lists of every function under contract on the CURRENT /repo tree (authoring-time baseline
for hint renaming): python3 -m vx.locals [unit ...]"""
import json, os, sys
from . import template as T
ROOT = os.path.dirname(os.path.dirname(os.path.abspath(__file__)))
units = sys.argv[1:] or sorted(d for d in os.listdir(os.path.join(ROOT, 'units')) if os.path.exists(os.path.join(ROOT, 'units', d, 'template.rs')))
for u in units:
    tp = os.path.join(ROOT, 'units', u, 'template.rs')
    lp = os.path.join(ROOT, 'units', u, 'locals.json')
    if os.path.exists(lp):
        os.remove(lp)
    un = T.Unit(tp, repo='/repo')
    un.build()
    json.dump(dict(raw=un.binders_raw, after_rules=un.binders, params=un.params, closures=un.closure_ord), open(lp, 'w'), indent=1, sort_keys=True)
    print(u, len(un.binders), 'functions')
