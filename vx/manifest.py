"""regenerate MANIFEST.json from registry.json + not_applicable.json"""
import json, os
ROOT = os.path.dirname(os.path.dirname(os.path.abspath(__file__)))


def main():
    reg = json.load(open(os.path.join(ROOT, 'registry.json')))
    na = json.load(open(os.path.join(ROOT, 'not_applicable.json')))
    checks = []
    for pid in sorted(reg['properties']):
        e = reg['properties'][pid]
        c = dict(property_id=pid,
                 quick_cmd='./check %s --tier quick' % pid,
                 thorough_cmd='./check %s --tier thorough' % pid,
                 evidence_file='/verif/evidence/%s.json' % pid,
                 replay_cmd_template='./check %s --replay {path}' % pid,
                 engine='vx',
                 level_claimed=dict(category=e['level'], text=e['level_text'], design_ref=e.get('design_ref', 'DESIGN.md §3')),
                 level_note=e['level_note'],
                 technique=e['technique'])
        checks.append(c)
    claimed = set(reg['properties'])
    nal = [dict(property_id=k, reason=v) for k, v in sorted(na.items()) if k not in claimed]
    m = dict(version=1,
             setup_cmd='./setup.sh',
             hooks=dict(guard='samyama_ai_samyama_graph_verif',
                        enable='no hooks: contracts live in /verif and are spliced into text re-extracted from /repo on every run; RUSTFLAGS="--cfg samyama_ai_samyama_graph_verif" is reserved but unused',
                        baseline_off_cmd='cd /repo && cargo nextest run --workspace --no-fail-fast --tool-config-file pb:/w/lib/nextest.toml --profile pb --test-threads 8 --offline',
                        source_commits=[], add_only=True),
             engines=[dict(name='vx', path='/verif/vx', serves_properties=sorted(claimed),
                           kind_free_text='contract-based deductive verification: functions re-extracted from /repo on every run, contracts spliced in, discharged by Verus (unbounded) and Kani/CBMC (complete loop-free kernels; bounded stand-ins labelled)')],
             checks=checks,
             notes=reg.get('notes', ''),
             not_applicable=nal)
    json.dump(m, open(os.path.join(ROOT, 'MANIFEST.json'), 'w'), indent=1)
    print('MANIFEST.json: %d checks, %d not applicable' % (len(checks), len(nal)))


if __name__ == '__main__':
    main()
