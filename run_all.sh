#!/bin/sh
# run every claimed quick check on the current tree and validate manifest/evidence (developer helper)
cd "$(dirname "$0")" || exit 2
rc=0
for id in $(python3 -c "import json;print(' '.join(sorted(json.load(open('registry.json'))['properties'])))"); do
  ./check "$id" --tier quick | tail -1
  [ $? -ne 0 ] && rc=1
done
python3 -m vx.manifest
python3-vt validate.py | tail -1
exit $rc
