#!/bin/sh
# run every claimed quick check on the current tree of /repo, regenerate MANIFEST.json and validate
# manifest/evidence (developer helper).  Exit 0 only if every check exited 0 and every evidence file is the
# record of a quiet run: evidence left behind by a run on a changed /repo is a record of THAT tree, not of
# the unchanged one -- do not commit it.
cd "$(dirname "$0")" || exit 2
rc=0
bad=""
for id in $(python3 -c "import json;print(' '.join(sorted(json.load(open('registry.json'))['properties'])))"); do
  out=$(./check "$id" --tier quick); r=$?
  echo "$out" | tail -1
  if [ $r -ne 0 ]; then rc=1; bad="$bad $id(rc=$r)"; fi
done
python3 -m vx.manifest || rc=1
python3-vt validate.py | tail -1
python3-vt validate.py >/dev/null 2>&1 || rc=1
python3 -m vx.cleancheck || rc=1
[ -n "$bad" ] && echo "checks that did not exit 0:$bad -- evidence/ must not be committed from this state"
exit $rc
