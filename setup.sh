#!/bin/sh
# offline setup: nothing to fetch; warm the verus cache and check tools exist
cd "$(dirname "$0")" || exit 1
export CARGO_NET_OFFLINE=true
command -v verus >/dev/null || { echo "verus missing"; exit 1; }
command -v cargo-kani >/dev/null || command -v kani >/dev/null || echo "warning: kani not on PATH"
mkdir -p build evidence replays
python3 -c "import vx.driver" || exit 1
if [ -x ./setup_kani.sh ]; then ./setup_kani.sh || exit 1; fi
echo setup ok
